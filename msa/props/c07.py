"""C07 - geometric quantities match their definitions (structural clauses)."""
from __future__ import annotations
import ast
from fractions import Fraction
from .. import au, sym, flow
from ..sym import Poly
from ..core import AnalysisError
from ..rules import c0708 as H
from ..rules import he_norm, he_seq

ATTR_MODS = ["attributes.attr_cells", "attributes.attr_corners", "attributes.attr_edges",
             "attributes.attr_faces", "attributes.attr_vertices"]
GLOB = "attributes.glob"
INTERP = "attributes.interpolate"
GEOM = "geometry.geometry"
ALL_ATTR = ATTR_MODS + [GLOB, INTERP]

EXPLANATION = (
    "Static conformance of the per-element quantity functions, read on a *view* of each function (private helpers inlined, local "
    "aliases propagated, loops over literal tuples unrolled, conditions in normal form) so that the spelling of the code does not matter: "
    "return discipline of the annotated functions, agreement of the persistent / dense / sparse constructors of each attribute, index-kind "
    "typing of every subscript and connectivity call (an attribute living on container K is only indexed by ids of K), triangular gates "
    "in front of corner arithmetic, corner quantities centred at the corner's vertex (sequence forms: which element of the face each "
    "argument is, whatever the iteration idiom), weight / normaliser pairing of every interpolation mode (canonical summation "
    "signatures), divisor = number of summed terms for means and barycentres, affine weights / translation invariance / physical "
    "dimension by abstract interpretation, border handling of the angle defects (truth table), and polynomial identities of the "
    "closed-form primitives of geometry.py (symbolic return expressions). Structural necessary conditions only; no numerical value is "
    "computed. A shape the rules cannot read is reported as undecided (exit 2), never as a violation.")

RULES = {
    "C07-R1": "a function of attributes/*.py annotated with a non-None return type returns a value on every normal exit",
    "C07-D1": "a conditional marker store `A[k] = m` is not unconditionally overwritten by the next store to `A[k]`",
    "C07-S1": "create_attribute(name, T, k) on container K, ArrayAttribute(T, len(mesh.K), k) and Attribute(T, k) agree on T, k, K and default value",
    "C07-K1": "an attribute / array / container indexed by elements of kind K is only subscripted with ids of kind K, and "
              "connectivity queries receive ids of the kind they are defined on",
    "C07-G1": "corner index arithmetic (3*f+i, first_corner+3-iA-iB) only occurs behind an is_triangular() gate",
    "C07-C1": "the quantity stored at a face corner is computed with that corner's vertex as the central point, the two other "
              "vertices of the face as end points; corners are numbered face by face",
    "C07-W1": "in every interpolation mode the factor multiplying the value and the increment of the normaliser are equal and the "
              "result is divided by that normaliser; un-weighted means divide by the length of the collection that was summed",
    "C07-M1": "in the mean_* functions the divisor equals the number of accumulated terms",
    "C07-M2": "a barycentre divides the sum of a collection by the length of that same collection; affine combinations have coefficients summing to 1",
    "C07-A1": "face_area dispatches on the number of vertices to a primitive of that arity and its polygon fan visits every side once; "
              "cell_volume is |det| of three edge vectors from a common apex over 6",
    "C07-E1": "a per-edge quantity visits the faces on both sides of the edge (direct_face(A,B) and direct_face(B,A)) independently: "
              "no break / return / nesting lets an absent face on one side suppress the other side",
    "C07-E2": "no per-element quantity is guarded by a comparison of a dimensional expression (length, area, volume ...) with an absolute constant",
    "C07-P1": "a function returning a position returns an affine combination of its input positions (weights summing to one; when rebuilt from "
              "coordinates in an orthonormal frame, along all three axes of the frame), never a pure vector",
    "C07-Z1": "an accumulator that is read-modify-written (+=, x = x + ..) is built in the function or reset (clear()) before the accumulation",
    "C07-I1": "an attribute fetched from a mesh container (get_attribute: dense or sparse storage unknown) is read element by element through the "
              "ids of its container, never iterated / summed / measured as a whole (iterating a sparse attribute yields its keys, len() its number of non-default entries)",
    "C07-T1": "quantities that must not move under a translation of the mesh are built from displacement vectors: cross / norm / normalized "
              "receive differences of positions, never positions; distance / area / angle primitives receive positions only",
    "C07-B1": "angle_defects: interior vertices start from 2*pi, border vertices from pi (0 when zero_border) and the corner angles are subtracted "
              "at every vertex except the border vertices when zero_border is set",
    "C07-V1": "vertex degree counts every edge once at both of its ends; total_area sums the areas of all the faces",
    "C07-O1": "face normals are oriented by the order of the vertices of the face: normalised cross(e1, e2) with (e1, e2) a positively oriented "
              "pair of edge vectors of the face",
    "C07-G2": "the first three vertices of a face (`F[:3]`) stand for the whole face only up to direction: a quantity computed from them is "
              "normalised before it is stored / accumulated, unless the faces are known to be triangles (is_triangular / len(F) == 3)",
    "C07-Q1": "an attribute stored on the mesh (persistent) is filled over all the elements of its container: a function of the attribute modules "
              "never asks another one for a persistent attribute restricted to a subset of the elements (later queries reuse the cached attribute)",
    "C07-X1": "closed-form primitives of geometry.py are the textbook polynomials (cross, det_2x2, det_3x3, quad_area, aspect_ratio, "
              "triangle_area) and angle primitives take both vectors from the central point",
}


def run(ctx):
    steps = [("C07-R1", r1_return_discipline), ("C07-D1", d1_dead_marker), ("C07-S1", s1_constructors), ("C07-K1", k1_index_kinds),
             ("C07-G1", g1_triangular_gate), ("C07-C1", c1_corner_centre), ("C07-W1", w1_interpolation), ("C07-M1", m1_mean_divisor),
             ("C07-M2", m2_barycentres), ("C07-A1", a1_area_volume), ("C07-X1", x1_primitives), ("C07-E1", e1_edge_sides),
             ("C07-E2", e2_absolute_thresholds), ("C07-Z1", z1_reset_before_accumulate), ("C07-P1", p1_points),
             ("C07-I1", i1_attribute_iteration), ("C07-T1", t1_translation), ("C07-B1", b1_angle_defect_border), ("C07-V1", v1_counts), ("C07-O1", o1_normal_orientation), ("C07-G2", g2_truncated_face), ("C07-Q1", q1_partial_cache)]
    run_steps(ctx, steps, "attributes.attr_faces")


def run_steps(ctx, steps, home):
    """every rule runs on its own: a recogniser that trips over an unforeseen shape leaves its obligation undecided (exit 2 unless
    another rule reports a violation) instead of aborting the whole check"""
    for rule, step in steps:
        try:
            step(ctx)
        except AnalysisError:
            raise
        except Exception as e:          # noqa
            ctx.undecided(rule, ctx.site(home, "<module>"), f"{rule}: the recogniser failed on an unforeseen shape ({type(e).__name__})",
                          "internal limitation of the checker, not a property of the code")


def top_funcs(ctx, modname):
    m = ctx.repo.module(modname)
    return [(q, fn) for q, fn in m.funcs.items() if "." not in q]


def floor(ctx, rule, n, at_least, modname, what):
    """a rule that lost all (or most of) its sites cannot vouch for the property: undecided, not a vacuous pass"""
    if n < at_least:
        ctx.undecided(rule, ctx.site(modname, "<module>"), f"{rule}: only {n} {what} recognised (at least {at_least} expected)",
                      "the code no longer has the shapes this rule reads")


# ----------------------------------------------------------------------- C07-R1
def r1_return_discipline(ctx):
    n = 0
    for modname in ALL_ATTR:
        for q, fn in top_funcs(ctx, modname):
            if q.startswith("_") or fn.returns is None:
                continue
            if isinstance(fn.returns, ast.Constant) and fn.returns.value is None:
                continue
            n += 1
            site = ctx.site(modname, fn)
            if hasattr(ast, "Match") and any(isinstance(x, ast.Match) for x in au.walk(fn)):
                ctx.undecided("C07-R1", site, f"{q}: control flow through a `match` statement is not followed by the rule", "")
                continue
            f = flow.Flow(lambda s, st: s)
            f.run(fn.body, frozenset())
            falls = [e for e in f.exits if e[0] == "fall"]
            bare = [e for e in f.exits if e[0] == "return" and e[1].value is None]
            rets = [e for e in f.exits if e[0] == "return" and e[1].value is not None]
            if falls or bare:
                how = "falls off the end" if falls else "has a bare `return`"
                ctx.fail("C07-R1", site, f"{q} is annotated `-> {au.src(fn.returns)}` but {how}",
                         f"every call returns None instead of the computed quantity ({len(rets)} value-returning exit(s))")
            else:
                ctx.ok("C07-R1", site, f"{q}: {len(rets)} exit(s), all return a value")
    floor(ctx, "C07-R1", n, 1, "attributes.attr_faces", "annotated function(s)")


# ----------------------------------------------------------------------- C07-D1
def _const_store(st):
    return isinstance(st, ast.Assign) and len(st.targets) == 1 and isinstance(st.targets[0], ast.Subscript) \
        and isinstance(au.const(st.value), (int, float)) and not isinstance(au.const(st.value), bool)


def d1_dead_marker(ctx):
    """a *conditional* store of a constant marker `A[k] = m` is dead when, on every path that executes it, a later plain store to the
    same `A[k]` (not reading it) follows: decided on the structured paths of the enclosing loop body, whatever the layout"""
    from ..rules.c1120_util import paths
    n = 0
    per_fn = {}
    for modname in ATTR_MODS:
        for q, fn in top_funcs(ctx, modname):
            V = H.fview(ctx, modname, fn)
            bodies = [s.body for s in au.stmts(V.body) if isinstance(s, (ast.For, ast.While))] + [V.body]
            seen = set()
            for body in bodies:
                try:
                    ps = paths(body)
                except Exception:
                    continue
                markers = {}
                for p in ps:
                    sts = [s for s in p.stmts if isinstance(s, ast.Assign)]
                    for i, s in enumerate(sts):
                        if not _const_store(s) or id(s) in seen:
                            continue
                        owner = next((a for a in au.ancestors(s) if isinstance(a, (ast.For, ast.While, ast.FunctionDef))), None)
                        if not au.guards(s, stop=owner):
                            continue        # unconditional initialisation: not a marker
                        key = H.load_key(s.targets[0])
                        dead = None
                        for later in sts[i + 1:]:
                            if len(later.targets) == 1 and H.load_key(later.targets[0]) == key:
                                reads = any(au.norm(x) == key for x in au.walk(later.value))
                                dead = None if reads else later
                                break
                        markers.setdefault(id(s), (s, []))[1].append(dead)
                for sid, (s, outcomes) in markers.items():
                    seen.add(sid)
                    n += 1
                    per_fn[q] = per_fn.get(q, 0) + 1
                    site = ctx.site(modname, fn, s)
                    if outcomes and all(o is not None for o in outcomes):
                        nxt = outcomes[0]
                        cond = au.guards(s)[0]
                        ctx.fail("C07-D1", site, f"{q}: marker store `{au.src(s.targets[0])} = {au.src(s.value)}` under `{au.canon_test(*cond)}` is "
                                 f"overwritten by a later store on every path", f"the documented marker value never survives: `{au.src(nxt)}` runs "
                                 f"after it for every element")
                    else:
                        ctx.ok("C07-D1", site, f"{q}: conditional marker store keeps its value")
    if not per_fn.get("triangle_aspect_ratio"):
        fn = ctx.repo.func("attributes.attr_faces", "triangle_aspect_ratio")
        V = H.fview(ctx, "attributes.attr_faces", fn)
        b = sym.Bindings(V)
        for s in au.stmts(V.body):
            if isinstance(s, ast.Assign) and len(s.targets) == 1 and isinstance(s.targets[0], ast.Subscript):
                v = b.resolve(s.value, at=s)
                if isinstance(v, ast.IfExp) and any(isinstance(au.const(x), (int, float)) for x in (v.body, v.orelse)):
                    blk, _ = au.enclosing_block(s)
                    later = [x for x in blk[[id(y) for y in blk].index(id(s)) + 1:] if isinstance(x, ast.Assign) and len(x.targets) == 1
                             and H.load_key(x.targets[0]) == H.load_key(s.targets[0])]
                    if not later:
                        ctx.ok("C07-D1", ctx.site("attributes.attr_faces", fn, s), "triangle_aspect_ratio: marker chosen by a conditional expression")
                        return
        ctx.undecided("C07-D1", ctx.site("attributes.attr_faces", fn), "triangle_aspect_ratio: conditional marker store for non-triangular faces not recognised",
                      "the documented -1 marker for faces that are not triangles could not be located")


# ----------------------------------------------------------------------- C07-S1
CTORS = ("create_attribute", "ArrayAttribute", "Attribute")


def _ctor_desc(b, call, how):
    """(T, size, K, default) of a constructor call, arguments resolved through the local bindings and normalised"""
    kw = {k.arg: k.value for k in call.keywords}
    args = call.args

    def pick(pos, name, default):
        e = args[pos] if len(args) > pos and not isinstance(args[pos], ast.Starred) else kw.get(name)
        if e is None:
            return default
        return au.norm(b.resolve(e, at=call))
    one, none = au.norm(ast.Constant(value=1)), au.norm(ast.Constant(value=None))
    if how == "create_attribute":
        ch = au.chain(call.func.value) if isinstance(call.func, ast.Attribute) else None
        return (pick(1, "data_type", None), pick(2, "elem_size", one), ch[-1] if ch and ch[-1] in H.CONTAINERS else None, pick(4, "default_value", none))
    if how == "ArrayAttribute":
        nn = args[1] if len(args) > 1 else kw.get("n_elem")
        K = None
        nn = b.resolve(nn, at=call) if nn is not None else None
        if isinstance(nn, ast.Call) and au.call_tail(nn) == "len" and nn.args:
            ch = au.chain(nn.args[0])
            K = ch[-1] if ch and ch[-1] in H.CONTAINERS else None
        return (pick(0, "elem_type", None), pick(2, "elem_size", one), K, pick(3, "default_value", none))
    return (pick(0, "elem_type", None), pick(1, "elem_size", one), None, pick(2, "default_value", none))


def s1_constructors(ctx):
    """the constructors that build the output attribute under persistent / not persistent (dense / sparse) agree on element type,
    width, container and default value - wherever they are written (if / else, conditional expression, private helper)"""
    n = 0
    for modname in ATTR_MODS:
        for q, fn in top_funcs(ctx, modname):
            if "persistent" not in au.params(fn):
                continue
            V = H.fview(ctx, modname, fn)
            site = ctx.site(modname, fn)
            b = sym.Bindings(V)
            calls = [c for c in au.calls(V) if au.call_tail(c) in CTORS and not (au.call_tail(c) == "Attribute" and isinstance(c.func, ast.Attribute)
                                                                                 and au.chain(c.func) and len(au.chain(c.func)) > 2)]
            creates = [c for c in calls if au.call_tail(c) == "create_attribute"]
            others = [c for c in calls if au.call_tail(c) != "create_attribute" and H.flag_polarity(c, "persistent") is False]
            if not creates and not others:
                fwd = any((k.arg == "persistent" or k.arg is None) for c in au.calls(V) for k in c.keywords) or \
                    any(isinstance(a, ast.Name) and a.id == "persistent" for c in au.calls(V) for a in c.args)
                if fwd:
                    ctx.ok("C07-S1", site, f"{q}: the persistent option is forwarded to the function that builds the attribute")
                else:
                    ctx.undecided("C07-S1", site, f"{q}: constructors of the persistent / non-persistent attribute not recognised",
                                  "the function takes a `persistent` option but its attribute constructors could not be located")
                continue
            if not creates or not others:
                ctx.undecided("C07-S1", site, f"{q}: persistent / non-persistent constructor pair not recognised",
                              "only one side of the `persistent` option builds its attribute with create_attribute / ArrayAttribute / Attribute")
                continue
            n += 1
            bad = []
            descs = [(au.call_tail(c), c, _ctor_desc(b, c, au.call_tail(c))) for c in creates + others]
            ref = descs[0][2]
            for name, c, d in descs[1:]:
                for slot, label in ((0, "element type"), (1, "element size"), (3, "default value")):
                    if d[slot] is not None and ref[slot] is not None and d[slot] != ref[slot]:
                        bad.append(f"{label} of {name}")
                if name == "ArrayAttribute" and d[2] is not None and ref[2] is not None and d[2] != ref[2]:
                    bad.append(f"ArrayAttribute is sized by len(mesh.{d[2]}) but the persistent attribute lives on mesh.{ref[2]}")
                if name == "create_attribute" and d[2] is not None and ref[2] is not None and d[2] != ref[2]:
                    bad.append(f"persistent attributes are created on mesh.{ref[2]} and on mesh.{d[2]}")
            for c in creates:
                if H.flag_polarity(c, "persistent") is False:
                    bad.append("create_attribute (stored on the mesh) is called when persistent is false")
                if "name" in au.params(fn) and c.args and isinstance(b.resolve(c.args[0], at=c), ast.Constant):
                    bad.append("persistent attribute is stored under a fixed string instead of the `name` parameter")
            if "dense" in au.params(fn):
                for name, c, d in descs:
                    pol = H.flag_polarity(c, "dense")
                    if name == "ArrayAttribute" and pol is False:
                        bad.append("the dense ArrayAttribute is built when dense is false")
                    if name == "Attribute" and pol is True:
                        bad.append("the sparse Attribute is built when dense is true")
            ctx.check(not bad, "C07-S1", site,
                      f"{q}: constructors of the persistent and non-persistent attribute disagree on " + "; ".join(sorted(set(bad))),
                      "the same call with persistent=False / dense=False returns an attribute of another type, width, length or default",
                      note=f"{q}: {len(descs)} constructors agree on (T, size, container, default)")
    floor(ctx, "C07-S1", n, 1, "attributes.attr_faces", "constructor group(s)")


# ----------------------------------------------------------------------- C07-K1
def kinds_rule(ctx, rule, modules, floor_n):
    n = 0
    for modname in modules:
        m = ctx.repo.module(modname)
        resolver = H.make_attr_func_kind(ctx.repo, m.name)
        for q, fn in m.funcs.items():
            if "<locals>" in q:
                continue
            try:
                K = H.Kinds(ctx.repo, m.name, fn, resolver)
                obl = list(K.obligations())
            except RecursionError:
                continue
            for node, what, want, got in obl:
                n += 1
                site = ctx.site(modname, fn, node)
                ctx.check(want == got, rule, site,
                          f"{what} but `{au.src(node.slice if isinstance(node, ast.Subscript) else node)}` is an index of {got}",
                          f"an id of one element kind is used to address another kind: wrong element (or IndexError) "
                          f"whenever the two containers differ", note=what)
    floor(ctx, rule, n, min(floor_n, 10), modules[0], "typed index use(s)")


def k1_index_kinds(ctx):
    kinds_rule(ctx, "C07-K1", ALL_ATTR, 50)


# ----------------------------------------------------------------------- C07-G1
def _tri_call(e):
    return isinstance(e, ast.Call) and au.call_tail(e) == "is_triangular"


def _is_gate(st):
    """`if not X.is_triangular(): raise` / `assert X.is_triangular()`"""
    if isinstance(st, ast.Assert):
        return _tri_call(st.test) or (isinstance(st.test, ast.BoolOp) and isinstance(st.test.op, ast.And) and any(_tri_call(v) for v in st.test.values))
    if isinstance(st, ast.If):
        t, pol = au.strip_not(st.test)
        if _tri_call(t) and not pol:
            return flow.always_terminates(st.body) and not any(isinstance(s, (ast.Continue, ast.Break)) for s in au.stmts(st.body))
    return False


def gated(repo, modname, fn, node):
    """does `node` only run on triangulated meshes?  (is_triangular() known true from the guards / earlier early exits, an assert, or a
    helper called first that raises otherwise)"""
    for t, pol in H.facts(node, toplevel=True):
        if _tri_call(t) and pol:
            return True
        if isinstance(t, ast.BoolOp) and isinstance(t.op, ast.And) and pol and any(_tri_call(v) for v in t.values):
            return True
        if isinstance(t, ast.BoolOp) and isinstance(t.op, ast.Or) and not pol and any(
                _tri_call(au.strip_not(v)[0]) and not au.strip_not(v)[1] for v in t.values):
            return True
    top = node
    while au.parent(top) is not fn and au.parent(top) is not None:
        top = au.parent(top)
    for st in fn.body:
        if st is top:
            return False
        if _is_gate(st):
            return True
        if isinstance(st, ast.Expr) and isinstance(st.value, ast.Call) and isinstance(st.value.func, ast.Name):
            r = repo.resolve_func(modname, st.value.func.id)
            if r and r[1] is not None and any(_is_gate(s) for s in r[1].body):
                return True
    return False


def corner_arithmetic(V, K):
    """subscripts of corner-indexed containers whose index is computed from a face id / local indices under the triangle-only numbering:
    3*f (+k), len(face)*f + k, first corner + 3 - iA - iB"""
    out = []
    b = sym.Bindings(V)
    for n in au.walk(V):
        if not isinstance(n, ast.Subscript) or isinstance(n.slice, (ast.Slice, ast.Tuple)):
            continue
        try:
            bk = K.kind(n.value, K._scope_of(n))
        except RecursionError:
            bk = None
        if H.index_kind(bk) != "face_corners":
            continue
        e = b.resolve(n.slice, at=n)
        if not isinstance(e, ast.BinOp):
            continue
        try:
            p = sym.to_poly(e, opaque=True)
        except Exception:
            continue
        lin3 = [k for k, v in p.t.items() if len(k) == 1 and v == 3 and not k[0].startswith("⟨")]
        prod = [k for k, v in p.t.items() if len(k) == 2 and v == 1 and any(x.startswith("⟨len(") for x in k)]
        neg = [k for k, v in p.t.items() if len(k) == 1 and v == -1]
        c = p.const_value()
        if lin3:
            out.append((n, f"3*{lin3[0][0]}+.."))
        elif prod:
            out.append((n, "len(face)*f+.."))
        elif c == 3 and len(neg) == 2:
            out.append((n, "first corner + 3 - iA - iB"))
    return out


def g1_triangular_gate(ctx):
    n = 0
    for modname in ALL_ATTR:
        m = ctx.repo.module(modname)
        resolver = H.make_attr_func_kind(ctx.repo, m.name)
        for q, fn in top_funcs(ctx, modname):
            V = H.fview(ctx, modname, fn)
            K = H.Kinds(ctx.repo, m.name, V, resolver)
            for node, form in corner_arithmetic(V, K):
                ok = gated(ctx.repo, m.name, V, node)
                site = ctx.site(modname, fn, node)
                if not ok and q.startswith("_"):
                    # a private helper may rely on the gate of its callers
                    cs = H.callers_of(ctx.repo, modname, q)
                    if cs and all(gated(ctx.repo, m.name, cf, c) for cf, c in cs):
                        ok = True
                    elif not cs or any(cf.name.startswith("_") for cf, c in cs):
                        ctx.undecided("C07-G1", site, f"{q}: corner arithmetic `{form}` in a private helper whose callers could not all be checked for the triangular gate", "")
                        continue
                n += 1
                ctx.check(ok, "C07-G1", site,
                          f"{q}: corner arithmetic `{form}` is not dominated by an is_triangular() gate",
                          "on a mesh with a quad or polygon the corner of face f is not 3*f+i: values are read from / written to the wrong corner",
                          note=f"{q}: `{form}` behind the triangular gate")
    # no floor: a function that addresses corners through the connectivity only has nothing to gate
    if n == 0:
        ctx.ok("C07-G1", ctx.site("attributes.attr_corners", "<module>"), "no triangle-only corner arithmetic in the attribute modules")


# ----------------------------------------------------------------------- C07-C1
def _vertex_of(e):
    """index expression X if e is `mesh.vertices[X]` (possibly wrapped in Vec(...))"""
    return he_seq.vertex_index(e)


def _face_loop(F, loops):
    """(loop, LoopCtx, face index names, row key) of the outermost enclosing loop that runs over the faces"""
    for lp in reversed(loops):
        L = he_seq.LoopCtx(F, lp.target, lp.iter, lp)
        if L.seq is None or L.seq.base is None:
            continue
        base = L.seq.base
        if not (base.endswith(".faces") or base.endswith(".id_faces")):
            continue
        fis, row = [], None
        for name, d in L.names.items():
            if d[0] == "idx" and d[2].is_zero():
                fis.append(name)
            elif d[0] == "at" and d[1].endswith(".id_faces") and d[2] == 0:
                fis.append(name)
            elif d[0] == "at" and d[1].endswith(".faces") and d[2] == 0 and not d[3]:
                row = name
        return lp, L, fis, row
    return None


def _int_with(e, env):
    """integer value of an index expression under env (name / `len(x)` source -> int), None when not constant"""
    if isinstance(e, ast.Constant) and isinstance(e.value, int) and not isinstance(e.value, bool):
        return e.value
    if isinstance(e, ast.Name):
        return env.get(e.id)
    if isinstance(e, ast.Call) and au.call_tail(e) == "len":
        return env.get(au.src(e))
    if isinstance(e, ast.UnaryOp) and isinstance(e.op, ast.USub):
        v = _int_with(e.operand, env)
        return None if v is None else -v
    if isinstance(e, ast.BinOp):
        a, c = _int_with(e.left, env), _int_with(e.right, env)
        if a is None or c is None:
            return None
        if isinstance(e.op, ast.Add): return a + c
        if isinstance(e.op, ast.Sub): return a - c
        if isinstance(e.op, ast.Mult): return a * c
        if isinstance(e.op, ast.Mod) and c: return a % c
    return None


def _local_positions(F, LF, Li, args, st, row, b, n_row=None):
    """position inside the current face of each point argument: ("const", j) or ("var", shift) (relative to the inner index), else None"""
    out = []
    keep = tuple(n for n in (list(LF.names) + (list(Li.names) if Li is not None else [])))
    for a in args:
        # local aliases of the vertex ids (`tri = (iA, iB, iC)`, `cur = tri[k]`) are looked through, constant subscripts of literals folded
        a = he_norm.fold_literals(ast.Expr(value=sym.clone(b.resolve(a, at=st, keep=keep)))).value
        d = Li.desc(a, st) if Li is not None else ("expr", a)
        if d[0] == "expr" or (d[0] == "at" and Li is not None and d[1] != (Li.seq.base if Li.seq is not None else None)):
            d = LF.desc(a, st)
        if d[0] == "elt":
            out.append(("const", d[2]))
            continue
        if d[0] == "at" and Li is not None and Li.seq is not None and d[1] == Li.seq.base:
            out.append(("var", d[2]))
            continue
        # constant subscript of the row / of the list of its points
        e = b.resolve(a, at=st, keep=(row,) if row else ())
        vi = he_seq.vertex_index(e)
        cand = vi if vi is not None else e
        if isinstance(cand, ast.Subscript) and not isinstance(cand.slice, (ast.Slice, ast.Tuple)):
            basek = F.key(cand.value, st)
            if row is not None and basek == row:
                j = _int_with(cand.slice, {"n": n_row, f"len({row})": n_row} if n_row else {})
                if j is not None and n_row:
                    out.append(("const", j % n_row))
                    continue
        out.append(None)
    return out


def _running_counter(V, st, c, outer):
    """True / False: is the name c initialised to 0 at the top level of the function and advanced by one exactly once, unconditionally, after
    the store st in the same block?  None when its bindings are not of that form"""
    binds = [s for s in au.stmts(V.body) if sym.Bindings._assigns(s, c, deep=False) and (_may_reach(s, st) or any(s is x for x in au.stmts(outer.body)))]
    init = [s for s in binds if isinstance(s, ast.Assign) and au.const(s.value) == 0 and not any(isinstance(a, (ast.For, ast.While)) for a in au.ancestors(s))
            and s.lineno < outer.lineno]
    bumps = [s for s in binds if s not in init]
    if len(init) != 1 or len(bumps) != 1 or au.increment(bumps[0]) is None:
        return None
    blk, _ = au.enclosing_block(st)
    pos = [id(x) for x in blk].index(id(st))
    tgt, sign, amount = au.increment(bumps[0])
    return tgt == c and sign == 1 and au.const(amount) == 1 and any(bumps[0] is x for x in blk[pos + 1:]) and not au.guards(st, stop=outer)


def c1_corner_centre(ctx):
    mod = "attributes.attr_corners"
    m = ctx.repo.module(mod)
    # (a) cotangent: the corner 3*f+k of a triangle receives the cotangent at its k-th vertex, spanned by the two other vertices
    fn = ctx.repo.func(mod, "cotangent")
    site = ctx.site(mod, fn)
    V = H.fview(ctx, mod, fn)
    F = he_seq.Forms(V, ctx.repo, m.name)
    b = F.b
    stores = [st for st in au.stmts(V.body) if isinstance(st, ast.Assign) and len(st.targets) == 1 and isinstance(st.targets[0], ast.Subscript)
              and isinstance(st.value, ast.Call) and au.call_tail(st.value) == "cotan" and len(st.value.args) == 3]
    if not stores:
        ctx.undecided("C07-C1", site, "cotangent: stores of corner cotangents `cot[corner] = cotan(p, q, r)` not recognised",
                      "the corner / vertex pairing of the cotangents could not be read")
    seen_k = set()
    for st in stores:
        ssite = ctx.site(mod, fn, st)
        loops = [a for a in au.ancestors(st) if isinstance(a, ast.For)]
        fl = _face_loop(F, loops)
        if fl is None:
            ctx.undecided("C07-C1", ssite, "cotangent: the loop over the faces enclosing a corner store not recognised", "")
            continue
        lp, LF, fis, row = fl
        inner = [x for x in loops if x is not lp and any(x is y for y in au.stmts(lp.body))]
        Li = he_seq.LoopCtx(F, inner[0].target, inner[0].iter, inner[0]) if inner else None
        kvars = [nm for nm, d in (Li.names.items() if Li else []) if d[0] == "idx" and d[2].is_zero()]
        rowkey = row or next((k for k in LF.rows), None)

        def atom(x):
            if isinstance(x, ast.Call) and au.call_tail(x) == "len" and len(x.args) == 1:
                return Poly.const(3)            # behind the triangular gate (C07-G1) every face has three corners
            return None
        try:
            p = sym.to_poly(b.resolve(st.targets[0].slice, at=st, keep=tuple(fis) + tuple(kvars)), atom_of=atom, opaque=False)
        except sym.NotPoly:
            p = None
        fi = next((f for f in fis if p is not None and p.coeff(f) == Poly.const(3)), None)
        slot = st.targets[0].slice
        if fi is None and isinstance(slot, ast.Name) and Li is not None and Li.seq is not None and inner:
            # running corner index: `c = 0` before the loops, `c += 1` once after every store, corners visited face by face
            cnt = _running_counter(V, st, slot.id, lp)
            pos = _local_positions(F, LF, Li, st.value.args, st, row, b, 3)
            full = he_seq.full(Li.seq)
            if cnt is None or None in pos or not all(k == "var" for k, _ in pos) or full is None:
                ctx.undecided("C07-C1", ssite, "cotangent: running corner index / vertices of a corner store not recognised", "")
                continue
            sh = [s_ % 3 for _, s_ in pos]
            seen_k.update((0, 1, 2) if full else ())
            ctx.check(cnt and sh[1] == 0 and sorted(sh) == [0, 1, 2] and full, "C07-C1", ssite,
                      f"cotangent: the running corner receives the cotangent at local vertex k{pos[1][1]:+d} between k{pos[0][1]:+d} and k{pos[2][1]:+d}"
                      + ("" if cnt else "; the running corner index is not advanced by one once after each store")
                      + ("" if full else "; not all the vertices of the face are visited"),
                      "geom.cotan(A, B, C) is the cotangent of the angle at B; the corner must get the angle at its own vertex, "
                      "spanned by the two other vertices of the face", note="running corner centred at its vertex")
            continue
        if p is None or fi is None:
            ctx.undecided("C07-C1", ssite, "cotangent: the slot of a corner store is not of the form 3*face + k", "")
            continue
        rest = p.without(fi)
        pos = _local_positions(F, LF, Li, st.value.args, st, row, b, 3)
        if None in pos:
            ctx.undecided("C07-C1", ssite, "cotangent: an argument of cotan(p, q, r) could not be related to a vertex of the face", "")
            continue
        if rest.is_const() and all(k == "const" for k, _ in pos):
            k = int(rest.const_value())
            js = [j for _, j in pos]
            seen_k.add(k)
            ctx.check(js[1] == k and sorted(js) == [0, 1, 2], "C07-C1", ssite,
                      f"cotangent: corner 3*f+{k} receives the cotangent of the angle at vertex {js[1]} of the face between vertices {js[0]} and {js[2]}",
                      "geom.cotan(A, B, C) is the cotangent of the angle at B; the corner must get the angle at its own vertex, "
                      "spanned by the two other vertices of the face", note=f"corner 3f+{k} centred at its vertex")
        elif len(kvars) == 1 and rest == Poly.atom(kvars[0]) and all(k == "var" for k, _ in pos) and Li.seq is not None:
            sh = [s % 3 for _, s in pos]
            full = he_seq.full(Li.seq)
            if full is None:
                ctx.undecided("C07-C1", ssite, "cotangent: the number of iterations of the loop over the corners of a face is not known", "")
                continue
            seen_k.update((0, 1, 2) if full else ())
            ctx.check(sh[1] == 0 and sorted(sh) == [0, 1, 2] and full, "C07-C1", ssite,
                      f"cotangent: corner 3*f+k receives the cotangent at local vertex k{pos[1][1]:+d} between k{pos[0][1]:+d} and k{pos[2][1]:+d}"
                      + ("" if full else " and k does not run over all the vertices of the face"),
                      "geom.cotan(A, B, C) is the cotangent of the angle at B; the corner must get the angle at its own vertex, "
                      "spanned by the two other vertices of the face", note="corner 3f+k centred at vertex k")
        else:
            ctx.undecided("C07-C1", ssite, "cotangent: slot and arguments of a corner store are not expressed in one of the known forms", "")
    if stores and seen_k and seen_k != {0, 1, 2} and not ctx.undecided_list:
        ctx.undecided("C07-C1", site, f"cotangent: corner stores recognised for local corners {sorted(seen_k)} only", "each of the three corners of a face must receive its cotangent")
    # (b) corner_angles
    fn = ctx.repo.func(mod, "corner_angles")
    site = ctx.site(mod, fn)
    V = H.fview(ctx, mod, fn)
    F = he_seq.Forms(V, ctx.repo, m.name)
    b = F.b
    stores = [st for st in au.stmts(V.body) if isinstance(st, ast.Assign) and len(st.targets) == 1
              and isinstance(st.targets[0], ast.Subscript) and isinstance(st.value, ast.Call)
              and au.call_tail(st.value) == "angle_3pts" and len(st.value.args) == 3]
    if len(stores) != 1:
        ctx.undecided("C07-C1", site, "corner_angles: store `angles[c] = angle_3pts(prev, v, next)` not recognised", "")
        return
    st = stores[0]
    ssite = ctx.site(mod, fn, st)
    loops = [a for a in au.ancestors(st) if isinstance(a, ast.For)]
    fl = _face_loop(F, loops)
    inner = [x for x in loops if fl and x is not fl[0]]
    if fl is None or len(inner) != 1:
        ctx.undecided("C07-C1", ssite, "corner_angles: loop nest over (face, vertex of the face) not recognised", "")
        return
    lp, LF, fis, row = fl
    Li = he_seq.LoopCtx(F, inner[0].target, inner[0].iter, inner[0])
    if Li.seq is None or Li.seq.base is None:
        ctx.undecided("C07-C1", ssite, "corner_angles: iteration over the vertices of a face not recognised", "")
        return
    ds = [Li.desc(a, st) for a in st.value.args]
    if not all(d[0] == "at" and d[1] == Li.seq.base for d in ds):
        ctx.undecided("C07-C1", ssite, "corner_angles: an argument of angle_3pts could not be related to a vertex of the face", "")
        return
    offs = [d[2] for d in ds]
    wraps = all(d[3] for d in ds if d[2] != 0)
    full = he_seq.full(Li.seq)
    if full is None:
        ctx.undecided("C07-C1", ssite, "corner_angles: the number of iterations of the loop over the vertices of a face is not known", "")
        return
    ok = offs[1] == 0 and {offs[0], offs[2]} == {-1, 1} and wraps and full
    ctx.check(ok, "C07-C1", ssite,
              f"corner_angles: angle_3pts receives the face vertices at offsets {offs} from the running vertex"
              + ("" if wraps else " without wrapping around the face") + ("" if full else "; the vertices of the face are not all visited")
              + " (central argument must be offset 0, the others -1 and +1)",
              "geom.angle_3pts(A, B, C) is the angle at B: the corner's own vertex must be the central argument and the end "
              "points its two neighbours in the face", note="corner angle centred at face[i] between face[i-1] and face[i+1]")
    # numbering of the corners: face by face, in face order
    key = st.targets[0].slice
    outer, inn = lp, inner[0]
    cnt_ok, why = None, ""
    kd = Li.names.get(key.id) if isinstance(key, ast.Name) else None
    if kd is not None and kd[0] == "idx":
        off = kd[2]
        atoms = list(off.atoms())
        if off.is_zero():
            cnt_ok, why = False, "corners are numbered from 0 again in every face"
        elif len(atoms) == 1 and off == Poly.atom(atoms[0]):
            c0 = atoms[0]
            binds = [s for s in au.stmts(V.body) if sym.Bindings._assigns(s, c0, deep=False)]
            init = [s for s in binds if isinstance(s, ast.Assign) and au.const(s.value) == 0 and au.parent(s) is V]
            bumps = [s for s in binds if s not in init]
            one = len(bumps) == 1 and any(bumps[0] is x for x in outer.body)
            if len(init) == 1 and one and au.increment(bumps[0]) is not None:
                tgt, sign, amount = au.increment(bumps[0])
                after = bumps[0].lineno >= inn.lineno and not any(bumps[0] is x for x in au.stmts(inn.body))
                cnt_ok = tgt == c0 and sign == 1 and F.len_of(amount, bumps[0]) == he_seq.N(Li.seq.base) and after
                why = "the first corner of a face is not advanced by the number of vertices of the face after its corners were numbered"
    elif isinstance(key, ast.Name):
        c = key.id
        binds = [s for s in au.stmts(V.body) if sym.Bindings._assigns(s, c, deep=False)]
        init = [s for s in binds if isinstance(s, ast.Assign) and au.const(s.value) == 0 and au.parent(s) is V]
        bumps = [s for s in binds if s not in init]
        if len(init) == 1 and len(bumps) == 1 and au.increment(bumps[0]) is not None:
            blk, _ = au.enclosing_block(st)
            pos = [id(x) for x in blk].index(id(st))
            tgt, sign, amount = au.increment(bumps[0])
            cnt_ok = tgt == c and sign == 1 and au.const(amount) == 1 and any(bumps[0] is x for x in blk[pos + 1:]) and not au.guards(st, stop=outer)
            why = "the running corner index is not advanced by one once after each store"
    if cnt_ok is None:
        ctx.undecided("C07-C1", ssite, "corner_angles: numbering of the corners (running index / first corner of the face) not recognised", "")
    else:
        ctx.check(cnt_ok, "C07-C1", ssite, "corner_angles: " + why,
                  "corners are numbered face by face in face order; a skipped or doubled increment shifts every following angle",
                  note="running corner index advanced once per (face, vertex)")


# ----------------------------------------------------------------------- C07-M1
def _assigned_between(fn, names, a, b):
    """is any of `names` (re)bound by a top-level statement of fn from statement a (inclusive) up to b (exclusive)?"""
    seen = False
    for st in fn.body:
        if st is a:
            seen = True
        if st is b:
            return False
        if seen and any(sym.Bindings._assigns(st, n) for n in names):
            return True
    return False


def _trip_count(lp):
    """expression of the number of iterations of a for loop, None when not recognised"""
    it = lp.iter
    mk_len = lambda x: ast.Call(func=ast.Name(id="len", ctx=ast.Load()), args=[x], keywords=[])
    if isinstance(it, ast.Call) and isinstance(it.func, ast.Name):
        if it.func.id == "range" and len(it.args) == 1:
            return it.args[0]
        if it.func.id == "enumerate" and it.args:
            return mk_len(it.args[0])
        if it.func.id in ("list", "tuple", "reversed", "sorted") and len(it.args) == 1:
            return mk_len(it.args[0])
        return None
    if isinstance(it, (ast.Name, ast.Attribute, ast.Subscript)):
        return mk_len(it)
    return None


def _top(fn, node):
    top = node
    while au.parent(top) is not fn and au.parent(top) is not None:
        top = au.parent(top)
    return top


def m1_mean_divisor(ctx):
    n = 0
    for q, fn in top_funcs(ctx, GLOB):
        if not q.startswith("mean_"):
            continue
        n += 1
        site = ctx.site(GLOB, fn)
        V = H.fview(ctx, GLOB, fn)
        b = sym.Bindings(V)
        rets = [s for s in au.stmts(V.body) if isinstance(s, ast.Return) and s.value is not None]
        if len(rets) != 1:
            ctx.undecided("C07-M1", site, f"{q}: single `return total / count` not recognised", "")
            continue
        ret = rets[0]
        val = ret.value
        if isinstance(val, ast.Name):
            d = b.reaching(val.id, ret)
            val = d if d is not None else val
        if isinstance(val, ast.BinOp) and isinstance(val.op, ast.Div) and isinstance(val.left, ast.Name):
            dl = b.reaching(val.left.id, ret)
            if dl is not None and _sum_over(dl) not in (None, False):
                val = ast.BinOp(left=dl, op=ast.Div(), right=val.right)
        if isinstance(val, ast.BinOp) and isinstance(val.op, ast.Div) and _sum_over(val.left) not in (None, False):
            coll = _sum_over(val.left)
            if isinstance(coll, ast.Call) and isinstance(coll.func, ast.Name) and coll.func.id == "range" and len(coll.args) == 1:
                t_res, d_res = b.resolve(coll.args[0], at=ret), b.resolve(val.right, at=ret)
                ctx.check(au.same(t_res, d_res), "C07-M1", site, f"{q}: sums {au.src(coll.args[0])} terms but divides by {au.src(val.right)}",
                          "the result is not the mean of the terms that were summed", note=f"{q}: divisor equals the number of summed terms")
            else:
                ctx.ok("C07-M1", site, f"{q}: mean written as sum(..) / len(..) (divisor checked by C07-M2)")
            continue
        if isinstance(val, ast.Call) and au.call_tail(val) in ("mean", "average"):
            ctx.ok("C07-M1", site, f"{q}: delegates to {au.call_tail(val)}()")
            continue
        if not (isinstance(val, ast.BinOp) and isinstance(val.op, ast.Div) and isinstance(val.left, ast.Name)):
            ctx.undecided("C07-M1", site, f"{q}: `return total / count` not recognised", "the mean is no longer written as an accumulated total over a count")
            continue
        acc, div = val.left.id, val.right
        accs = [x for x in au.stmts(V.body) if (au.increment(x) or (None,))[0] == acc]
        loops = []
        for x in accs:
            lp = next((a for a in au.ancestors(x) if isinstance(a, (ast.For, ast.While))), None)
            if lp is not None and not any(lp is y for y in loops):
                loops.append(lp)
        if len(loops) != 1 or len(accs) != 1 or not isinstance(loops[0], ast.For):
            ctx.undecided("C07-M1", site, f"{q}: single accumulation loop of the total not recognised", "")
            continue
        lp, st = loops[0], accs[0]
        cond = au.guards(st, stop=lp) or any(isinstance(s, (ast.Continue, ast.Break)) for s in au.stmts(lp.body)) or \
            any(isinstance(a, (ast.For, ast.While)) and a is not lp for a in au.ancestors(st) if any(a is y for y in au.stmts(lp.body)))
        trip = _trip_count(lp)
        # counter idiom: the divisor is a local incremented by one next to the accumulation
        if isinstance(div, ast.Name):
            bumps = [x for x in au.stmts(V.body) if (au.increment(x) or (None,))[0] == div.id]
            if bumps:
                blk, _ = au.enclosing_block(st)
                same_blk = len(bumps) == 1 and any(bumps[0] is y for y in (blk or [])) and au.increment(bumps[0])[1] == 1 and au.const(au.increment(bumps[0])[2]) == 1
                inits = [x for x in au.stmts(V.body) if isinstance(x, ast.Assign) and any(isinstance(t, ast.Name) and t.id == div.id for t in x.targets)]
                if same_blk and len(inits) == 1 and au.const(inits[0].value) == 0:
                    ctx.ok("C07-M1", site, f"{q}: divisor is a counter advanced with every accumulated term")
                elif len(bumps) == 1 and len(inits) == 1:
                    ctx.fail("C07-M1", site, f"{q}: the counter `{div.id}` dividing the total is not advanced by one together with every accumulated term",
                             "the result is not the mean of the terms that were summed")
                else:
                    ctx.undecided("C07-M1", site, f"{q}: counter dividing the total not recognised", "")
                continue
        if cond:
            ctx.undecided("C07-M1", site, f"{q}: the accumulation of the total is conditional; its number of terms is not recognised", "")
            continue
        if trip is None:
            ctx.undecided("C07-M1", site, f"{q}: trip count of the accumulation loop not recognised", "")
            continue
        t_res, d_res = b.resolve(trip, at=lp), b.resolve(div, at=ret)
        same = au.same(t_res, d_res)
        moved = _assigned_between(V, au.names(t_res) & au.names(d_res), _top(V, lp), _top(V, ret)) if same else False
        rebound_in_loop = any(sym.Bindings._assigns(s, nm) for s in lp.body for nm in au.names(trip))
        if rebound_in_loop:
            ctx.undecided("C07-M1", site, f"{q}: the bound of the accumulation loop is rebound inside the loop", "")
            continue
        ctx.check(same and not moved, "C07-M1", site,
                  f"{q}: sums {au.src(trip)} terms but divides by {au.src(div)}",
                  f"whenever `{au.src(div)}` differs from `{au.src(trip)}` (n larger than the number of elements) the result is not the "
                  f"mean of the terms that were summed", note=f"{q}: divisor equals the trip count")
    floor(ctx, "C07-M1", n, 1, GLOB, "mean_* function(s)")


# ----------------------------------------------------------------------- C07-M2
def _sum_over(e):
    """collection expression C if e is sum(C) / sum(f(x) for x in C) / sum([..for x in C]) else None (False: filtered / nested)"""
    if isinstance(e, ast.Call) and au.call_tail(e) == "sum" and len(e.args) >= 1 and not (isinstance(e.func, ast.Attribute) and au.chain(e.func) and au.chain(e.func)[0] in ("np", "numpy")):
        a = e.args[0]
        if isinstance(a, (ast.GeneratorExp, ast.ListComp)):
            if len(a.generators) == 1 and not a.generators[0].ifs:
                return a.generators[0].iter
            return False
        return a
    return None


def _len_key(F, b, e, at, depth=0):
    """identity of the *number of elements* of a collection expression: a container of the mesh (ids of K count like K), a vertex row,
    a comprehension without filter over such a collection; None when not one of these"""
    if depth > 6:
        return None
    if isinstance(e, ast.Name):
        d = b.reaching(e.id, at)
        if d is not None:
            return _len_key(F, b, d, b._last_def_stmt, depth + 1)
        # a loop variable / parameter: a row or an opaque collection named by itself
        return ("name", e.id)
    if isinstance(e, (ast.ListComp, ast.GeneratorExp)):
        if len(e.generators) == 1 and not e.generators[0].ifs:
            return _len_key(F, b, e.generators[0].iter, at, depth + 1)
        return None
    if isinstance(e, ast.Call) and isinstance(e.func, ast.Name) and e.func.id in ("list", "tuple", "sorted", "reversed") and len(e.args) == 1:
        return _len_key(F, b, e.args[0], at, depth + 1)
    if isinstance(e, ast.Call) and isinstance(e.func, ast.Name) and e.func.id == "range" and len(e.args) == 1:
        a = b.resolve(e.args[0], at=at)
        if isinstance(a, ast.Call) and au.call_tail(a) == "len" and len(a.args) == 1:
            return _len_key(F, b, a.args[0], at, depth + 1)
        return None
    ch = au.chain(e)
    if ch and len(ch) >= 2:
        tail = ch[-1]
        if tail in H.ID_PROPS and tail.startswith("id_"):
            return ("cont", ".".join(ch[:-1]), H.ID_PROPS[tail])
        if tail in H.CONTAINERS:
            return ("cont", ".".join(ch[:-1]), tail)
        return None
    if isinstance(e, ast.Subscript) and not isinstance(e.slice, ast.Slice):
        return ("expr", au.src(e))
    if isinstance(e, ast.Call) and isinstance(e.func, ast.Attribute) and au.chain(e.func) and "connectivity" in au.chain(e.func):
        return ("expr", au.src(b.resolve(e, at=at)))
    return None


def m2_barycentres(ctx):
    n = 0
    for modname in ALL_ATTR:
        m = ctx.repo.module(modname)
        for q, fn in top_funcs(ctx, modname):
            V = H.fview(ctx, modname, fn)
            F = he_seq.Forms(V, ctx.repo, m.name)
            b = F.b
            for node in au.walk(V):
                if not (isinstance(node, ast.BinOp) and isinstance(node.op, ast.Div)):
                    continue
                coll = _sum_over(node.left)
                if coll is None:
                    continue
                site = ctx.site(modname, fn, node)
                if coll is False:
                    ctx.undecided("C07-M2", site, f"{q}: a sum over a filtered / nested collection is divided; the number of terms is not recognised", "")
                    continue
                d = b.resolve(node.right, at=node)
                if isinstance(coll, ast.Call) and isinstance(coll.func, ast.Name) and coll.func.id == "range" and len(coll.args) == 1:
                    # sum(x[k] for k in range(n)) / n
                    n += 1
                    same = au.same(b.resolve(coll.args[0], at=node), d)
                    if same or isinstance(au.const(d), (int, float)) or (isinstance(d, ast.Call) and au.call_tail(d) == "len"):
                        ctx.check(same, "C07-M2", site, f"{q}: a sum of `{au.src(coll.args[0])}` terms is divided by `{au.src(node.right)}`",
                                  "a mean is the sum of the terms divided by their number", note=f"{q}: sum over range(n) divided by n")
                    else:
                        ctx.undecided("C07-M2", site, f"{q}: the number of terms of a sum over a range and its divisor could not be related", "")
                    continue
                if isinstance(d, ast.Call) and au.call_tail(d) == "len" and len(d.args) == 1 and isinstance(d.func, ast.Name):
                    ok = au.same(b.resolve(d.args[0], at=node), b.resolve(coll, at=node)) or F.key(d.args[0], node) == F.key(coll, node)
                    k1, k2 = _len_key(F, b, d.args[0], node), _len_key(F, b, coll, node)
                    ok = ok or (k1 is not None and k1 == k2)
                    if not ok and (k1 is None or k2 is None):
                        ctx.undecided("C07-M2", site, f"{q}: the number of terms of a sum and the length it is divided by could not be related", "")
                        continue
                    n += 1
                    ctx.check(ok, "C07-M2", site,
                              f"{q}: a sum over `{au.src(coll)}` is divided by `{au.src(d)}`",
                              "a barycentre is the sum of the points divided by their number; any other divisor moves it off the element",
                              note=f"{q}: sum over {au.src(coll)} divided by its length")
                elif isinstance(au.const(d), (int, float)) and not isinstance(au.const(d), bool):
                    items = he_norm.lit_items(b.resolve(coll, at=node))
                    n += 1
                    ctx.check(items is not None and len(items) == au.const(d), "C07-M2", site,
                              f"{q}: a sum over `{au.src(coll)}` is divided by the constant {au.src(d)}",
                              "a barycentre is the sum of the points divided by their number; a fixed divisor is wrong for every other element size",
                              note=f"{q}: sum of {au.const(d)} literal terms divided by {au.const(d)}")
                else:
                    ctx.undecided("C07-M2", site, f"{q}: divisor of a sum over `{au.src(coll)}` is not a length", "")
            # affine combinations of points  (pA + pB) / 2
            for st in au.stmts(V.body):
                if isinstance(st, ast.Assign) and isinstance(st.value, ast.BinOp) and isinstance(st.value.op, ast.Div) \
                        and isinstance(st.value.right, ast.Constant) and isinstance(st.value.left, ast.BinOp) \
                        and isinstance(st.value.left.op, ast.Add) and _sum_over(st.value.left) is None:
                    terms = H.additive_terms(st.value.left)
                    if not all(isinstance(t, ast.Name) and s == 1 for s, t in terms):
                        continue
                    n += 1
                    ok = au.const(st.value.right) == len(terms) and len({t.id for s, t in terms}) == len(terms)
                    ctx.check(ok, "C07-M2", ctx.site(modname, fn, st),
                              f"{q}: `{au.src(st.value)}` averages {len(terms)} points but divides by {au.src(st.value.right)}",
                              "coefficients of a mean must sum to one", note=f"{q}: mean of {len(terms)} points")
    floor(ctx, "C07-M2", n, 1, "attributes.attr_faces", "barycentre division(s)")


# ----------------------------------------------------------------------- C07-W1
def _mode_holds(test, pol, mode, wname):
    """truth of a guard under weight == mode; None when the guard does not speak about the weight, "?" when it cannot be evaluated"""
    if wname is None or wname not in au.names(test):
        return None
    if isinstance(test, ast.UnaryOp) and isinstance(test.op, ast.Not):
        r = _mode_holds(test.operand, not pol, mode, wname)
        return r
    if isinstance(test, ast.BoolOp):
        # every operand must speak about the weight alone
        vals = [_mode_holds(v, True, mode, wname) for v in test.values]
        if any(v in (None, "?") for v in vals):
            return "?"
        truth = all(vals) if isinstance(test.op, ast.And) else any(vals)
        return truth == pol
    val = None
    if isinstance(test, ast.Compare) and len(test.ops) == 1:
        l, r = test.left, test.comparators[0]
        op = test.ops[0]
        if isinstance(r, ast.Name) and r.id == wname and isinstance(op, (ast.Eq, ast.NotEq)):
            l, r = r, l
        if isinstance(l, ast.Name) and l.id == wname:
            rhs = au.literal(r)
            if isinstance(op, ast.Eq) and rhs is not None:
                val = mode == rhs
            elif isinstance(op, ast.NotEq) and rhs is not None:
                val = mode != rhs
            elif isinstance(op, ast.In) and rhs is not None:
                val = mode in rhs
            elif isinstance(op, ast.NotIn) and rhs is not None:
                val = mode not in rhs
    if val is None:
        return "?"
    return val == pol


def _sum_form(v):
    """(sum call, inline divisor | None) when v is  sum(..)  or  sum(..) / d"""
    if _sum_over(v) is not None:
        return v, None
    if isinstance(v, ast.BinOp) and isinstance(v.op, ast.Div) and _sum_over(v.left) is not None:
        return v.left, v.right
    return None


def _effective(st, mode, wname, b):
    """the statement as it reads under weight == mode: conditional expressions on the weight are decided, a stored local holding a
    sum(..) is replaced by that sum (`total = sum(..); out[k] = total / n if weight == "uniform" else total`)"""
    if not (isinstance(st, ast.Assign) and len(st.targets) == 1 and isinstance(st.targets[0], ast.Subscript)):
        return st
    changed = [False]

    class T(ast.NodeTransformer):
        def visit_IfExp(self, n):
            t, pol = au.strip_not(n.test)
            r = _mode_holds(t, pol, mode, wname)
            if r in (True, False):
                changed[0] = True
                return self.visit(n.body if r else n.orelse)
            return self.generic_visit(n)

        def visit_Name(self, n):
            if isinstance(n.ctx, ast.Load):
                d = b.reaching(n.id, st)
                if d is not None and _sum_over(d) not in (None,):
                    changed[0] = True
                    return sym.clone(d)
            return n
    v = T().visit(sym.clone(st.value))
    if not changed[0]:
        return st
    new = ast.Assign(targets=st.targets, value=v)
    ast.copy_location(new, st)
    ast.fix_missing_locations(new)
    new._parent = au.parent(st)
    for n in ast.walk(v):
        for c in ast.iter_child_nodes(n):
            c._parent = n
    v._parent = new
    return new


def _sub_of(t):
    return isinstance(t, ast.Subscript) and isinstance(t.value, ast.Name) and not isinstance(t.slice, ast.Slice)


def _acc(st):
    """(base, key, term) when st adds `term` onto base[key]:  base[k] += T / base[k] = base[k] + T / base[k] = T + base[k]"""
    if isinstance(st, ast.AugAssign) and isinstance(st.op, ast.Add) and _sub_of(st.target):
        return st.target.value.id, st.target.slice, st.value
    if isinstance(st, ast.Assign) and len(st.targets) == 1 and _sub_of(st.targets[0]) and isinstance(st.value, ast.BinOp) and isinstance(st.value.op, ast.Add):
        t = st.targets[0]
        k = H.load_key(t)
        if au.norm(st.value.left) == k:
            return t.value.id, t.slice, st.value.right
        if au.norm(st.value.right) == k:
            return t.value.id, t.slice, st.value.left
    return None


def _div(st):
    """(base, key, divisor) when st divides base[key] in place"""
    if isinstance(st, ast.AugAssign) and isinstance(st.op, ast.Div) and _sub_of(st.target):
        return st.target.value.id, st.target.slice, st.value
    if isinstance(st, ast.Assign) and len(st.targets) == 1 and _sub_of(st.targets[0]) and isinstance(st.value, ast.BinOp) \
            and isinstance(st.value.op, ast.Div) and au.norm(st.value.left) == H.load_key(st.targets[0]):
        return st.targets[0].value.id, st.targets[0].slice, st.value.right
    return None


class _Canon:
    """canonical spelling of expressions inside loop nests: loop variables are named after the collection they run over, so that
    two loops over the same collection (merged, split, with or without enumerate) give the same text"""

    def __init__(self, V, F):
        self.V, self.F, self.b = V, F, F.b
        self.cache = {}
        # names of the containers that are written element by element (and the parameters) are never replaced by their definition
        self.arrays = set(au.params(V))
        for st in au.stmts(V.body):
            for t in au.assign_targets(st):
                for x in ([t] if not isinstance(t, (ast.Tuple, ast.List)) else t.elts):
                    if isinstance(x, ast.Subscript) and isinstance(x.value, ast.Name):
                        self.arrays.add(x.value.id)

    def loops_of(self, st):
        ls = [a for a in au.ancestors(st) if isinstance(a, ast.For)]
        return ls[::-1]

    def ctx(self, st):
        """(domain signature, renaming) of the loops enclosing st"""
        mapping, sig = {}, []
        for d, lp in enumerate(self.loops_of(st)):
            L = he_seq.LoopCtx(self.F, lp.target, lp.iter, lp)
            base = None
            if L.seq is not None and L.seq.base is not None:
                base = L.seq.base
                if not he_seq.full(L.seq):
                    base = base + "[partial]"
            else:
                base = au.src(lp.iter)
            # the base itself may mention outer loop variables
            try:
                be = ast.parse(base.replace("[partial]", ""), mode="eval").body
                be = self.b.resolve(be, at=lp, keep=tuple(mapping) + tuple(self.arrays))
                base_c = H.cstr(H.rename(be, mapping)) + ("[partial]" if "[partial]" in base else "")
            except SyntaxError:
                base_c = base
            isid = False
            for idp, cont in H.ID_PROPS.items():
                if base_c.endswith("." + idp) and idp.startswith("id_"):
                    base_c, isid = base_c[: -len(idp)] + cont, True
            sig.append(base_c)
            for nm, desc in L.names.items():
                if desc[0] == "idx":
                    mapping[nm] = f"$i{d}" if desc[2].is_zero() else f"$i{d}+{desc[2]}"
                elif desc[0] == "at" and desc[2] == 0:
                    mapping[nm] = f"$i{d}" if isid else f"$e{d}"
                elif desc[0] == "elt":
                    mapping[nm] = f"$e{d}.{desc[2]}"
            for nm in au.assigned_names(lp.target):
                mapping.setdefault(nm, f"$x{d}_{nm}")
        return tuple(sig), mapping

    def text(self, e, st, mapping):
        keep = tuple(mapping) + tuple(self.arrays)
        r = self.b.resolve(e, at=st, keep=keep)
        r = H.rename(r, {k: v for k, v in mapping.items()})
        s = H.cstr(r)
        # container[$i] spelled through the element variable of the same loop
        return s

    def factors(self, term, st, mapping):
        coef, num, den = H.factors(self.b.resolve(term, at=st, keep=tuple(mapping) + tuple(self.arrays)))
        ren = lambda x: H.cstr(H.rename(x, mapping))
        return coef, sorted(ren(x) for x in num), sorted(ren(x) for x in den), num, den


def _elt_alias(sig, text):
    """`X[$i<d>]` where X is the collection loop d runs over is the element `$e<d>`"""
    for d, base in enumerate(sig):
        text = text.replace(f"{base}[$i{d}]", f"$e{d}")
    return text


def w1_interpolation(ctx):
    n_modes = n_norm = 0
    m = ctx.repo.module(INTERP)
    for q, fn in top_funcs(ctx, INTERP):
        ps = au.params(fn)
        if len(ps) < 3 or q.startswith("_"):
            continue
        src, out = ps[1], ps[2]
        wname = "weight" if "weight" in ps else None
        site = ctx.site(INTERP, fn)
        V = H.fview(ctx, INTERP, fn)
        F = he_seq.Forms(V, ctx.repo, m.name)
        C = _Canon(V, F)
        modes = [None]
        if wname:
            modes = None
            for c in au.calls(V):
                if au.call_tail(c) == "check_argument" and len(c.args) >= 4:
                    lit = au.literal(c.args[3])
                    if lit:
                        modes = sorted(lit)
            if not modes:
                ctx.undecided("C07-W1", site, f"{q}: the set of admissible weights (check_argument) not recognised", "")
                continue
        stmts = [st for st in au.stmts(V.body) if isinstance(st, (ast.Assign, ast.AugAssign))]
        writes = [st for st in stmts if any(_sub_of(t) and t.value.id == out for t in au.assign_targets(st))]
        if not any(_acc(st) or (isinstance(st, ast.Assign) and _sum_form(st.value) is not None) for st in writes):
            if q.startswith("scatter_") or all(isinstance(st, ast.Assign) and isinstance(st.value, ast.Subscript) for st in writes) and writes:
                continue        # plain copies
            ctx.undecided("C07-W1", site, f"{q}: accumulation of {src}[..] into {out}[..] not recognised",
                          "an interpolation / averaging function sums weighted values into its output; the weights cannot be paired with a normaliser")
            continue
        for mode in modes:
            label = f"{q}[{mode}]" if mode else q
            n_modes += 1
            und, bad = [], []

            def active(st):
                fs = []
                for t, pol in H.facts(st, toplevel=True):
                    # a local flag computed from the weight (`take_mean = weight == "uniform"`) stands for its definition
                    if isinstance(t, ast.Name) and t.id != wname:
                        d = C.b.reaching(t.id, st)
                        if d is not None and wname in au.names(d):
                            t, pol = au.strip_not(d, pol)
                    fs.append((t, pol))
                res = [(t, pol, _mode_holds(t, pol, mode, wname)) for t, pol in fs]
                on = all(r in (None, True) for _, _, r in res)
                foreign = [t for t, pol, r in res if r is None or r == "?"]
                return on, foreign
            accs, sums, divs, norm_accs, other = [], [], [], [], []
            for st in stmts:
                on, foreign = active(st)
                if not on:
                    continue
                st = _effective(st, mode, wname, C.b)
                a, d = _acc(st), _div(st)
                tgt_out = any(_sub_of(t) and t.value.id == out for t in au.assign_targets(st))
                if tgt_out and foreign:
                    und.append(f"a write to {out} is conditional on `{au.src(foreign[0])}`")
                if d and d[0] == out:
                    divs.append((st,) + d)
                elif a and a[0] == out:
                    accs.append((st,) + a)
                elif tgt_out and isinstance(st, ast.Assign) and _sum_form(st.value) is not None:
                    sums.append(st)
                elif tgt_out and isinstance(st, ast.Assign) and isinstance(au.const(st.value), (int, float)):
                    pass                       # explicit reset of an element
                elif tgt_out:
                    other.append(st)
                elif a:
                    norm_accs.append((st,) + a)
            if other:
                und.append(f"{len(other)} write(s) to {out} of an unknown form")
            if len(accs) + len(sums) != 1:
                und.append(f"{len(accs) + len(sums)} accumulation statements into {out}")
            want = None          # ("none",) | ("tot", array) | ("len", canonical collection)
            acc_st = acc_sig = acc_key = None
            if not und:
                if sums:
                    st = sums[0]
                    acc_st = st
                    acc_sig, mp = C.ctx(st)
                    acc_key = _elt_alias(acc_sig, C.text(st.targets[0].slice, st, mp))
                    sum_call, inline_div = _sum_form(st.value)
                    gen = sum_call.args[0]
                    coll = _sum_over(sum_call)
                    elt_ok = isinstance(gen, (ast.GeneratorExp, ast.ListComp)) and isinstance(gen.elt, ast.Subscript) \
                        and isinstance(gen.elt.value, ast.Name) and gen.elt.value.id == src
                    if coll is False or not elt_ok:
                        und.append(f"the summed expression is not a plain sum of {src}[x] over a collection")
                    else:
                        want = ("len", _elt_alias(acc_sig, C.text(coll, st, mp)))
                        if inline_div is not None:
                            dtext = _elt_alias(acc_sig, C.text(inline_div, st, mp))
                            if dtext == f"len({want[1]})":
                                want = ("none",) if mode != "sum" else ("bad",)
                                if mode == "sum":
                                    bad.append("the result documented as a plain sum is divided by the number of terms")
                                    want = ("none",)
                            elif dtext.startswith("len(") or isinstance(au.const(inline_div), (int, float)):
                                bad.append(f"un-weighted mean divides by `{au.src(inline_div)}`, not by the length of the collection that was summed")
                            else:
                                und.append("the divisor of the un-weighted mean is not a length")
                else:
                    st, _, key, term = accs[0]
                    acc_st = st
                    acc_sig, mp = C.ctx(st)
                    acc_key = _elt_alias(acc_sig, C.text(key, st, mp))
                    coef, nums, dens, num, den = C.factors(term, st, mp)
                    vals = [x for x in num if isinstance(x, ast.Subscript) and isinstance(x.value, ast.Name) and x.value.id == src]
                    if len(vals) != 1 or any(src in au.names(x) for x in den):
                        und.append(f"the accumulated term is not (weight) * {src}[x]")
                    else:
                        vtext = H.cstr(H.rename(vals[0], mp))
                        w_nums = list(nums)
                        w_nums.remove(vtext)
                        wkey = (coef, tuple(w_nums), tuple(dens))
                        inner_base = acc_sig[-1] if acc_sig else None
                        if wkey == (1, (), ()):
                            cnt = [r for r in norm_accs if au.const(r[3]) == 1]
                            cand = []
                            for r in cnt:
                                sig2, mp2 = C.ctx(r[0])
                                if sig2 == acc_sig and _elt_alias(sig2, C.text(r[2], r[0], mp2)) == acc_key:
                                    cand.append(r[1])
                            same_sig_other_key = [r for r in cnt if C.ctx(r[0])[0] == acc_sig and r[1] not in cand]
                            if cand:
                                want = ("tot", cand[0])
                            elif same_sig_other_key:
                                bad.append(f"the un-weighted sum into {out} is paired with the counter `{cnt[0][1]}` that is advanced for another element of the same iteration")
                            elif cnt:
                                und.append(f"the counter `{cnt[0][1]}` is advanced in another iteration than the un-weighted sum: their numbers of terms could not be related")
                            elif inner_base is not None:
                                want = ("len", inner_base)
                        elif coef == 1 and not w_nums and len(dens) == 1 and inner_base is not None and dens[0] == f"len({inner_base})":
                            want = ("none",)
                        elif coef == 1 and not w_nums and len(dens) == 1 and dens[0].startswith("len("):
                            bad.append(f"each term is divided by `{dens[0]}` which is not the length of the summed collection `{inner_base}`")
                        else:
                            partners, near = [], []
                            for r in norm_accs:
                                sig2, mp2 = C.ctx(r[0])
                                c2, n2, d2, _, _ = C.factors(r[3], r[0], mp2)
                                same_place = sig2 == acc_sig and _elt_alias(sig2, C.text(r[2], r[0], mp2)) == acc_key
                                if same_place and (c2, tuple(n2), tuple(d2)) == wkey:
                                    partners.append(r[1])
                                elif same_place:
                                    near.append((r[1], au.src(r[3])))
                            if not partners and not near:
                                # a scalar accumulator restarted for every element of the outer loop: `tot = 0.; for ..: x[k] += w * v; tot += w; x[k] /= tot`
                                blk_a, _o = au.enclosing_block(st)
                                for x in (blk_a or []):
                                    inc = au.increment(x)
                                    tgt_x = (x.target if isinstance(x, ast.AugAssign) else x.targets[0]) if inc is not None else None
                                    if inc is not None and isinstance(tgt_x, ast.Name) and inc[1] == 1:
                                        c2, n2, d2, _, _ = C.factors(inc[2], x, mp)
                                        if (c2, tuple(n2), tuple(d2)) == wkey:
                                            partners.append(("scalar", tgt_x.id))
                            if partners and isinstance(partners[0], tuple):
                                want = ("scalar", partners[0][1])
                            elif partners:
                                want = ("tot", partners[0])
                            elif near:
                                wsrc = "*".join(w_nums) or "1"
                                bad.append(f"value is weighted by `{wsrc}` but the normaliser `{near[0][0]}` accumulates `{near[0][1]}` for the same element")
                            elif not norm_accs:
                                dv = divs[0][3] if divs else None
                                zero_only = isinstance(dv, ast.Subscript) and isinstance(dv.value, ast.Name) and dv.value.id not in au.params(V) and all(
                                    isinstance(v, ast.Call) and au.call_tail(v) in ("zeros", "zeros_like", "empty") for x in au.stmts(V.body) for nm, v in sym.split_assign(x) if nm == dv.value.id) \
                                    and not any(_sub_of(t) and t.value.id == dv.value.id for x in stmts for t in au.assign_targets(x))
                                if divs and zero_only:
                                    bad.append(f"value is weighted but nothing accumulates the weights: the divisor `{au.src(dv)}` is never summed")
                                elif not divs and not dens and not other:
                                    bad.append("value is weighted but neither a normaliser is accumulated nor the result divided")
                                else:
                                    und.append("the normaliser of the weighted accumulation is not built by an accumulation the rule reads")
                            else:
                                und.append("the normaliser of the weighted accumulation could not be related to it")
            if not und and not bad:
                if mode == "sum" and want is not None and want[0] in ("tot", "len"):
                    want = ("none",)
                if want is None:
                    und.append("no normaliser could be associated with the accumulation")
                elif want[0] == "none":
                    if divs:
                        bad.append(f"`{au.src(divs[0][0])}` divides a result that is already normalised / documented as a plain sum")
                else:
                    n_norm += 1
                    if not divs:
                        handled = {id(x) for x in stmts}
                        elsewhere = [x for x in au.stmts(V.body) if id(x) not in handled and not isinstance(x, (ast.Return, ast.For, ast.While, ast.If))
                                     and out in au.names(x) and not (isinstance(x, ast.Expr) and isinstance(x.value, ast.Call) and au.call_tail(x.value) in ("clear", "check_argument"))]
                        elsewhere += [x for x in stmts if not any(_sub_of(t) for t in au.assign_targets(x)) and out in au.names(x)]
                        if elsewhere:
                            und.append(f"{out} is also modified by a statement the rule does not read; its normalisation could not be followed")
                        else:
                            bad.append(f"the accumulated {out}[..] is never divided by its normaliser")
                    elif len(divs) != 1:
                        und.append(f"{len(divs)} divisions of {out}")
                    else:
                        dst, _, dkey, dexpr = divs[0]
                        dsig, dmp = C.ctx(dst)
                        dk = _elt_alias(dsig, C.text(dkey, dst, dmp))
                        dtext = _elt_alias(dsig, C.text(dexpr, dst, dmp))
                        # placement: after the accumulation of that element is complete
                        same_loop = [lp for lp in C.loops_of(dst) if any(lp is x for x in C.loops_of(acc_st))]
                        if sums and same_loop:
                            top_d, top_a = _top_in(V, dst, acc_st)
                            if not (top_d is not None and top_a is not None and top_d[1] > top_a[1]):
                                bad.append(f"`{au.src(dst)}` divides {out}[..] before it is summed")
                        elif not same_loop:
                            top_d, top_a = _top_in(V, dst, acc_st)
                            placed = top_d is not None and top_a is not None and top_d[1] > top_a[1] and top_d[0] is top_a[0]
                            if not placed:
                                und.append("relative position of the division and the accumulation not recognised")
                        else:
                            shared = same_loop[-1]
                            depth = len(same_loop)
                            a_loops = C.loops_of(acc_st)
                            dtop = dst
                            while au.parent(dtop) is not shared and au.parent(dtop) is not None:
                                dtop = au.parent(dtop)          # the statement of the shared loop body that holds the division (`if take_mean: x /= n`)
                            d_in_shared = any(dtop is x for x in shared.body) and not any(isinstance(a, (ast.For, ast.While)) for a in au.ancestors(dst) if a is not shared
                                                                                            and any(a is y for y in au.stmts(shared.body)))
                            inner_done = len(a_loops) > depth and any(a_loops[depth] is x for x in shared.body) and d_in_shared \
                                and dst.lineno > a_loops[depth].lineno
                            own = dk == f"$i{depth - 1}" and acc_key == dk          # the element of the shared loop itself: visited once
                            direct_before = len(a_loops) == depth and any(acc_st is x for x in shared.body) and any(dst is x for x in shared.body) \
                                and dst.lineno > acc_st.lineno
                            if own and (inner_done or direct_before):
                                pass
                            elif not own and acc_key == dk and any(dst is x for x in au.stmts(C.loops_of(acc_st)[-1].body)):
                                bad.append(f"`{au.src(dst)}` divides inside the loop that is still accumulating {out}[..]: partial sums are divided")
                            else:
                                und.append("the position of the division relative to the accumulation loop is not one the rule reads")
                        if not bad and not und:
                            if dk != acc_key and same_loop and not (dk.startswith("$i") and acc_key.startswith(("$e", "$i"))):
                                und.append("the element divided and the element accumulated are keyed differently")
                            elif want[0] == "scalar":
                                a_lp = C.loops_of(acc_st)
                                outer_body = a_lp[-2].body if len(a_lp) >= 2 else []
                                zeroed = [x for x in outer_body if isinstance(x, ast.Assign) and any(isinstance(t, ast.Name) and t.id == want[1] for t in x.targets)
                                          and x.lineno < a_lp[-1].lineno and (au.const(x.value) in (0, 0.0) or (isinstance(x.value, ast.Call) and len(x.value.args) == 1
                                                                                                                and au.const(x.value.args[0]) in (0, 0.0)))]
                                if not (isinstance(dexpr, ast.Name) and dexpr.id == want[1]):
                                    bad.append(f"result is divided by `{au.src(dexpr)}` instead of the accumulated normaliser `{want[1]}`")
                                elif not (same_loop and zeroed):
                                    und.append("the scalar normaliser is not restarted for every element before its accumulation loop")
                            elif want[0] == "tot":
                                if dtext != f"{want[1]}[{dk}]":
                                    bad.append(f"result is divided by `{au.src(dexpr)}` instead of the accumulated normaliser `{want[1]}[..]` of the same element")
                            else:
                                wl = want[1]
                                # the collection canonical text is relative to the accumulation loops; re-express for the division loops
                                if dtext != f"len({wl})" and dtext != f"len({_rebase(wl, acc_sig, dsig)})":
                                    dres = C.b.resolve(dexpr, at=dst, keep=tuple(dmp) + tuple(C.arrays))
                                    never = isinstance(dexpr, ast.Subscript) and isinstance(dexpr.value, ast.Name) and dexpr.value.id not in (out, src) \
                                        and dexpr.value.id not in au.params(V) \
                                        and not any(_sub_of(t) and t.value.id == dexpr.value.id for x in stmts for t in au.assign_targets(x))
                                    if dtext.startswith("len("):
                                        bad.append(f"un-weighted mean divides by `{au.src(dexpr)}`, not by the length of the collection that was summed")
                                    elif isinstance(au.const(dres), (int, float)) and not isinstance(au.const(dres), bool):
                                        bad.append(f"un-weighted mean divides by the constant {au.src(dres)}, not by the length of the collection that was summed")
                                    elif never:
                                        bad.append(f"un-weighted mean divides by `{au.src(dexpr)}`, an array that is never accumulated")
                                    else:
                                        und.append("the divisor of the un-weighted mean is not a length")
            if bad:
                ctx.fail("C07-W1", site, f"{label}: " + "; ".join(dict.fromkeys(bad)),
                         "interpolating a constant attribute must return that constant: the weights that multiply the values must be the "
                         "ones that are summed into the divisor")
            elif und:
                ctx.undecided("C07-W1", site, f"{label}: " + "; ".join(dict.fromkeys(und)), "weights and normaliser of this mode could not be paired")
            else:
                ctx.ok("C07-W1", site, f"{label}: weights and normaliser agree")
    floor(ctx, "C07-W1", n_modes, 1, INTERP, "interpolation mode(s)")


def _rebase(text, sig_a, sig_d):
    return text


def _top_in(V, a, b):
    """(block, index) of the statements containing a and b in their innermost common block"""
    chain_a = [a] + list(au.ancestors(a))
    chain_b = [b] + list(au.ancestors(b))
    ids_b = {id(x): i for i, x in enumerate(chain_b)}
    for i, x in enumerate(chain_a):
        if id(x) in ids_b and i > 0 and ids_b[id(x)] > 0:
            ca, cb = chain_a[i - 1], chain_b[ids_b[id(x)] - 1]
            for fld in ("body", "orelse", "finalbody"):
                blk = getattr(x, fld, None)
                if isinstance(blk, list) and any(ca is s for s in blk) and any(cb is s for s in blk):
                    ia = [id(s) for s in blk].index(id(ca))
                    ib = [id(s) for s in blk].index(id(cb))
                    return (blk, ia), (blk, ib)
            return None, None
    return None, None


# ----------------------------------------------------------------------- C07-A1
def _geom_arity(ctx, call):
    """number of positional parameters of the geometry primitive called as geom.X(...) / X(...)"""
    name = au.call_tail(call)
    m = ctx.repo.module(GEOM)
    fn = m.funcs.get(name)
    if fn is None or fn.args.vararg is not None:
        return None
    return len(fn.args.args)


def _count_fact(F, b, node):
    """(collection expr, k) when the facts holding at node pin the length of a collection to the integer k"""
    for t, pol in H.facts(node, toplevel=False):
        r = b.resolve(t, at=node)
        if isinstance(r, ast.Compare) and len(r.ops) == 1:
            op, l, rr = r.ops[0], r.left, r.comparators[0]
            if isinstance(au.const(l), int) and not isinstance(au.const(rr), int):
                l, rr = rr, l
            k = au.const(rr)
            eq = (isinstance(op, ast.Eq) and pol) or (isinstance(op, ast.NotEq) and not pol)
            if eq and isinstance(k, int) and not isinstance(k, bool) and isinstance(l, ast.Call) and au.call_tail(l) == "len" and len(l.args) == 1:
                return l.args[0], k
    return None


def _specialise_defaults(e, fn):
    """conditional expressions on an option with a constant default are read on their default branch (a new optional keyword must
    not matter: the documented behaviour is the one of the default)"""
    dfl = H.param_defaults(fn)
    for _ in range(4):
        if isinstance(e, ast.IfExp):
            t, pol = au.strip_not(e.test)
            if isinstance(t, ast.Name) and t.id in dfl and isinstance(dfl[t.id], ast.Constant):
                truth = bool(dfl[t.id].value) == pol
                e = e.body if truth else e.orelse
                continue
        break
    return e


def _det_rows(call):
    """the three vectors of det_3x3(a, b, c) / np.linalg.det(np.array([a, b, c])) / det([a, b, c])"""
    if au.call_tail(call) == "det_3x3" and len(call.args) == 3:
        return list(call.args)
    if au.call_tail(call) in ("det", "det_3x3") and len(call.args) == 1:
        a = call.args[0]
        while isinstance(a, ast.Call) and au.call_tail(a) in ("array", "asarray", "vstack", "stack", "transpose") and a.args:
            a = a.args[0]
        if isinstance(a, (ast.List, ast.Tuple)) and len(a.elts) == 3:
            return list(a.elts)
    return None


def _abs_det(v, tail="det_3x3"):
    """(coefficient, det call, has_abs) when v = coef * |det(..)| (abs anywhere around a constant multiple of the determinant)"""
    def is_abs(x):
        return isinstance(x, ast.Call) and au.call_tail(x) in ("abs", "fabs", "absolute") and len(x.args) == 1
    def is_det(x):
        return isinstance(x, ast.Call) and _det_rows(x) is not None
    coef, num, den = H.factors(v)
    if den or len(num) != 1:
        return None
    x = num[0]
    if is_det(x):
        return coef, x, False
    if is_abs(x):
        c2, n2, d2 = H.factors(x.args[0])
        if not d2 and len(n2) == 1 and is_det(n2[0]):
            return coef * abs(c2), n2[0], True
    return None


def _arity_contradictions(ctx):
    """a primitive of k points applied to `*pts` while the facts at the call say len(pts) != k  (dispatch on the wrong branch)"""
    for modname in ATTR_MODS:
        m = ctx.repo.module(modname)
        for q, fn in top_funcs(ctx, modname):
            V = H.fview(ctx, modname, fn)
            F = he_seq.Forms(V, ctx.repo, m.name)
            b = F.b
            for c in au.calls(V):
                if not (len(c.args) == 1 and isinstance(c.args[0], ast.Starred)):
                    continue
                ar = _geom_arity(ctx, c)
                if ar is None:
                    continue
                for t, pol in H.facts(c, toplevel=False):
                    r = b.resolve(t, at=c)
                    if isinstance(r, ast.Compare) and len(r.ops) == 1 and isinstance(r.ops[0], (ast.Eq, ast.NotEq)):
                        l, rr = r.left, r.comparators[0]
                        if isinstance(au.const(l), int):
                            l, rr = rr, l
                        k = au.const(rr)
                        known_ne = (isinstance(r.ops[0], ast.Eq) and not pol) or (isinstance(r.ops[0], ast.NotEq) and pol)
                        if isinstance(k, int) and k == ar and known_ne and isinstance(l, ast.Call) and au.call_tail(l) == "len" and len(l.args) == 1:
                            coll = l.args[0]
                            starred = c.args[0].value
                            same = F.key(coll, c) == F.key(starred, c) or au.same(b.resolve(coll, at=c), b.resolve(starred, at=c)) \
                                or (isinstance(b.resolve(starred, at=c), (ast.GeneratorExp, ast.ListComp)) and len(b.resolve(starred, at=c).generators) == 1
                                    and F.key(b.resolve(starred, at=c).generators[0].iter, c) == F.key(coll, c))
                            if same:
                                ctx.fail("C07-A1", ctx.site(modname, fn, c), f"{q}: `{au.call_tail(c)}` (a primitive of {ar} points) is applied on the branch where the element "
                                         f"is known NOT to have {ar} vertices", "the quantity of the elements with the right number of vertices is never computed; the others raise / get a wrong value")


def a1_area_volume(ctx):
    _arity_contradictions(ctx)
    mod = "attributes.attr_faces"
    m = ctx.repo.module(mod)
    fn = ctx.repo.func(mod, "face_area")
    site = ctx.site(mod, fn)
    V = H.fview(ctx, mod, fn)
    F = he_seq.Forms(V, ctx.repo, m.name)
    b = F.b
    n = 0
    counted = None
    # dispatch on the number of vertices
    for c in au.calls(V):
        if not (len(c.args) == 1 and isinstance(c.args[0], ast.Starred)) or _geom_arity(ctx, c) is None:
            continue
        cf = _count_fact(F, b, c)
        if cf is None:
            continue
        coll, k = cf
        counted = coll
        n += 1
        ar = _geom_arity(ctx, c)
        same_coll = F.key(c.args[0].value, c) == F.key(coll, c) or au.same(b.resolve(c.args[0].value, at=c), b.resolve(coll, at=c))
        ctx.check(ar == k and same_coll, "C07-A1", ctx.site(mod, fn, c),
                  f"face_area: faces with {k} vertices are sent to `{au.call_tail(c)}` which takes {ar} points"
                  + ("" if same_coll else " (not applied to the vertices that were counted)"),
                  "the area primitive must receive exactly the vertices of the face", note=f"{k}-gons -> {au.call_tail(c)}/{ar}")
    if n == 0:
        ctx.undecided("C07-A1", site, "face_area: dispatch on the number of vertices to the triangle / quad primitives not recognised",
                      "triangles and quads are measured by primitives of matching arity")
    # all vertices of the face are collected
    if counted is not None:
        r = counted
        at = None
        for _ in range(3):
            if isinstance(r, ast.Name):
                d = b.reaching(r.id, c)
                if d is None:
                    break
                r = d
        filt = isinstance(r, (ast.ListComp, ast.GeneratorExp)) and any(g.ifs for g in r.generators)
        whole = F.points_of(counted, c) is not None or (isinstance(r, (ast.Name, ast.Attribute, ast.Subscript)))
        if filt:
            ctx.fail("C07-A1", site, "face_area: the points of a face are collected through a filter", "every vertex of the face contributes to its area")
        elif whole:
            ctx.ok("C07-A1", site, "face_area: all the vertices of the face are collected")
        else:
            ctx.undecided("C07-A1", site, "face_area: the list of the points of a face not recognised", "")
    # polygon fan
    fans = [c for c in au.calls(V) if au.call_tail(c) == "triangle_area" and len(c.args) == 3 and not any(isinstance(a, ast.Starred) for a in c.args)]
    if len(fans) != 1:
        ctx.undecided("C07-A1", site, "face_area: polygon fan `triangle_area(p[i], p[i+1], centre)` not recognised", "")
    else:
        c = fans[0]
        fsite = ctx.site(mod, fn, c)
        st = au.enclosing_stmt(c)
        comp = next((a for a in au.ancestors(c) if isinstance(a, (ast.GeneratorExp, ast.ListComp))), None)
        lp = next((a for a in au.ancestors(c) if isinstance(a, ast.For)), None)
        L, accumulates = None, None
        if comp is not None and len(comp.generators) == 1 and not comp.generators[0].ifs and any(comp is x for x in au.walk(st)):
            g = comp.generators[0]
            L = he_seq.LoopCtx(F, g.target, g.iter, st)
            summed = isinstance(au.parent(comp), ast.Call) and au.call_tail(au.parent(comp)) == "sum"
            accumulates = summed
        elif lp is not None and any(st is x for x in au.stmts(lp.body)):
            L = he_seq.LoopCtx(F, lp.target, lp.iter, lp)
            inc = au.increment(st)
            accumulates = inc is not None and inc[1] == 1 and not au.guards(st, stop=lp) and inc[2] is c
            if inc is None and isinstance(st, ast.Assign) and st.value is c and isinstance(st.targets[0], ast.Subscript):
                accumulates = False
        if L is None or L.seq is None or L.seq.base is None or accumulates is None:
            ctx.undecided("C07-A1", fsite, "face_area: the iteration of the polygon fan not recognised", "")
        else:
            ds = [L.desc(a, c) for a in c.args]
            pts = [d for d in ds if d[0] == "at" and d[1] == L.seq.base]
            centre = [a for a, d in zip(c.args, ds) if d[0] == "expr"]
            cen_ok = False
            if len(centre) == 1:
                e = b.resolve(centre[0], at=st)
                if isinstance(e, ast.BinOp) and isinstance(e.op, ast.Div) and _sum_over(e.left) not in (None, False):
                    cen_ok = F.key(_sum_over(e.left), st) == L.seq.base
            if len(pts) != 2 or len(centre) != 1:
                ctx.undecided("C07-A1", fsite, "face_area: the two consecutive points and the centre of a fan triangle not recognised", "")
            else:
                sh = sorted((d[2], d[3]) for d in pts)
                consecutive = sh[1][0] - sh[0][0] == 1
                full = he_seq.full(L.seq)
                wraps = (sh[1][0] <= 0 or sh[1][1]) and (sh[0][0] >= 0 or sh[0][1])
                problems = []
                if full is None:
                    ctx.undecided("C07-A1", fsite, "face_area: the number of triangles of the polygon fan is not known", "")
                    full = True
                    problems = None
                if problems is not None and not consecutive:
                    problems.append(f"the fan triangles join the points at offsets {sh[0][0]:+d} and {sh[1][0]:+d} of the running index (expected two consecutive points)")
                if problems is not None and not full:
                    problems.append(f"the fan visits {L.seq.length} sides".replace("N:" + L.seq.base, "n") + " of the n sides of the polygon")
                elif problems is not None and not wraps:
                    problems.append("the side closing the polygon (last point -> first point) is not visited: the index is not taken modulo the number of points")
                if problems is not None and not accumulates:
                    problems.append("the fan triangles are not added up")
                if problems is not None and not cen_ok:
                    problems.append("the apex of the fan is not the barycentre of the points of the face")
                if problems is not None:
                  ctx.check(not problems, "C07-A1", fsite, "face_area: " + "; ".join(problems),
                          "the fan must cover every side of the polygon exactly once", note="fan over consecutive sides, all i")
    # cell_volume
    mod = "attributes.attr_cells"
    m = ctx.repo.module(mod)
    fn = ctx.repo.func(mod, "cell_volume")
    site = ctx.site(mod, fn)
    V = H.fview(ctx, mod, fn)
    F = he_seq.Forms(V, ctx.repo, m.name)
    b = F.b
    dets = [c for c in au.calls(V) if _det_rows(c) is not None]
    stores = [st for st in au.stmts(V.body) if isinstance(st, ast.Assign) and len(st.targets) == 1 and isinstance(st.targets[0], ast.Subscript)
              and any(d is x for d in dets for x in au.walk(b.resolve(st.value, at=st)) ) or
              (isinstance(st, ast.Assign) and len(st.targets) == 1 and isinstance(st.targets[0], ast.Subscript)
               and any(_det_rows(x) is not None for x in ast.walk(b.resolve(st.value, at=st)) if isinstance(x, ast.Call)))]
    if len(stores) != 1:
        ctx.undecided("C07-A1", site, "cell_volume: store of |det_3x3(...)|/6 per cell not recognised", "")
        return
    st = stores[0]
    lp = [a for a in au.ancestors(st) if isinstance(a, ast.For)]
    L = he_seq.LoopCtx(F, lp[-1].target, lp[-1].iter, lp[-1]) if lp else None
    rows = [r for r in (L.rows.values() if L else [])]
    row = rows[0] if rows and None not in rows[0] else []
    v = _specialise_defaults(b.resolve(st.value, at=st, keep=tuple(row)), V)
    form = _abs_det(v)
    if form is None or len(row) != 4:
        ctx.undecided("C07-A1", ctx.site(mod, fn, st), "cell_volume: the stored value is not read as a constant multiple of |det_3x3| of a 4-vertex cell", "")
    else:
        coef, det, has_abs = form
        edges = []
        for a in _det_rows(det):
            e = b.resolve(a, at=st, keep=tuple(row))
            if isinstance(e, ast.BinOp) and isinstance(e.op, ast.Sub):
                x, y = _vertex_of(e.left), _vertex_of(e.right)
                edges.append((x.id if isinstance(x, ast.Name) else None, y.id if isinstance(y, ast.Name) else None))
        if len(edges) != 3 or any(None in e for e in edges):
            ctx.undecided("C07-A1", ctx.site(mod, fn, st), "cell_volume: the three edge vectors of the determinant not recognised", "")
        else:
            problems = []
            if coef != Fraction(1, 6):
                problems.append(f"the determinant is multiplied by {coef} instead of 1/6")
            if not has_abs:
                problems.append("the determinant is not taken in absolute value")
            if not spans_simplex(edges, row):
                problems.append(f"the edge vectors {edges} are not three independent edges of the tetrahedron")
            ctx.check(not problems, "C07-A1", ctx.site(mod, fn, st), "cell_volume: " + "; ".join(problems),
                      "the volume of a tetrahedron is a sixth of the absolute determinant of three edges sharing a vertex",
                      note="tet volume = |det(A-D, B-D, C-D)|/6")
    gate = any(isinstance(t, ast.Call) and au.call_tail(t) == "is_tetrahedral" and pol for t, pol in H.facts(st, toplevel=True))
    ctx.check(gate, "C07-A1", site, "cell_volume: the per-cell loop is not guarded by is_tetrahedral()",
              "cells with more than four vertices cannot be unpacked / measured with the tetrahedron formula")


# ----------------------------------------------------------------------- C07-X1
def _strip(e):
    """remove Vec(...) / Vec.normalized(...) / np.asarray(...) wrappers"""
    while isinstance(e, ast.Call) and len(e.args) == 1 and au.call_tail(e) in ("Vec", "normalized", "array", "asarray"):
        e = e.args[0]
    return e


def _diff(e):
    """(minuend name, subtrahend name) of  X - Y  (Vec wrappers ignored)"""
    e = _strip(e)
    if isinstance(e, ast.BinOp) and isinstance(e.op, ast.Sub):
        l, r = _strip(e.left), _strip(e.right)
        if isinstance(l, ast.Name) and isinstance(r, ast.Name):
            return l.id, r.id
    return None


def _det_int(m):
    if len(m) == 1:
        return m[0][0]
    return sum((-1) ** j * m[0][j] * _det_int([r[:j] + r[j + 1:] for r in m[1:]]) for j in range(len(m)))


def spans_simplex(edges, points):
    """edges: [(x, y)] standing for the vectors P_x - P_y between the vertices `points` of a simplex.  True when their
    determinant equals +-(the determinant of the edges leaving one vertex), i.e. the same volume / area for every input."""
    points = list(points)
    if len(edges) != len(points) - 1 or any(x not in points or y not in points for x, y in edges):
        return False
    rows = []
    for x, y in edges:
        r = [0] * len(points)
        r[points.index(x)] += 1
        r[points.index(y)] -= 1
        rows.append(r[:-1])
    return abs(_det_int(rows)) == 1


def _single_return(fn):
    rets = [s for s in au.stmts(fn.body) if isinstance(s, ast.Return) and s.value is not None]
    return rets[0] if len(rets) == 1 else None


def _comp_atom(e):
    if isinstance(e, ast.Subscript) and isinstance(e.value, ast.Name):
        i = au.literal(e.slice)
        if isinstance(i, int):
            return f"{e.value.id}{i}"
        if isinstance(i, tuple) and all(isinstance(x, int) for x in i):
            return e.value.id + "".join(map(str, i))
    if isinstance(e, ast.Subscript) and isinstance(e.value, ast.Subscript) and isinstance(e.value.value, ast.Name):
        i, j = au.literal(e.value.slice), au.literal(e.slice)
        if isinstance(i, int) and isinstance(j, int):
            return f"{e.value.value.id}{i}{j}"
    if isinstance(e, ast.Attribute) and isinstance(e.value, ast.Name) and e.attr in ("x", "y", "z", "real", "imag"):
        return f"{e.value.id}{ {'x': 0, 'y': 1, 'z': 2, 'real': 0, 'imag': 1}[e.attr] }"
    return None


def _find_call(e, tails):
    for n in ast.walk(e):
        if isinstance(n, ast.Call) and au.call_tail(n) in tails:
            return n
    return None


def _opaque(p):
    return any(a.startswith("⟨") for a in p.atoms())


def _specialisations(e, limit=16):
    """the expression under every truth assignment of the tests of its conditional sub-expressions"""
    tests = []
    for n in ast.walk(e):
        if isinstance(n, ast.IfExp) and not any(au.same(n.test, t) for t in tests):
            tests.append(n.test)
    if not tests:
        return [e]
    if 2 ** len(tests) > limit:
        return None
    import itertools as _it
    out = []
    for vals in _it.product((True, False), repeat=len(tests)):
        class T(ast.NodeTransformer):
            def visit_IfExp(self, n):
                for t, v in zip(tests, vals):
                    if au.same(n.test, t):
                        return self.visit(n.body if v else n.orelse)
                return self.generic_visit(n)
        out.append(T().visit(sym.clone(e)))
    return out


X1_ATOMS = ("cross", "dot", "norm", "distance", "sign", "sign0", "det_2x2", "det_3x3", "triangle_area", "face_basis", "check_argument")


def x1_primitives(ctx):
    R = "C07-X1"
    G = GEOM
    gm = ctx.repo.module(G)

    def fn_site(name):
        fn = ctx.repo.func(G, name)
        V = he_norm.view(ctx.repo, gm.name, fn, inline_public=True, stop=X1_ATOMS)
        return fn, ctx.site(G, fn), V, he_norm.return_expr(V)

    def verdict(ok, site, construct, what, note):
        """ok: True / False (recognised and contradicted) / None (shape not recognised)"""
        if ok is None:
            ctx.undecided(R, site, construct.split(":")[0] + ": the closed form of the primitive could not be read", what)
        else:
            ctx.check(ok, R, site, construct, what, note=note)

    # cross
    fn, site, V, e = fn_site("cross")
    ps = au.params(fn)
    ok = None
    comps = None
    x = _strip(e) if e is not None else None
    if isinstance(e, ast.Call) and len(e.args) == 3:
        comps = e.args
    elif isinstance(x, (ast.Tuple, ast.List)) and len(x.elts) == 3:
        comps = x.elts
    if comps is not None and len(ps) == 2:
        A, B = ps
        at = lambda i, j: Poly.atom(f"{A}{i}") * Poly.atom(f"{B}{j}")
        want = [at(1, 2) - at(2, 1), at(2, 0) - at(0, 2), at(0, 1) - at(1, 0)]
        got = [sym.to_poly(c, atom_of=_comp_atom) for c in comps]
        ok = None if any(_opaque(g) for g in got) else got == want
    verdict(ok, site, "cross: components are not (A1*B2-A2*B1, A2*B0-A0*B2, A0*B1-A1*B0)",
            "every normal, area and angle of the library goes through this cross product", "cross product polynomial identity")
    # det_3x3 : Sarrus == Leibniz
    fn, site, V, e = fn_site("det_3x3")
    ok = None
    cands = [e] if e is not None else []
    ret = _single_return(V)
    if ret is not None:
        cands.append(sym.Bindings(V).resolve(ret.value, at=ret))
    for cand in cands:
        bases = set()

        def matrix_atom(x, bases=bases):
            """M[i, j] / M[i][j] of any matrix expression M -> atom M<i><j>"""
            if isinstance(x, ast.Subscript) and isinstance(x.slice, ast.Tuple) and len(x.slice.elts) == 2 and all(isinstance(au.const(k), int) for k in x.slice.elts):
                bases.add(au.src(x.value))
                return "M%d%d" % tuple(au.const(k) for k in x.slice.elts)
            if isinstance(x, ast.Subscript) and isinstance(x.value, ast.Subscript) and isinstance(au.const(x.slice), int) and isinstance(au.const(x.value.slice), int):
                bases.add(au.src(x.value.value))
                return "M%d%d" % (au.const(x.value.slice), au.const(x.slice))
            return None
        got0 = sym.to_poly(cand, atom_of=matrix_atom)
        if len(bases) != 1:
            continue
        mname = "M"
        _comp_atom_m = matrix_atom
        a = lambda i, j: Poly.atom(f"{mname}{i}{j}")
        want = Poly()
        for perm, sgn in (((0, 1, 2), 1), ((1, 2, 0), 1), ((2, 0, 1), 1), ((0, 2, 1), -1), ((1, 0, 2), -1), ((2, 1, 0), -1)):
            want = want + (a(0, perm[0]) * a(1, perm[1]) * a(2, perm[2])).scale(sgn)
        got = got0
        if not _opaque(got):
            ok = got == want
            break
    verdict(ok, site, "det_3x3: the returned expression is not the 3x3 determinant polynomial (rule of Sarrus)",
            "cell volumes are a sixth of this determinant", "Sarrus = Leibniz determinant")
    # det_2x2
    fn, site, V, e = fn_site("det_2x2")
    ps = au.params(fn)
    ok = None
    specs = _specialisations(e) if e is not None else None
    if specs and len(ps) == 2:
        A, B = ps
        want = Poly.atom(f"{A}0") * Poly.atom(f"{B}1") - Poly.atom(f"{A}1") * Poly.atom(f"{B}0")
        got = [sym.to_poly(_strip(x), atom_of=_comp_atom) for x in specs]
        ok = None if any(_opaque(g) for g in got) else all(g == want for g in got)
    verdict(ok, site, "det_2x2: the result is not A.x*B.y - A.y*B.x with the same component naming in the complex and array branches",
            "2D areas / line intersections use this determinant for both complex and array inputs", "det_2x2, both input forms")
    # triangle_area
    fn, site, V, e = fn_site("triangle_area")
    ok = None
    if e is not None:
        coef, num, den = H.factors(e)
        c = _find_call(e, ("cross",))
        if c is not None and len(c.args) == 2 and len(num) == 1 and not den and _find_call(num[0], ("norm",)) is not None:
            d = [_diff(x) for x in c.args]
            if None not in d:
                ok = coef == Fraction(1, 2) and spans_simplex(d, au.params(fn))
    verdict(ok, site, "triangle_area: not |cross(e1, e2)| / 2 with e1, e2 two different edge vectors of the triangle",
            "area of a triangle is half the norm of the cross product of two edges sharing a vertex", "triangle area")
    # quad_area : mean of the two diagonal splits
    fn, site, V, e = fn_site("quad_area")
    ok = None
    qc, qn, qd = H.factors(e) if e is not None else (None, [], [])
    if e is not None and len(qn) == 1 and not qd:
        terms = H.additive_terms(qn[0])
        sets, coefs = [], []
        for s, t in terms:
            tc, tn, td = H.factors(t)
            if s != 1 or td or len(tn) != 1:
                continue
            x = tn[0]
            if isinstance(x, ast.Call) and au.call_tail(x) == "triangle_area" and all(isinstance(a, ast.Name) for a in x.args):
                sets.append(frozenset(a.id for a in x.args))
                coefs.append(tc)
            elif isinstance(x, ast.Call) and au.call_tail(x) == "norm":
                c = x.args[0] if x.args else (x.func.value if isinstance(x.func, ast.Attribute) else None)
                if isinstance(c, ast.Call) and au.call_tail(c) == "cross" and len(c.args) == 2:
                    d = [_diff(a) for a in c.args]
                    pts = {p_ for dd in d if dd for p_ in dd}
                    if None not in d and len(pts) == 3 and spans_simplex(d, sorted(pts)):
                        sets.append(frozenset(pts))
                        coefs.append(tc * 2)          # |cross| is twice the area
        ps = au.params(fn)
        import itertools as _it
        if len(sets) == len(terms) and len(ps) == 4:
            ok = all(qc * c == Fraction(1, 2) for c in coefs) and len(terms) == 4 and set(sets) == {frozenset(c) for c in _it.combinations(ps, 3)}
    verdict(ok, site, "quad_area: not half the sum of the four triangles (both diagonal splits) of the quad",
            "each diagonal split covers the quad once; the mean of the two splits needs all four triangles", "quad area = mean of both splits")
    # aspect_ratio
    fn, site, V, e = fn_site("aspect_ratio")
    ok = None
    if isinstance(e, ast.BinOp) and isinstance(e.op, ast.Div):
        dist = {}

        def atom(x):
            if isinstance(x, ast.Call) and au.call_tail(x) == "distance" and len(x.args) >= 2 and all(isinstance(a, ast.Name) for a in x.args[:2]):
                key = frozenset(a.id for a in x.args[:2])
                return dist.setdefault(key, f"d{len(dist)}")
            return None
        num, den = sym.to_poly(e.left, atom_of=atom), sym.to_poly(e.right, atom_of=atom)
        ps = au.params(fn)
        if len(dist) == 3 and all(len(k) == 2 and k <= set(ps) for k in dist) and not _opaque(num) and not _opaque(den):
            x, y, z = (Poly.atom(a) for a in sorted(dist.values()))
            ok = num == x * y * z and den == (y + z - x) * (x + z - y) * (x + y - z)
    verdict(ok, site, "aspect_ratio: not abc / ((b+c-a)(a+c-b)(a+b-c)) over the three side lengths",
            "circumradius / (2 inradius) of a triangle with sides a, b, c", "aspect ratio polynomial identity")
    # angle primitives: both vectors leave the central (second) point; atan2(sine, cosine)
    for name in ("angle_3pts", "cotan", "signed_angle_3pts"):
        fn, site, V, e = fn_site(name)
        ps = au.params(fn)
        ok = None
        detail = ""
        if e is not None and len(ps) >= 3:
            at2 = _find_call(e, ("atan2", "arctan2"))
            scope = at2 if (at2 is not None and name != "cotan") else e
            c = _find_call(scope, ("cross",))
            d = _find_call(scope, ("dot",))
            order_ok = None
            if name in ("angle_3pts", "signed_angle_3pts") and at2 is not None and len(at2.args) == 2:
                order_ok = _find_call(at2.args[0], ("cross",)) is not None and _find_call(at2.args[1], ("dot",)) is not None \
                    and _find_call(at2.args[0], ("dot",)) is None
            if name == "cotan" and isinstance(e, ast.BinOp) and isinstance(e.op, ast.Div):
                order_ok = _find_call(e.left, ("dot",)) is not None and _find_call(e.left, ("cross",)) is None \
                    and _find_call(e.right, ("cross",)) is not None and _find_call(e.right, ("norm",)) is not None
            vecs = None
            if c is not None and d is not None and len(c.args) == 2 and len(d.args) == 2:
                vecs = [_diff(c.args[0]), _diff(c.args[1])]
                dv = [_diff(d.args[0]), _diff(d.args[1])]
                if None in dv or None in vecs:
                    vecs = None
                elif set(dv) != set(vecs):
                    ok, detail = False, f" (sine from {vecs}, cosine from {dv})"
            if vecs and ok is None and order_ok is not None:
                away = vecs[0][1] == vecs[1][1] == ps[1] and {vecs[0][0], vecs[1][0]} == {ps[0], ps[2]}
                towards = vecs[0][0] == vecs[1][0] == ps[1] and {vecs[0][1], vecs[1][1]} == {ps[0], ps[2]}
                ok = order_ok and (away or towards)    # negating both vectors changes neither sine nor cosine
                detail = f" (vectors {vecs})"
        verdict(ok, site,
                f"{name}: not built from the two vectors leaving the central point `{ps[1] if len(ps) > 1 else '?'}`"
                f" with sine from the cross product and cosine from the dot product{detail}",
                "corner angles and cotangents are defined at the middle argument", f"{name}: angle at the second argument")
    for name in ("signed_angle_2vec3D", "angle_2vec3D"):
        fn, site, V, e = fn_site(name)
        ok = None
        if e is not None:
            at2 = _find_call(e, ("atan2", "arctan2"))
            if at2 is not None and len(at2.args) == 2:
                c0, d0 = _find_call(at2.args[0], ("cross",)), _find_call(at2.args[0], ("dot",))
                c1, d1 = _find_call(at2.args[1], ("cross",)), _find_call(at2.args[1], ("dot",))
                ps = au.params(fn)
                if (c0 is not None or c1 is not None) and (d0 is not None or d1 is not None):
                    ok = c0 is not None and d0 is None and d1 is not None and c1 is None
                    if ok:
                        ok = [au.src(_strip(a)) for a in c0.args] == ps[:2] and {au.src(_strip(a)) for a in d1.args} == set(ps[:2])
        verdict(ok, site, f"{name}: not atan2(|V1 x V2|, V1 . V2)", "angle between two vectors", f"{name}: atan2(sine, cosine)")
    # face_basis right handed:  Z = X x (C - A),  Y = Z x X
    fn = ctx.repo.func(G, "face_basis")
    site = ctx.site(G, fn)
    b = sym.Bindings(fn)
    ret = _single_return(fn)
    ok = None
    if ret is not None and isinstance(ret.value, ast.Tuple) and len(ret.value.elts) == 3 and all(isinstance(x, ast.Name) for x in ret.value.elts):
        X, Y, Z = (x.id for x in ret.value.elts)
        dX, dY, dZ = (b.reaching(n, ret) for n in (X, Y, Z))
        cz, cy = (_strip(dZ) if dZ is not None else None), (_strip(dY) if dY is not None else None)
        if dX is not None and _diff(dX) and isinstance(cz, ast.Call) and au.call_tail(cz) == "cross" and isinstance(cy, ast.Call) and au.call_tail(cy) == "cross" \
                and len(cz.args) == 2 and len(cy.args) == 2:
            base = _diff(dX)
            second = _diff(cz.args[1])
            if au.src(cz.args[0]) == X and second is not None:
                z_ok = second[1] == base[1] and second[0] != base[0]
                y_ok = [au.src(a) for a in cy.args] == [Z, X]
                norm_ok = all(isinstance(d, ast.Call) and au.call_tail(d) == "normalized" for d in (dX, dY, dZ))
                if {au.src(a) for a in cy.args} == {Z, X}:
                    ok = z_ok and y_ok and norm_ok
    verdict(ok, site, "face_basis: not the right-handed frame X = AB/|AB|, Z = X x AC normalised, Y = Z x X",
            "local face coordinates (gradient, connections, normals) assume cross(X, Y) = Z = the face normal", "right-handed face frame")


# ----------------------------------------------------------------------- C07-E1
def edge_sides_rule(ctx, rule, targets):
    """targets: [(module, qualname)] of per-edge functions that must visit the faces on both sides of every edge"""
    n = 0
    for modname, q in targets:
        fn = ctx.repo.func(modname, q)
        V = H.fview(ctx, modname, fn)
        sites = H.edge_side_sites(V)
        if not sites:
            ctx.undecided(rule, ctx.site(modname, fn), f"{q}: visit of the faces on the two sides of each edge (direct_face(A,B) / direct_face(B,A) or "
                          f"edge_to_faces) inside a loop over the edges not recognised",
                          "a per-edge quantity built from the adjacent faces must look at both sides of the edge")
            continue
        for s in sites:
            n += 1
            if not s["problems"]:
                ctx.ok(rule, ctx.site(modname, fn, s["loop"]), f"{q}: both sides of edge {s['ends']} are visited independently ({s['kind']})")
            for node, text in s["problems"]:
                ctx.fail(rule, ctx.site(modname, fn, node), f"{q}: {text}",
                         "every face adjacent to an edge contributes, whichever side it lies on: an edge of the border whose only face is on the "
                         "second side would otherwise get no contribution at all")
    return n


def e1_edge_sides(ctx):
    n = edge_sides_rule(ctx, "C07-E1", [("attributes.attr_edges", "cotan_weights")])
    # any other per-edge function of the attribute modules using the same idiom is held to the same rule
    for modname in ATTR_MODS:
        for q, fn in top_funcs(ctx, modname):
            if q == "cotan_weights":
                continue
            for s in H.edge_side_sites(H.fview(ctx, modname, fn)):
                n += 1
                for node, text in s["problems"]:
                    ctx.fail("C07-E1", ctx.site(modname, fn, node), f"{q}: {text}", "every face adjacent to an edge contributes")
                if not s["problems"]:
                    ctx.ok("C07-E1", ctx.site(modname, fn, s["loop"]), f"{q}: both sides visited")


# ----------------------------------------------------------------------- C07-E2
_E2_FIXTURE = """
def f(mesh, normals):
    for iT, T in enumerate(mesh.faces):
        pA, pB, pC = (mesh.vertices[u] for u in T[:3])
        N = geom.cross(pB - pA, pC - pA)
        if geom.norm(N) < 1e-8: continue
        normals[iT] = Vec.normalized(N)
"""


def threshold_rule(ctx, rule, modules):
    """comparisons of a dimensional expression with a non-zero literal, decided by the forward interpreter (c0708_geo): inside the
    listed modules (on the views of their functions: private helpers are looked through), and inside the functions of geometry.py they
    call, with the degrees of the actual arguments"""
    from ..rules import c0708_geo as GEO
    tree = ast.parse(_E2_FIXTURE)
    for x in ast.walk(tree):
        for c in ast.iter_child_nodes(x):
            c._parent = x
    world = GEO.World(ctx.repo)
    fx = GEO.Interp(world, "mouette." + GEOM, tree.body[0]).run().compares
    if len(fx) != 1 or fx[0][3] != 2:
        raise AnalysisError(f"{rule}: built-in fixture (|cross| < 1e-8, degree 2) not recognised by the matcher: {fx}")
    seen = {}       # key of compare node -> (module, fn, node, expr, lit, deg, via)
    mixed = []      # comparisons whose two sides are both dimensional
    origin = {}

    def nkey(cm, cfn, node):
        return (cm, cfn.name, getattr(node, "lineno", 0), getattr(node, "col_offset", 0), au.src(node))
    for modname in modules:
        m = ctx.repo.module(modname)
        for q, fn in m.funcs.items():
            if "<locals>" in q:
                continue
            world = GEO.World(ctx.repo)
            V = H.fview(ctx, modname, fn, unroll=False)
            it = GEO.Interp(world, m.name, V).run()
            found = [(m.name, fn, c, None) for c in it.compares]
            mixed += [(m.name, fn, c, None) for c in it.mixed]
            for (cm, cname), lst in world.calls.items():
                cfn = ctx.repo.modules[cm].funcs[cname]
                for amap, sub in lst:
                    found += [(cm, cfn, c, q) for c in sub.compares]
                    mixed += [(cm, cfn, c, q) for c in sub.mixed]
            for cm, cfn, (node, expr, lit, deg), via in found:
                k = nkey(cm, cfn, node)
                prev = seen.get(k)
                if prev is None or (prev[5] == 0 and deg != 0):
                    seen[k] = (cm, cfn, node, expr, lit, deg, via)
    n = 0
    for cm, cfn, node, expr, lit, deg, via in seen.values():
        n += 1
        q = cfn.name
        how = f" (reached from {via} with arguments built from mesh.vertices)" if via else ""
        ctx.check(deg == 0, rule, ctx.site(cm, cfn, node),
                  f"{q}: `{au.src(node)}` {'clamps' if isinstance(node, ast.Call) else 'compares'} `{au.src(expr)}` (a length to the power {deg:g}) "
                  f"{'by' if isinstance(node, ast.Call) else 'with'} the absolute constant {lit:g}{how}",
                  "the outcome of the test changes under a uniform scaling of the mesh: well-shaped elements of a mesh given in small "
                  "(or large) units are treated differently, so the quantity neither scales with the right power nor stays invariant",
                  note=f"{q}: `{au.src(node)}` is dimensionless")
    done = {}
    for cm, cfn, (node, l, dl, r, dr), via in mixed:
        k = nkey(cm, cfn, node)
        if done.get(k, True):          # a homogeneous reading never hides an inhomogeneous one of the same test
            done[k] = (dl == dr)
            if dl != dr:
                done[k] = False
                ctx.fail(rule, ctx.site(cm, cfn, node),
                         f"{cfn.name}: `{au.src(node)}` compares `{au.src(l)}` (a length to the power {dl:g}) with `{au.src(r)}` "
                         f"(a length to the power {dr:g})" + (f" (reached from {via} with arguments built from mesh.vertices)" if via else ""),
                         "the two sides of the test scale differently under a uniform scaling of the mesh, so its outcome depends on the unit")
    for k, homogeneous in done.items():
        if homogeneous:
            n += 1
            ctx.ok(rule, ctx.site(GEOM, "<module>"), "a comparison of two dimensional expressions is homogeneous")
    return n


def e2_absolute_thresholds(ctx):
    n = threshold_rule(ctx, "C07-E2", ALL_ATTR + [GEOM])
    if n == 0:
        ctx.ok("C07-E2", ctx.site(GEOM, "<module>"), "no comparison of a dimensional expression with a constant")


# ----------------------------------------------------------------------- C07-Z1
FRESH_CALLS = {"create_attribute", "ArrayAttribute", "Attribute", "zeros", "ones", "full", "empty", "dict", "list", "set", "zeros_like",
               "ones_like", "full_like", "empty_like", "array", "copy", "deepcopy", "arange", "defaultdict", "Counter"}
FETCH_CALLS = {"get_attribute", "as_array"}
# Output attributes (module, function, position of the parameter) that the pinned code accumulates onto without resetting them
# (every caller in the repository passes a freshly built attribute).  Frozen so that the rule stays silent on the pinned behaviour.
Z1_PINNED_NO_RESET = {
    ("attributes.interpolate", "interpolate_faces_to_vertices", 2),
    ("attributes.interpolate", "average_corners_to_vertices", 2),
    ("attributes.interpolate", "average_corners_to_faces", 2),
}


def _origin(e, params, depth=0):
    """'fresh' | 'fetched' | ('param', name) | 'unknown' for the value an accumulator name is bound to"""
    if isinstance(e, ast.IfExp):
        a, c = _origin(e.body, params, depth + 1), _origin(e.orelse, params, depth + 1)
        for worst in ("fetched",):
            if worst in (a, c):
                return worst
        for x in (a, c):
            if isinstance(x, tuple):
                return x
        return "unknown" if "unknown" in (a, c) else "fresh"
    if isinstance(e, ast.Call):
        t = au.call_tail(e)
        if t in FETCH_CALLS:
            return "fetched"
        if t in FRESH_CALLS:
            return "fresh"
        return "unknown"
    if isinstance(e, (ast.List, ast.Dict, ast.Set, ast.ListComp, ast.DictComp, ast.SetComp, ast.BinOp, ast.UnaryOp, ast.Tuple)):
        return "fresh"
    if isinstance(e, ast.Constant) and isinstance(e.value, (int, float)):
        return "fresh"
    if isinstance(e, ast.Name) and e.id in params:
        return ("param", e.id)
    return "unknown"


def _rmw(st):
    """(base name, key) if st reads and rewrites base[key] (+=, -=, base[k] = base[k] + ..)"""
    inc = au.increment(st)
    if inc is None:
        return None
    t = st.target if isinstance(st, ast.AugAssign) else st.targets[0]
    if isinstance(t, ast.Subscript) and isinstance(t.value, ast.Name):
        return t.value.id, t.slice
    return None


def _top_stmt(fn, node):
    top = node
    while au.parent(top) is not fn and au.parent(top) is not None:
        top = au.parent(top)
    return top


def _reset_before(V, st, base, key):
    """base.clear() / base.fill(0) at the top level before the accumulation, or base[key] = const earlier in the same loop body"""
    top = _top_stmt(V, st)
    for s in V.body:
        if s is top:
            break
        if isinstance(s, ast.Expr) and isinstance(s.value, ast.Call) and au.call_tail(s.value) in ("clear", "fill") \
                and isinstance(s.value.func, ast.Attribute) and au.src(s.value.func.value) == base:
            return "cleared"
    for a in au.ancestors(st):
        if isinstance(a, ast.For):
            for s in a.body:
                if s.lineno >= st.lineno:
                    break
                if isinstance(s, ast.Assign) and len(s.targets) == 1 and isinstance(s.targets[0], ast.Subscript) \
                        and au.src(s.targets[0].value) == base and au.increment(s) is None \
                        and base not in au.names(s.value) and _top_stmt(a, st) is not s and au.same(s.targets[0].slice, key):
                    return "reset per element"
    return None


def _may_reach(s, st):
    """can the binding statement s be the one in force at statement st?  No when the two sit in the two branches of one `if`, or when s comes
    later and no loop contains both"""
    anc_s = [s] + list(au.ancestors(s))
    anc_t = [st] + list(au.ancestors(st))
    ids_t = {id(x): i for i, x in enumerate(anc_t)}
    for i, x in enumerate(anc_s):
        if id(x) in ids_t:
            j = ids_t[id(x)]
            if i == 0 or j == 0:
                return True
            cs, ct = anc_s[i - 1], anc_t[j - 1]
            if isinstance(x, ast.If) and ((any(cs is y for y in x.body) and any(ct is y for y in x.orelse)) or (any(cs is y for y in x.orelse) and any(ct is y for y in x.body))):
                return False
            if getattr(cs, "lineno", 0) > getattr(ct, "lineno", 0) and not any(isinstance(a, (ast.For, ast.While)) for a in anc_s[i:] if not isinstance(a, (ast.FunctionDef,))):
                return False
            return True
    return True


def z1_reset_before_accumulate(ctx):
    n = 0
    for modname in ALL_ATTR:
        for q, fn in top_funcs(ctx, modname):
            V = H.fview(ctx, modname, fn)
            params = au.params(V)
            done = set()
            for st in au.stmts(V.body):
                r = _rmw(st)
                if not r or r[0] in done:
                    continue
                base, key = r
                done.add(base)
                site = ctx.site(modname, fn, st)
                binds = [v for s in au.stmts(V.body) for nm, v in sym.split_assign(s) if nm == base and _may_reach(s, st)]
                other = [s for s in au.stmts(V.body) if sym.Bindings._assigns(s, base, deep=False) and not any(nm == base for nm, _ in sym.split_assign(s))
                         and _may_reach(s, st)]
                origins = [_origin(v, params) for v in binds]
                if base in params and not binds:
                    origins = [("param", base)]
                how = _reset_before(V, st, base, key)
                n += 1
                if how:
                    ctx.ok("C07-Z1", site, f"{q}: accumulator `{base}` is {how}")
                    continue
                if other or not origins:
                    ctx.undecided("C07-Z1", site, f"{q}: origin of the accumulator `{base}` not recognised", "")
                    continue
                if "fetched" in origins:
                    ctx.fail("C07-Z1", site, f"{q}: `{au.src(st)}` accumulates onto `{base}` which may be an attribute fetched from the mesh (get_attribute) "
                             f"and is not reset before the loop",
                             "calling the function again on the same mesh adds the new sum to the old content of the stored attribute")
                    continue
                pars = [o[1] for o in origins if isinstance(o, tuple)]
                if pars:
                    pos = params.index(pars[0])
                    if (modname, q, pos) in Z1_PINNED_NO_RESET:
                        ctx.ok("C07-Z1", site, f"{q}: accumulates onto the caller's attribute (pinned behaviour)")
                    elif q.startswith("_"):
                        ctx.ok("C07-Z1", site, f"{q}: private helper accumulating onto its argument (checked where the argument is built)")
                    else:
                        ctx.fail("C07-Z1", site, f"{q}: `{au.src(st)}` accumulates onto the parameter `{pars[0]}` which is neither built in the function nor reset "
                                 f"(`{pars[0]}.clear()`) before the loop",
                                 "calling the function again with the same output attribute (or with one that already holds values) adds the new sum to "
                                 "the old content: the result is (old + sum)/n instead of sum/n")
                    continue
                if "unknown" in origins:
                    ctx.undecided("C07-Z1", site, f"{q}: the accumulator `{base}` is built by a call the rule does not know", "")
                    continue
                ctx.ok("C07-Z1", site, f"{q}: accumulator `{base}` is fresh")
    floor(ctx, "C07-Z1", n, 1, "attributes.interpolate", "read-modify-write accumulator(s)")


# ----------------------------------------------------------------------- C07-I1
WHOLE_CONSUMERS = {"list", "tuple", "sum", "max", "min", "sorted", "set", "len", "mean", "array", "asarray", "fromiter", "amax", "amin", "average", "median", "std", "enumerate", "zip", "iter", "any", "all"}


def _fetched_names(V):
    """local names that may hold an attribute returned by get_attribute (storage unknown)"""
    out = set()
    for st in au.stmts(V.body):
        for nm, v in sym.split_assign(st):
            for x in ([v.body, v.orelse] if isinstance(v, ast.IfExp) else [v]):
                if isinstance(x, ast.Call) and au.call_tail(x) == "get_attribute":
                    out.add(nm)
    return out


def i1_attribute_iteration(ctx):
    n = 0
    for modname in ALL_ATTR:
        for q, fn in top_funcs(ctx, modname):
            V = H.fview(ctx, modname, fn)
            names = _fetched_names(V)
            if not names:
                continue

            def is_attr(e):
                return (isinstance(e, ast.Name) and e.id in names) or (isinstance(e, ast.Call) and au.call_tail(e) == "get_attribute")
            for node in au.walk(V):
                used = None
                if isinstance(node, (ast.For, ast.comprehension)) and is_attr(node.iter):
                    used = (node.iter, "iterated")
                elif isinstance(node, ast.Call) and au.call_tail(node) in WHOLE_CONSUMERS and node.args and is_attr(node.args[0]):
                    used = (node.args[0], f"passed as a whole to {au.call_tail(node)}()")
                if used is None:
                    continue
                n += 1
                ctx.fail("C07-I1", ctx.site(modname, fn, node if not isinstance(node, ast.comprehension) else used[0]),
                         f"{q}: the attribute `{au.src(used[0])}` fetched with get_attribute is {used[1]}",
                         "a cached attribute may be sparse (dict backed): iterating it yields the ids that hold a non-default value, not the values, "
                         "and its len() is the number of those entries - the quantity is no longer the one defined over all the elements")
            n += 1
            ctx.ok("C07-I1", ctx.site(modname, fn), f"{q}: fetched attribute(s) {sorted(names)} are read element by element")
    if n == 0:
        ctx.ok("C07-I1", ctx.site(GLOB, "<module>"), "no attribute fetched from a container in the attribute modules")


# ----------------------------------------------------------------------- C07-T1
VECTOR_PRIMS = {"cross", "normalized"}
POINT_PRIMS = {"distance", "triangle_area", "quad_area", "angle_3pts", "cotan", "aspect_ratio", "circumcenter", "signed_angle_3pts"}


def t1_translation(ctx):
    from ..rules import c0708_geo as GEO
    n = 0
    for modname in ALL_ATTR:
        m = ctx.repo.module(modname)
        for q, fn in top_funcs(ctx, modname):
            world = GEO.World(ctx.repo)
            world.seen = []
            V = H.fview(ctx, modname, fn, unroll=False)
            top = GEO.Interp(world, m.name, V).run()
            for interp, node, tail, args, recv in world.seen:
                if interp is not top:
                    continue

                def weight(v):
                    a = v.a if v is not None else None
                    if a is not None and a[0] == "L":
                        a = a[1].a
                    if a is not None and a[0] == "P" and not a[2] and a[1].is_const():
                        return a[1].const_value()
                    return None
                if tail in VECTOR_PRIMS or (tail == "norm" and (len(args) == 1 or recv is not None)):
                    ws = [weight(v) for v in (args if args else [recv])] if not (tail == "norm" and not args) else [weight(recv)]
                    if all(w is None for w in ws):
                        continue
                    n += 1
                    bad = [w for w in ws if w is not None and w != 0]
                    ctx.check(not bad, "C07-T1", ctx.site(modname, fn, node),
                              f"{q}: `{tail}` receives a position (affine weight {bad[0] if bad else 0}) where a displacement between two positions is expected",
                              "the cross product / norm / direction of a position depends on where the origin is: the quantity changes under a translation of the mesh",
                              note=f"{q}: {tail}() of displacement vectors")
                elif tail in POINT_PRIMS:
                    ws = [weight(v) for v in args]
                    known = [w for w in ws if w is not None]
                    if len(known) < 2:
                        continue
                    n += 1
                    ctx.check(len(set(known)) == 1, "C07-T1", ctx.site(modname, fn, node),
                              f"{q}: `{tail}` receives arguments of affine weights {[str(w) for w in known]}: positions and displacement vectors are mixed",
                              "distances, areas and angles are functions of positions; mixing a position with a displacement makes them depend on the origin",
                              note=f"{q}: {tail}() of positions")
    if n == 0:
        ctx.undecided("C07-T1", ctx.site("attributes.attr_faces", "<module>"), "no call of a vector / position primitive with arguments of known affine weight", "")


# ----------------------------------------------------------------------- C07-B1
def _bool_eval(e, env, b, at):
    """truth of a test under an assignment of its atoms (env: source text -> bool); raises KeyError on an unknown atom"""
    if isinstance(e, ast.UnaryOp) and isinstance(e.op, ast.Not):
        return not _bool_eval(e.operand, env, b, at)
    if isinstance(e, ast.BoolOp):
        vals = [_bool_eval(v, env, b, at) for v in e.values]
        return all(vals) if isinstance(e.op, ast.And) else any(vals)
    if isinstance(e, ast.Constant):
        return bool(e.value)
    if isinstance(e, ast.Name) and e.id not in env:
        d = b.reaching(e.id, at)
        if d is not None:
            return _bool_eval(d, env, b, b._last_def_stmt)
    if isinstance(e, ast.Call) and au.call_tail(e) == "is_vertex_on_border":
        return env["border"]
    return env[au.src(e)]


def _about_border(t, b, at):
    r = b.resolve(t, at=at)
    return "zero_border" in au.names(r) or any(isinstance(c, ast.Call) and au.call_tail(c) == "is_vertex_on_border" for c in ast.walk(r))


def b1_angle_defect_border(ctx):
    mod = "attributes.attr_vertices"
    fn = ctx.repo.func(mod, "angle_defects")
    site = ctx.site(mod, fn)
    V = H.fview(ctx, mod, fn)
    b = sym.Bindings(V)
    from ..sym import Poly as _P

    def pipoly(e):
        def atom(x):
            c = au.chain(x)
            if (c and c[-1] == "pi") or (isinstance(x, ast.Name) and x.id == "pi"):
                return "pi"
            return None
        return sym.to_poly(e, atom_of=atom, opaque=True)
    # the accumulator and its default
    incs_all = [s for s in au.stmts(V.body) if au.increment(s) is not None and isinstance((s.target if isinstance(s, ast.AugAssign) else s.targets[0]), ast.Subscript)
                and any(isinstance(a, ast.For) and he_seq.Forms(V).seq(a.iter, a) is not None
                        and (he_seq.Forms(V).seq(a.iter, a).base or "").split(".")[-1] in ("face_corners", "id_corners")
                        for a in au.ancestors(s))]
    subs = [s for s in incs_all if au.increment(s)[1] == -1]
    added = [s for s in incs_all if au.increment(s)[1] == 1]
    if added and not subs and len(added) == 1:
        ctx.fail("C07-B1", ctx.site(mod, fn, added[0]), "angle_defects: the corner angles are added to the defect of their vertex instead of subtracted",
                 "the angle defect is 2*pi (pi on the border) MINUS the sum of the angles around the vertex")
        return
    if len(subs) != 1 or "zero_border" not in au.params(fn):
        ctx.undecided("C07-B1", site, "angle_defects: subtraction of the corner angles from the per-vertex defect not recognised", "")
        return
    st = subs[0]
    tgt = st.target if isinstance(st, ast.AugAssign) else st.targets[0]
    acc = au.src(tgt.value)
    # (1) default value 2*pi
    defaults = set()
    for c in au.calls(V):
        if au.call_tail(c) in CTORS:
            kw = {k.arg: k.value for k in c.keywords}
            pos = {"create_attribute": 4, "ArrayAttribute": 3, "Attribute": 2}[au.call_tail(c)]
            dv = c.args[pos] if len(c.args) > pos else kw.get("default_value")
            if any(isinstance(a, ast.Name) and a.id == acc for s in au.stmts(V.body) for a in (au.assign_targets(s) if c in list(ast.walk(s)) else [])):
                defaults.add(repr(pipoly(b.resolve(dv, at=c))) if dv is not None else "0")
    if defaults:
        ctx.check(defaults == {repr(_P.atom("pi").scale(2))}, "C07-B1", site,
                  f"angle_defects: the defect of a vertex starts from {sorted(defaults)} instead of 2*pi",
                  "the angle defect of an interior vertex is 2*pi minus the sum of the angles around it", note="interior vertices start from 2*pi")
    else:
        ctx.undecided("C07-B1", site, "angle_defects: default value of the defect attribute not recognised", "")
    # (2) border start value
    bst = [s for s in au.stmts(V.body) if isinstance(s, ast.Assign) and len(s.targets) == 1 and isinstance(s.targets[0], ast.Subscript)
           and au.src(s.targets[0].value) == acc and any(isinstance(a, ast.For) and au.chain(a.iter) and au.chain(a.iter)[-1] == "boundary_vertices" for a in au.ancestors(s))]
    if len(bst) != 1:
        ctx.undecided("C07-B1", site, "angle_defects: start value of the border vertices (loop over mesh.boundary_vertices) not recognised", "")
    else:
        v = b.resolve(bst[0].value, at=bst[0])
        got = {}
        for zb in (True, False):
            class T(ast.NodeTransformer):
                def visit_IfExp(self, n):
                    t, pol = au.strip_not(n.test)
                    if isinstance(t, ast.Name) and t.id == "zero_border":
                        return self.visit(n.body if (zb == pol) else n.orelse)
                    return self.generic_visit(n)
            got[zb] = pipoly(T().visit(sym.clone(v)))
        if any(a.startswith("⟨") for p in got.values() for a in p.atoms()):
            ctx.undecided("C07-B1", ctx.site(mod, fn, bst[0]), "angle_defects: start value of the border vertices is not read as a multiple of pi", "")
        else:
            ctx.check(got[True].is_zero() and got[False] == _P.atom("pi"), "C07-B1", ctx.site(mod, fn, bst[0]),
                      f"angle_defects: border vertices start from {got[False]} (and {got[True]} when zero_border) instead of pi (and 0)",
                      "the defect of a border vertex is pi minus the sum of its angles; zero_border ignores it", note="border vertices start from pi / 0")
    # (3) the subtraction runs except for (border and zero_border)
    facts = H.facts(st, toplevel=False)
    try:
        table = {}
        for border in (True, False):
            for zb in (True, False):
                env = {"border": border, "zero_border": zb}
                table[(border, zb)] = all(_bool_eval(t, env, b, st) == pol for t, pol in facts if _about_border(t, b, st))
        want = {k: not (k[0] and k[1]) for k in table}
        ctx.check(table == want, "C07-B1", ctx.site(mod, fn, st),
                  "angle_defects: the corner angles are subtracted when (on border, zero_border) is in "
                  f"{sorted(k for k, v in table.items() if v)}: expected everywhere except (True, True)",
                  "zero_border only ignores the vertices of the border; every other vertex loses the angles of its corners",
                  note="angles subtracted except at border vertices when zero_border")
    except KeyError:
        ctx.undecided("C07-B1", ctx.site(mod, fn, st), "angle_defects: the condition under which corner angles are subtracted is not expressed with is_vertex_on_border / zero_border", "")


# ----------------------------------------------------------------------- C07-V1
def v1_counts(ctx):
    m = ctx.repo.module("attributes.attr_vertices")
    fn = ctx.repo.func("attributes.attr_vertices", "degree")
    site = ctx.site("attributes.attr_vertices", fn)
    V = H.fview(ctx, "attributes.attr_vertices", fn)
    F = he_seq.Forms(V, ctx.repo, m.name)
    incs = [s for s in au.stmts(V.body) if au.increment(s) is not None and isinstance((s.target if isinstance(s, ast.AugAssign) else s.targets[0]), ast.Subscript)]
    outer = lambda s: ([a for a in au.ancestors(s) if isinstance(a, ast.For)] or [None])[-1]
    loops = {id(outer(s)) for s in incs}
    lp = outer(incs[0]) if incs else None
    L = he_seq.LoopCtx(F, lp.target, lp.iter, lp) if lp is not None else None
    # `for edge in mesh.edges: for end in edge: deg[end] += 1`: one increment per end through an inner loop over the whole edge
    if len(incs) == 1 and L is not None and L.seq is not None:
        inner = [a for a in au.ancestors(incs[0]) if isinstance(a, ast.For) and a is not lp]
        row0 = next((nm for nm, d in L.names.items() if d[0] == "at" and d[2] == 0), None)
        if len(inner) == 1 and row0 is not None and isinstance(inner[0].target, ast.Name):
            Li = he_seq.LoopCtx(F, inner[0].target, inner[0].iter, inner[0])
            t0 = incs[0].target if isinstance(incs[0], ast.AugAssign) else incs[0].targets[0]
            if Li.seq is not None and Li.seq.base == row0 and he_seq.full(Li.seq) and au.src(t0.slice) == inner[0].target.id \
                    and (L.seq.base or "").endswith(".edges") and he_seq.full(L.seq) and not au.guards(incs[0], stop=lp) \
                    and au.increment(incs[0])[1] == 1 and au.const(au.increment(incs[0])[2]) == 1:
                ctx.ok("C07-V1", site, "degree: +1 at every end of every edge (inner loop over the edge)")
                incs = None
    if incs is None:
        pass
    elif not incs or len(loops) != 1 or L is None or L.seq is None or not (L.seq.base or "").endswith(".edges") or any(au.guards(s, stop=lp) for s in incs):
        ctx.undecided("C07-V1", site, "degree: unconditional increments of the two ends of every edge inside one loop over mesh.edges not recognised", "")
    else:
        ends = next((r for r in L.rows.values() if None not in r), None)
        row = next((nm for nm, d in L.names.items() if d[0] == "at" and d[2] == 0), None)
        keys = []
        for s in incs:
            t = s.target if isinstance(s, ast.AugAssign) else s.targets[0]
            k = he_norm.fold_literals(ast.Expr(value=sym.clone(F.b.resolve(t.slice, at=s, keep=tuple(ends or ()) + ((row,) if row else ()))))).value
            keys.append((au.src(k), au.increment(s)[1], au.const(au.increment(s)[2])))
        want = sorted(ends) if ends else ([f"{row}[0]", f"{row}[1]"] if row else None)
        full = he_seq.full(L.seq)
        if want is None or full is None:
            ctx.undecided("C07-V1", site, "degree: the two ends of an edge not recognised", "")
        else:
            ok = sorted(k for k, sg, c in keys) == want and all(sg == 1 and c == 1 for k, sg, c in keys) and full
            ctx.check(ok, "C07-V1", ctx.site("attributes.attr_vertices", fn, incs[0]),
                      f"degree: one pass over the edges increments {[(k, sg * (c or 0)) for k, sg, c in keys]}: expected +1 at each of the two ends of every edge",
                      "the degree of a vertex is the number of edges incident to it", note="degree: +1 at both ends of every edge")
    # total_area
    fn = ctx.repo.func(GLOB, "total_area")
    site = ctx.site(GLOB, fn)
    gm = ctx.repo.module(GLOB)
    V = H.fview(ctx, GLOB, fn)
    F = he_seq.Forms(V, ctx.repo, gm.name)
    e = he_norm.return_expr(V)
    dom = None
    if e is not None and _sum_over(e) not in (None, False):
        at = [s for s in au.stmts(V.body) if isinstance(s, ast.Return)][-1]
        gen = e.args[0]
        if isinstance(gen, (ast.GeneratorExp, ast.ListComp)):
            dom = he_seq.LoopCtx(F, gen.generators[0].target, gen.generators[0].iter, at).seq
    else:
        accs = [s for s in au.stmts(V.body) if au.increment(s) is not None and isinstance((s.target if isinstance(s, ast.AugAssign) else s.targets[0]), ast.Name)]
        lps = [next((a for a in au.ancestors(s) if isinstance(a, ast.For)), None) for s in accs]
        if len(accs) == 1 and lps[0] is not None and not au.guards(accs[0], stop=lps[0]):
            dom = he_seq.LoopCtx(F, lps[0].target, lps[0].iter, lps[0]).seq
    if dom is None or dom.base is None or he_seq.full(dom) is None:
        ctx.undecided("C07-V1", site, "total_area: sum of the face areas over all the faces not recognised", "")
    else:
        base = dom.base.split(".")[-1]
        ctx.check(base in ("faces", "id_faces") and he_seq.full(dom), "C07-V1", site,
                  f"total_area: the areas are summed over `{dom.base}`" + ("" if he_seq.full(dom) else " (partially)") + ", not over all the faces of the mesh",
                  "the total area is the sum of the areas of all the faces", note="total_area sums over all faces")


# ----------------------------------------------------------------------- C07-O1
def _oriented_det(edges, n):
    """determinant (in the affine frame of point 0) of two edge vectors given as (index of head, index of tail) among n points of a face"""
    rows = []
    for x, y in edges:
        r = [0] * n
        r[x] += 1
        r[y] -= 1
        rows.append(r[1:3])
    return rows[0][0] * rows[1][1] - rows[0][1] * rows[1][0]


def o1_normal_orientation(ctx):
    mod = "attributes.attr_faces"
    m = ctx.repo.module(mod)
    fn = ctx.repo.func(mod, "face_normals")
    site = ctx.site(mod, fn)
    V = H.fview(ctx, mod, fn)
    F = he_seq.Forms(V, ctx.repo, m.name)
    b = F.b
    stores = [st for st in au.stmts(V.body) if isinstance(st, ast.Assign) and len(st.targets) == 1 and isinstance(st.targets[0], ast.Subscript)
              and any(isinstance(c, ast.Call) and au.call_tail(c) == "cross" for c in ast.walk(b.resolve(st.value, at=st)))]
    if len(stores) != 1:
        ctx.undecided("C07-O1", site, "face_normals: store of the normalised cross product of two edges of the face not recognised", "")
        return
    st = stores[0]
    val = _specialise_defaults(b.resolve(st.value, at=st), V)
    cr = [c for c in ast.walk(val) if isinstance(c, ast.Call) and au.call_tail(c) == "cross" and len(c.args) == 2]
    loops = [a for a in au.ancestors(st) if isinstance(a, ast.For)]
    fl = _face_loop(F, loops)
    if len(cr) != 1 or fl is None:
        ctx.undecided("C07-O1", site, "face_normals: cross product of two edge vectors inside the loop over the faces not recognised", "")
        return
    lp, LF, fis, row = fl
    edges = []
    for a in cr[0].args:
        e = _strip(he_norm.fold_literals(ast.Expr(value=sym.clone(b.resolve(a, at=st, keep=tuple(LF.names))))).value)
        if not (isinstance(e, ast.BinOp) and isinstance(e.op, ast.Sub)):
            edges.append(None)
            continue
        ends = []
        for side in (e.left, e.right):
            d = LF.desc(_strip(side), st)
            ends.append(d[2] if d[0] == "elt" else None)
        edges.append(tuple(ends) if None not in ends else None)
    if None in edges or any(j not in (0, 1, 2) for e in edges for j in e):
        ctx.undecided("C07-O1", ctx.site(mod, fn, st), "face_normals: the edge vectors of the cross product could not be related to the first three vertices of the face", "")
        return
    det = _oriented_det(edges, 3)
    norm_ok = any(isinstance(c, ast.Call) and au.call_tail(c) == "normalized" and any(cr[0] is x for x in ast.walk(c)) for c in ast.walk(val))
    problems = []
    if det == 0:
        problems.append(f"the two edge vectors {edges} of the cross product are parallel")
    elif det < 0:
        problems.append(f"the cross product of the edge vectors {edges} points against the orientation given by the order of the vertices")
    elif abs(det) != 1:
        problems.append(f"the edge vectors {edges} are not two edges of the triangle of the first three vertices")
    if not norm_ok:
        problems.append("the cross product is not normalised")
    ctx.check(not problems, "C07-O1", ctx.site(mod, fn, st), "face_normals: " + "; ".join(problems),
              "the unit normal of a face is cross(B - A, C - A) / |..| for its vertices A, B, C in order (right-hand rule)", note="normal = normalised cross of positively oriented edges")


# ----------------------------------------------------------------------- C07-G2
DIRECTION_ONLY = {"normalized", "face_basis", "sign", "sign0", "angle_3pts", "cotan", "signed_angle_2vec3D", "signed_angle_3pts", "angle_2vec3D", "angle_2vec2D",
                  "atan2", "arctan2", "aspect_ratio", "isinstance", "len"}


def g2_truncated_face(ctx):
    n = 0
    for modname in ATTR_MODS:
        m = ctx.repo.module(modname)
        for q, fn in top_funcs(ctx, modname):
            V = H.fview(ctx, modname, fn)
            F = he_seq.Forms(V, ctx.repo, m.name)
            b = F.b
            # rows of faces: loop variables running over <mesh>.faces, and `<mesh>.faces[i]`
            rows = set()
            for lp in [x for x in au.stmts(V.body) if isinstance(x, ast.For)]:
                L = he_seq.LoopCtx(F, lp.target, lp.iter, lp)
                rows |= {nm for nm, d in L.names.items() if d[0] == "at" and d[1].endswith(".faces") and d[2] == 0 and not d[3]}

            def is_row(e):
                if isinstance(e, ast.Name):
                    if e.id in rows:
                        return True
                    d = b.defs.get(e.id) if b.single(e.id) else None
                    return d is not None and is_row(d)
                return isinstance(e, ast.Subscript) and not isinstance(e.slice, ast.Slice) and au.chain(e.value) is not None and au.chain(e.value)[-1] == "faces"

            def truncated(e):
                """source: the first three vertices of a face row  R[:3]"""
                return isinstance(e, ast.Subscript) and isinstance(e.slice, ast.Slice) and e.slice.step is None and au.const(e.slice.upper) == 3 \
                    and (e.slice.lower is None or au.const(e.slice.lower) == 0) and is_row(e.value)
            sources = [x for x in au.walk(V) if truncated(x)]
            if not sources:
                continue
            tainted = set()

            def carries(e):
                """does the value of e depend on the truncated face through its magnitude?"""
                if isinstance(e, ast.Call) and au.call_tail(e) in DIRECTION_ONLY:
                    return False
                if truncated(e):
                    return True
                if isinstance(e, ast.Name):
                    return e.id in tainted
                return any(carries(c) for c in ast.iter_child_nodes(e) if isinstance(c, ast.expr) or isinstance(c, (ast.comprehension, ast.keyword, ast.Starred)))
            for _ in range(6):
                before = len(tainted)
                for st in au.stmts(V.body):
                    if isinstance(st, ast.Assign):
                        if carries(st.value):
                            for t in st.targets:
                                tainted.update(x for x in au.assigned_names(t) if not isinstance(t, (ast.Subscript, ast.Attribute)))
                    elif isinstance(st, ast.AugAssign) and isinstance(st.target, ast.Name) and carries(st.value):
                        tainted.add(st.target.id)
                if len(tainted) == before:
                    break
            for st in au.stmts(V.body):
                tgt = None
                if isinstance(st, ast.Assign) and len(st.targets) == 1 and isinstance(st.targets[0], ast.Subscript):
                    tgt, val = st.targets[0], st.value
                elif isinstance(st, ast.AugAssign) and isinstance(st.target, ast.Subscript):
                    tgt, val = st.target, st.value
                if tgt is None:
                    continue
                val = _specialise_defaults(val, V)
                if not carries(val):
                    continue
                n += 1
                tri = gated(ctx.repo, m.name, V, st) or any(
                    isinstance(r, ast.Compare) and len(r.ops) == 1 and isinstance(r.ops[0], ast.Eq if pol else ast.NotEq) and au.const(r.comparators[0]) == 3
                    and isinstance(r.left, ast.Call) and au.call_tail(r.left) == "len" for t, pol in H.facts(st, toplevel=True) for r in [b.resolve(t, at=st)])
                ctx.check(tri, "C07-G2", ctx.site(modname, fn, st),
                          f"{q}: a quantity computed from the first three vertices of a face (`[:3]`) is stored / accumulated with its magnitude although the faces "
                          f"are not known to be triangles",
                          "for a quad or a polygon the cross product of the first two edges measures the triangle of the first three vertices only: its norm is not "
                          "(twice) the area of the face and it changes when the face is renumbered cyclically; only its direction stands for the face",
                          note=f"{q}: truncated face used behind a triangular gate")
    if n == 0:
        ctx.ok("C07-G2", ctx.site("attributes.attr_faces", "<module>"), "quantities computed from the first three vertices of a face are only used through their direction")


# ----------------------------------------------------------------------- C07-Q1
def _restricting_params(ctx, modname, fn):
    """parameters of an attribute-building function that restrict the elements its output attribute is filled on (the iterable of the fill
    loop depends on them)"""
    V = H.fview(ctx, modname, fn)
    b = sym.Bindings(V)
    params = [p for p in au.params(fn) if p not in ("mesh", "self", "name", "persistent", "dense")]
    outs = {nm for s in au.stmts(V.body) for nm, v in sym.split_assign(s) if any(isinstance(c, ast.Call) and au.call_tail(c) in CTORS for c in ast.walk(v))}
    found = set()
    for st in au.stmts(V.body):
        tgts = [t for t in au.assign_targets(st) if isinstance(t, ast.Subscript) and isinstance(t.value, ast.Name) and t.value.id in outs]
        if not tgts:
            continue
        loops = [a for a in au.ancestors(st) if isinstance(a, ast.For)]
        if not loops:
            continue
        it = b.resolve(loops[-1].iter, at=loops[-1], keep=tuple(params))
        found |= au.names(it) & set(params)
    return found


def q1_partial_cache(ctx):
    restricted = {}
    for modname in ATTR_MODS:
        for q, fn in top_funcs(ctx, modname):
            if "persistent" in au.params(fn) and not q.startswith("_"):
                r = _restricting_params(ctx, modname, fn)
                if r:
                    restricted[q] = (modname, fn, r)
    n = 0
    for modname in ALL_ATTR:
        m = ctx.repo.module(modname)
        for q, fn in top_funcs(ctx, modname):
            V = H.fview(ctx, modname, fn)
            for c in au.calls(V):
                name = au.call_tail(c)
                if name not in restricted or name == q:
                    continue
                r = ctx.repo.resolve_func(m.name, name) if isinstance(c.func, ast.Name) else None
                cm, cfn, rps = restricted[name]
                if r is not None and r[1] is not cfn:
                    continue
                amap = he_norm.bind_call(cfn, c)
                if amap is None:
                    continue
                supplied = [p for p in rps if p in amap and not (isinstance(amap[p], ast.Constant) and amap[p].value is None)
                            and not any(amap[p] is d for d in H.param_defaults(cfn).values())]
                if not supplied:
                    continue
                n += 1
                pers = amap.get("persistent")
                is_default = pers is None or any(pers is d for d in H.param_defaults(cfn).values())
                stored = (is_default and bool(getattr(H.param_defaults(cfn).get("persistent"), "value", False))) or (isinstance(pers, ast.Constant) and pers.value is True)
                if stored:
                    ctx.fail("C07-Q1", ctx.site(modname, fn, c), f"{q}: `{name}` is asked for a persistent attribute restricted by `{supplied[0]}`: a partially filled "
                             f"attribute is stored on the mesh under the name later queries reuse",
                             "every later function that finds the cached attribute (has_attribute / get_attribute) reads the default value for the elements that "
                             "were left out: sums, means and weights built on it are wrong")
                elif isinstance(pers, ast.Constant) and pers.value is False:
                    ctx.ok("C07-Q1", ctx.site(modname, fn, c), f"{q}: restricted `{name}` is not stored on the mesh")
                else:
                    ctx.undecided("C07-Q1", ctx.site(modname, fn, c), f"{q}: `{name}` is restricted by `{supplied[0]}` with a `persistent` flag the rule cannot evaluate", "")
    if n == 0:
        ctx.ok("C07-Q1", ctx.site(GLOB, "<module>"), "no attribute function is asked for an attribute restricted to a subset of the elements")


# ----------------------------------------------------------------------- C07-P1
# roles of the parameters of the point-returning primitives of geometry.py: 1 = position, 0 = direction / displacement
POINT_PRIMITIVES = {
    "circumcenter": {"v1": 1, "v2": 1, "v3": 1},
    "intersect_2lines2D": {"p1": 1, "d1": 0, "p2": 1, "d2": 0},
    "project_to_plane": {"P": 1, "N": 0, "orig": 1},
}
# attribute functions whose values are positions (stored in the returned attribute / returned)
POINT_ATTRIBUTES = [("attributes.attr_cells", "cell_barycenter"), ("attributes.attr_faces", "face_barycenter"),
                    ("attributes.attr_faces", "face_circumcenter"), ("attributes.attr_edges", "edge_middle_point"),
                    ("attributes.glob", "barycenter")]
P1_WHAT = ("a position must be an affine combination of the input positions (weights summing to one, along every axis): otherwise the "
           "result does not follow the mesh under a translation - it is only right when the origin happens to lie in the element's plane")


def p1_points(ctx):
    from ..rules import c0708_geo as GEO
    from ..sym import Poly as _P
    gm = ctx.repo.module(GEOM)
    for name, roles in POINT_PRIMITIVES.items():
        fn = ctx.repo.func(GEOM, name)
        site = ctx.site(GEOM, fn)
        missing = [p for p in roles if p not in au.params(fn)]
        if missing:
            ctx.undecided("C07-P1", site, f"{name}: parameter(s) {missing} not found", "the roles (position / direction) of the parameters are frozen in the checker")
            continue
        world = GEO.World(ctx.repo)
        am = {k: GEO.Val(1, GEO.P(_P.const(w))) for k, w in roles.items()}
        V = he_norm.view(ctx.repo, gm.name, fn, unroll=False)
        it = GEO.Interp(world, gm.name, V, am).run()
        if not it.returns:
            ctx.undecided("C07-P1", site, f"{name}: no returned value found", "")
        for st, v in it.returns:
            decided, ok, text = GEO.point_verdict(v, it.frames)
            rsite = ctx.site(GEOM, fn, st)
            if not decided:
                ctx.undecided("C07-P1", rsite, f"{name}: the affine weight of the returned point cannot be derived ({text})", P1_WHAT)
            else:
                ctx.check(ok, "C07-P1", rsite, f"{name}: the returned position `{au.src(st.value)}` is not an affine combination of the input positions: {text}",
                          P1_WHAT, note=f"{name}: returned value is a position ({text})")
    for modname, q in POINT_ATTRIBUTES:
        fn = ctx.repo.func(modname, q)
        m = ctx.repo.module(modname)
        site = ctx.site(modname, fn)
        world = GEO.World(ctx.repo)
        V = H.fview(ctx, modname, fn, unroll=False)
        it = GEO.Interp(world, m.name, V).run()
        rets = [s for s in au.stmts(V.body) if isinstance(s, ast.Return) and s.value is not None]
        outs = {r.value.id for r in rets if isinstance(r.value, ast.Name)}
        cands = []
        if outs:
            cands = [(t, val, v, sub) for sub, t, val, v in world.stores if sub is it and isinstance(t, ast.Subscript) and au.src(t.value) in outs]
        if not cands:
            cands = [(None, st.value, v, it) for st, v in it.returns if not isinstance(st.value, ast.Name)]
        if not cands:
            ctx.undecided("C07-P1", site, f"{q}: the position stored / returned by the function not recognised", "")
        for t, val, v, sub in cands:
            node = t if t is not None else val
            callee = world.resolve(m.name, val) if isinstance(val, ast.Call) else None
            if callee is not None and callee[1].name in POINT_PRIMITIVES:
                ctx.ok("C07-P1", ctx.site(modname, fn, node), f"{q}: delegates to geom.{callee[1].name} (checked there)")
                continue
            decided, ok, text = GEO.point_verdict(v, sub.frames)
            if not decided:
                ctx.undecided("C07-P1", ctx.site(modname, fn, node), f"{q}: the affine weight of the stored position cannot be derived ({text})", P1_WHAT)
            else:
                ctx.check(ok, "C07-P1", ctx.site(modname, fn, node), f"{q}: `{au.src(val)}` is not an affine combination of vertex positions: {text}",
                          P1_WHAT, note=f"{q}: position with {text}")



# ----------------------------------------------------------------------- generic families (msa/rules/generic.py)
_run_specific = run


def run(ctx):
    _run_specific(ctx)
    from ..rules import generic
    generic.apply(ctx, "C07", stale_modules=())


def _generic_rule_texts():
    from ..rules import generic
    return generic.rule_texts("C07", stale=False)


RULES.update(_generic_rule_texts())
