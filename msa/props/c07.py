"""C07 - geometric quantities match their definitions (structural clauses)."""
from __future__ import annotations
import ast
from fractions import Fraction
from .. import au, sym, flow
from ..sym import Poly
from ..core import AnalysisError
from ..rules import c0708 as H

ATTR_MODS = ["attributes.attr_cells", "attributes.attr_corners", "attributes.attr_edges",
             "attributes.attr_faces", "attributes.attr_vertices"]
GLOB = "attributes.glob"
INTERP = "attributes.interpolate"
GEOM = "geometry.geometry"
ALL_ATTR = ATTR_MODS + [GLOB, INTERP]

EXPLANATION = (
    "Static conformance of the per-element quantity functions: return discipline of the annotated functions, agreement "
    "of the persistent / dense / sparse constructors of each attribute, index-kind typing of every subscript and "
    "connectivity call (an attribute living on container K is only indexed by ids of K), triangular gates in front of "
    "corner arithmetic, corner quantities centred at the corner's vertex, weight / normaliser pairing of every "
    "interpolation mode, divisor = number of summed terms for means and barycentres, and polynomial identities of the "
    "closed-form primitives of geometry.py (cross product, determinants, aspect ratio, quad area). Structural necessary "
    "conditions only; no numerical value is computed.")

RULES = {
    "C07-R1": "a function of attributes/*.py annotated with a non-None return type returns a value on every normal exit",
    "C07-D1": "a conditional marker store `A[k] = m` is not unconditionally overwritten by the next store to `A[k]`",
    "C07-S1": "create_attribute(name, T, k) on container K, ArrayAttribute(T, len(mesh.K), k) and Attribute(T, k) agree on T, k, K and default value",
    "C07-K1": "an attribute / array / container indexed by elements of kind K is only subscripted with ids of kind K, and "
              "connectivity queries receive ids of the kind they are defined on",
    "C07-G1": "corner index arithmetic (3*f+i, first_corner+3-iA-iB) only occurs behind an is_triangular() gate",
    "C07-C1": "the quantity stored at a face corner is computed with that corner's vertex as the central point, the two other "
              "vertices of the face as end points; corners are numbered face by face",
    "C07-W1": "in every interpolation mode the factor multiplying the value and the increment of the normaliser are equal and the "
              "result is divided by that normaliser; un-weighted means divide by the length of the collection that was summed",
    "C07-M1": "in the mean_* functions the divisor equals the number of accumulated terms",
    "C07-M2": "a barycentre divides the sum of a collection by the length of that same collection; affine combinations have coefficients summing to 1",
    "C07-A1": "face_area dispatches on the number of vertices to a primitive of that arity and its polygon fan visits every side once; "
              "cell_volume is |det| of three edge vectors from a common apex over 6",
    "C07-E1": "a per-edge quantity visits the faces on both sides of the edge (direct_face(A,B) and direct_face(B,A)) independently: "
              "no break / return / nesting lets an absent face on one side suppress the other side",
    "C07-E2": "no per-element quantity is guarded by a comparison of a dimensional expression (length, area, volume ...) with an absolute constant",
    "C07-P1": "a function returning a position returns an affine combination of its input positions (weights summing to one; when rebuilt from "
              "coordinates in an orthonormal frame, along all three axes of the frame), never a pure vector",
    "C07-Z1": "an accumulator that is read-modify-written (+=, x = x + ..) is built in the function or reset (clear()) before the accumulation",
    "C07-X1": "closed-form primitives of geometry.py are the textbook polynomials (cross, det_2x2, det_3x3, quad_area, aspect_ratio, "
              "triangle_area) and angle primitives take both vectors from the central point",
}


def run(ctx):
    r1_return_discipline(ctx)
    d1_dead_marker(ctx)
    s1_constructors(ctx)
    k1_index_kinds(ctx)
    g1_triangular_gate(ctx)
    c1_corner_centre(ctx)
    w1_interpolation(ctx)
    m1_mean_divisor(ctx)
    m2_barycentres(ctx)
    a1_area_volume(ctx)
    x1_primitives(ctx)
    e1_edge_sides(ctx)
    e2_absolute_thresholds(ctx)
    z1_reset_before_accumulate(ctx)
    p1_points(ctx)


def top_funcs(ctx, modname):
    m = ctx.repo.module(modname)
    return [(q, fn) for q, fn in m.funcs.items() if "." not in q]


# ----------------------------------------------------------------------- C07-R1
def r1_return_discipline(ctx):
    n = 0
    for modname in ALL_ATTR:
        for q, fn in top_funcs(ctx, modname):
            if q.startswith("_") or fn.returns is None:
                continue
            if isinstance(fn.returns, ast.Constant) and fn.returns.value is None:
                continue
            n += 1
            site = ctx.site(modname, fn)
            f = flow.Flow(lambda s, st: s)
            f.run(fn.body, frozenset())
            falls = [e for e in f.exits if e[0] == "fall"]
            bare = [e for e in f.exits if e[0] == "return" and e[1].value is None]
            rets = [e for e in f.exits if e[0] == "return" and e[1].value is not None]
            if falls or bare:
                how = "falls off the end" if falls else "has a bare `return`"
                ctx.fail("C07-R1", site, f"{q} is annotated `-> {au.src(fn.returns)}` but {how}",
                         f"every call returns None instead of the computed quantity ({len(rets)} value-returning exit(s))")
            else:
                ctx.ok("C07-R1", site, f"{q}: {len(rets)} exit(s), all return a value")
    ctx.require_count("C07-R1 annotated functions", n, 15)


# ----------------------------------------------------------------------- C07-D1
def d1_dead_marker(ctx):
    """if c: A[k] = m      (body falls through)
       A[k] = e            (does not read A[k])     -> the marker never survives"""
    n = 0
    for modname in ATTR_MODS:
        for q, fn in top_funcs(ctx, modname):
            for st in au.stmts(fn.body):
                if not isinstance(st, ast.If) or st.orelse:
                    continue
                stores = [s for s in st.body if isinstance(s, ast.Assign) and len(s.targets) == 1
                          and isinstance(s.targets[0], ast.Subscript)]
                rest = [s for s in st.body if not any(s is x for x in stores)]
                if not stores or not all(isinstance(s, (ast.Continue, ast.Break, ast.Return, ast.Raise)) for s in rest):
                    continue
                blk, _ = au.enclosing_block(st)
                if not blk:
                    continue
                n += 1
                i = [id(x) for x in blk].index(id(st))
                nxt = blk[i + 1] if i + 1 < len(blk) else None
                dead = None
                if not rest and isinstance(nxt, ast.Assign) and len(nxt.targets) == 1:
                    for s in stores:
                        if au.same(s.targets[0], nxt.targets[0]) and \
                                not any(au.same(x, nxt.targets[0]) for x in au.walk(nxt.value)
                                        if isinstance(x, ast.Subscript)):
                            dead = s
                site = ctx.site(modname, fn, st)
                ctx.check(dead is None, "C07-D1", site,
                          f"marker store `{au.src(dead) if dead else ''}` under `{au.src(st.test)}` is overwritten by the next statement",
                          f"the documented marker value never survives: `{au.src(nxt) if nxt else ''}` runs for every element",
                          note=f"{q}: conditional store keeps its value")
    if n == 0:
        fn = ctx.repo.func("attributes.attr_faces", "triangle_aspect_ratio")
        ctx.fail("C07-D1", ctx.site("attributes.attr_faces", fn), "triangle_aspect_ratio: conditional marker store for non-triangular faces not found",
                 "the documented -1 marker for faces that are not triangles is no longer written under a test on the face size")


# ----------------------------------------------------------------------- C07-S1
def _ctor_desc(call, how):
    """(T, size, K, default) as normalised strings"""
    args, kw = call.args, {k.arg: k.value for k in call.keywords}

    def pick(pos, name, default):
        if len(args) > pos:
            return au.norm(args[pos])
        if name in kw:
            return au.norm(kw[name])
        return default
    one = au.norm(ast.Constant(value=1))
    none = au.norm(ast.Constant(value=None))
    if how == "create":
        ch = au.chain(call.func.value)
        return (pick(1, "data_type", None), pick(2, "elem_size", one), ch[-1] if ch else None,
                pick(4, "default_value", none))
    if how == "array":
        n = args[1] if len(args) > 1 else kw.get("n_elem")
        K = None
        if isinstance(n, ast.Call) and au.call_tail(n) == "len" and n.args:
            ch = au.chain(n.args[0])
            K = ch[-1] if ch else None
        return (pick(0, "elem_type", None), pick(2, "elem_size", one), K, pick(3, "default_value", none))
    return (pick(0, "elem_type", None), pick(1, "elem_size", one), None, pick(2, "default_value", none))


def s1_constructors(ctx):
    n = 0
    for modname in ATTR_MODS:
        for q, fn in top_funcs(ctx, modname):
            if "persistent" not in au.params(fn):
                continue
            if not any(isinstance(st, ast.If) and isinstance(st.test, ast.Name) and st.test.id == "persistent" and st.orelse
                       for st in au.stmts(fn.body)):
                ctx.fail("C07-S1", ctx.site(modname, fn), f"{q}: `if persistent: ... else: ...` constructor split not found",
                         "the function takes a `persistent` option but no longer builds its attribute on an if/else of that option")
            for st in au.stmts(fn.body):
                if not (isinstance(st, ast.If) and isinstance(st.test, ast.Name) and st.test.id == "persistent" and st.orelse):
                    continue
                site = ctx.site(modname, fn, st)
                creates = [c for s in st.body for c in au.calls(s) if au.call_tail(c) == "create_attribute"]
                arrays = [c for s in st.orelse for c in au.calls(s) if au.call_tail(c) == "ArrayAttribute"]
                sparse = [c for s in st.orelse for c in au.calls(s) if au.call_tail(c) == "Attribute"]
                if not creates or not (arrays or sparse):
                    ctx.fail("C07-S1", site, f"{q}: persistent / non-persistent constructor pair not found",
                             "the `if persistent` split no longer builds the attribute with create_attribute / ArrayAttribute / Attribute")
                    continue
                n += 1
                descs = [("create_attribute", _ctor_desc(c, "create")) for c in creates] + \
                        [("ArrayAttribute", _ctor_desc(c, "array")) for c in arrays] + \
                        [("Attribute", _ctor_desc(c, "sparse")) for c in sparse]
                ref = descs[0][1]
                bad = []
                for name, d in descs:
                    for slot, label in ((0, "element type"), (1, "element size"), (3, "default value")):
                        if d[slot] != ref[slot]:
                            bad.append(f"{label} of {name}")
                    if name == "ArrayAttribute" and d[2] != ref[2]:
                        bad.append(f"ArrayAttribute is sized by len(mesh.{d[2]}) but the persistent attribute lives on mesh.{ref[2]}")
                # names must be stored under the `name` parameter
                for c in creates:
                    if not (c.args and isinstance(c.args[0], ast.Name) and c.args[0].id == "name"):
                        bad.append("persistent attribute is not stored under the `name` parameter")
                # both branches bind the same variable
                tv = {t.id for s in st.body + st.orelse for x in au.stmts([s]) if isinstance(x, ast.Assign)
                      for t in x.targets if isinstance(t, ast.Name)}
                if len(tv) != 1:
                    bad.append(f"the branches bind different variables {sorted(tv)}")
                ctx.check(not bad, "C07-S1", site,
                          f"{q}: constructors of the persistent and non-persistent attribute disagree on " + "; ".join(sorted(set(bad))),
                          "the same call with persistent=False / dense=False returns an attribute of another type, width, length or default",
                          note=f"{q}: {len(descs)} constructors agree on (T, size, container, default)")
    ctx.require_count("C07-S1 constructor splits", n, 8)


# ----------------------------------------------------------------------- C07-K1
def kinds_rule(ctx, rule, modules, floor):
    n = 0
    for modname in modules:
        m = ctx.repo.module(modname)
        resolver = H.make_attr_func_kind(ctx.repo, m.name)
        for q, fn in m.funcs.items():
            if "<locals>" in q:
                continue
            K = H.Kinds(ctx.repo, m.name, fn, resolver)
            for node, what, want, got in K.obligations():
                n += 1
                site = ctx.site(modname, fn, node)
                ctx.check(want == got, rule, site,
                          f"{what} but `{au.src(node.slice if isinstance(node, ast.Subscript) else node)}` is an index of {got}",
                          f"an id of one element kind is used to address another kind: wrong element (or IndexError) "
                          f"whenever the two containers differ", note=what)
    ctx.require_count(f"{rule} typed index uses", n, floor)


def k1_index_kinds(ctx):
    kinds_rule(ctx, "C07-K1", ALL_ATTR, 50)


# ----------------------------------------------------------------------- C07-G1
def _is_gate(st):
    """`if not X.is_triangular(): raise` / `assert X.is_triangular()`"""
    def tri(e):
        return isinstance(e, ast.Call) and au.call_tail(e) == "is_triangular"
    if isinstance(st, ast.Assert):
        return tri(st.test) or (isinstance(st.test, ast.BoolOp) and isinstance(st.test.op, ast.And) and any(tri(v) for v in st.test.values))
    if isinstance(st, ast.If) and isinstance(st.test, ast.UnaryOp) and isinstance(st.test.op, ast.Not) and tri(st.test.operand):
        return flow.always_terminates(st.body) and not any(isinstance(s, (ast.Continue, ast.Break)) for s in au.stmts(st.body))
    return False


def gated(repo, modname, fn, node):
    """is `node` dominated by a triangular gate at the top level of fn (directly or through a helper called first)?"""
    top = node
    while au.parent(top) is not fn and au.parent(top) is not None:
        top = au.parent(top)
    for st in fn.body:
        if st is top:
            return False
        if _is_gate(st):
            return True
        if isinstance(st, ast.Expr) and isinstance(st.value, ast.Call) and isinstance(st.value.func, ast.Name):
            r = repo.resolve_func(modname, st.value.func.id)
            if r and r[1] is not None and any(_is_gate(s) for s in r[1].body):
                return True
    return False


def corner_arithmetic(fn):
    """subscript indices of the forms 3*f (+k) and X + 3 - a - b"""
    out = []
    b = sym.Bindings(fn)
    for n in au.walk(fn):
        if not isinstance(n, ast.Subscript) or isinstance(n.slice, (ast.Slice, ast.Tuple)):
            continue
        e = b.resolve(n.slice, at=n)
        if not isinstance(e, ast.BinOp):
            continue
        try:
            p = sym.to_poly(e, opaque=True)
        except Exception:
            continue
        lin = [k for k, v in p.t.items() if len(k) == 1 and v == 3 and not k[0].startswith("⟨")]
        c = p.const_value()
        neg = [k for k, v in p.t.items() if len(k) == 1 and v == -1]
        if lin and len(p.t) <= 2 and c in (0, 1, 2):
            out.append((n, f"3*{lin[0][0]}+{c}"))
        elif c == 3 and len(neg) == 2:
            out.append((n, "first corner + 3 - iA - iB"))
    return out


def g1_triangular_gate(ctx):
    n = 0
    seen = {}
    for modname in ATTR_MODS:
        for q, fn in top_funcs(ctx, modname):
            for node, form in corner_arithmetic(fn):
                n += 1
                seen[q] = seen.get(q, 0) + 1
                ctx.check(gated(ctx.repo, ctx.repo.module(modname).name, fn, node), "C07-G1", ctx.site(modname, fn, node),
                          f"{q}: corner arithmetic `{form}` is not dominated by an is_triangular() gate",
                          "on a mesh with a quad or polygon the corner of face f is not 3*f+i: values are read from / written to the wrong corner",
                          note=f"{q}: `{form}` behind the triangular gate")
    for modname, q in (("attributes.attr_corners", "cotangent"), ("attributes.attr_edges", "cotan_weights")):
        fn = ctx.repo.func(modname, q)
        if not seen.get(q):
            ctx.fail("C07-G1", ctx.site(modname, fn), f"{q}: corner index arithmetic (3*f+k / first corner + 3 - iA - iB) not found",
                     "the function addresses face corners; the form of the corner index can no longer be related to the triangular gate")
    ctx.require_count("C07-G1 corner arithmetic sites", n, 1)


# ----------------------------------------------------------------------- C07-C1
def _vertex_of(e):
    """index expression X if e is `mesh.vertices[X]` (possibly wrapped in Vec(...))"""
    if isinstance(e, ast.Call) and au.call_tail(e) == "Vec" and len(e.args) == 1:
        e = e.args[0]
    if isinstance(e, ast.Subscript) and isinstance(e.value, ast.Attribute) and e.value.attr == "vertices":
        return e.slice
    return None


def c1_corner_centre(ctx):
    mod = "attributes.attr_corners"
    # (a) cotangent: cot[3*i+k] = cotan(., vertex k, .)
    fn = ctx.repo.func(mod, "cotangent")
    site = ctx.site(mod, fn)
    b = sym.Bindings(fn)
    n = 0
    for st in au.stmts(fn.body):
        if not (isinstance(st, ast.Assign) and len(st.targets) == 1 and isinstance(st.targets[0], ast.Subscript)
                and isinstance(st.value, ast.Call) and au.call_tail(st.value) == "cotan"):
            continue
        loops = [a for a in au.ancestors(st) if isinstance(a, ast.For)]
        lp = loops[0] if loops else None
        ok_loop = lp is not None and isinstance(lp.iter, ast.Call) and au.call_tail(lp.iter) == "enumerate" \
            and lp.iter.args and au.chain(lp.iter.args[0]) and au.chain(lp.iter.args[0])[-1] == "faces" \
            and isinstance(lp.target, ast.Tuple) and len(lp.target.elts) == 2 and isinstance(lp.target.elts[0], ast.Name) \
            and isinstance(lp.target.elts[1], (ast.Tuple, ast.List)) and len(lp.target.elts[1].elts) == 3 \
            and all(isinstance(x, ast.Name) for x in lp.target.elts[1].elts)
        if not ok_loop:
            ctx.fail("C07-C1", ctx.site(mod, fn, st), "cotangent: store of a corner cotangent is not inside `for i,(a,b,c) in enumerate(mesh.faces)`", "")
            continue
        n += 1
        fi = lp.target.elts[0].id
        row = [x.id for x in lp.target.elts[1].elts]
        p = sym.to_poly(b.resolve(st.targets[0].slice, at=st, keep=(fi,)))
        k = p.const_value()
        good_slot = p.coeff(fi) == Poly.const(3) and p.without(fi).is_const() and k in (0, 1, 2)
        args = [_vertex_of(b.resolve(a, at=st, keep=tuple(row))) for a in st.value.args]
        names = [a.id if isinstance(a, ast.Name) else None for a in args]
        ssite = ctx.site(mod, fn, st)
        if not good_slot or len(names) != 3 or None in names:
            ctx.fail("C07-C1", ssite, f"cotangent: `{au.src(st)}` is not of the form cot[3*{fi}+k] = cotan(p, q, r) over the vertices of the face",
                     "corner 3*f+k of a triangle is the corner at its k-th vertex")
            continue
        k = int(k)
        ctx.check(names[1] == row[k] and set(names) == set(row), "C07-C1", ssite,
                  f"cotangent: corner 3*{fi}+{k} (vertex {row[k]}) receives the cotangent of the angle at {names[1]} between {names[0]} and {names[2]}",
                  "geom.cotan(A, B, C) is the cotangent of the angle at B; the corner must get the angle at its own vertex, "
                  "spanned by the two other vertices of the face", note=f"corner 3f+{k} centred at its vertex")
    if n < 3:
        ctx.fail("C07-C1", site, f"cotangent: {n} store(s) `cot[3*f+k] = cotan(...)` found instead of one per corner of the triangle",
                 "each of the three corners of a face must receive its cotangent")
    # (b) corner_angles
    fn = ctx.repo.func(mod, "corner_angles")
    site = ctx.site(mod, fn)
    b = sym.Bindings(fn)
    stores = [st for st in au.stmts(fn.body) if isinstance(st, ast.Assign) and len(st.targets) == 1
              and isinstance(st.targets[0], ast.Subscript) and isinstance(st.value, ast.Call)
              and au.call_tail(st.value) == "angle_3pts"]
    if len(stores) != 1:
        ctx.fail("C07-C1", site, "corner_angles: store `angles[c] = angle_3pts(prev, v, next)` not found", "")
        return
    st = stores[0]
    loops = [a for a in au.ancestors(st) if isinstance(a, ast.For)]
    ok = False
    why = "loop nest is not `for face in mesh.faces: for i in range(len(face))`"
    if len(loops) >= 2 and isinstance(loops[0].target, ast.Name) and isinstance(loops[1].target, ast.Name):
        inner, outer = loops[0], loops[1]
        iv, face = inner.target.id, outer.target.id
        trip = b.resolve(inner.iter.args[0], at=inner) if isinstance(inner.iter, ast.Call) and au.call_tail(inner.iter) == "range" \
            and len(inner.iter.args) == 1 else None
        faces_ok = au.chain(outer.iter) and au.chain(outer.iter)[-1] == "faces"
        if trip is not None and au.src(trip) == f"len({face})" and faces_ok:
            offs = []
            for a in st.value.args:
                e = _vertex_of(b.resolve(a, at=st, keep=(iv, face)))
                o = None
                if isinstance(e, ast.Subscript) and isinstance(e.value, ast.Name) and e.value.id == face:
                    idx = e.slice
                    if isinstance(idx, ast.BinOp) and isinstance(idx.op, ast.Mod):
                        modulus = b.resolve(idx.right, at=st)
                        if au.src(modulus) == f"len({face})":
                            o = sym.mod_offset(ast.BinOp(left=idx.left, op=ast.Mod(), right=ast.Name(id="_n", ctx=ast.Load())), iv, "_n")
                    else:
                        o = sym.mod_offset(idx, iv)
                offs.append(o)
            ok = len(offs) == 3 and offs[1] == 0 and {offs[0], offs[2]} == {-1, 1}
            why = f"angle_3pts receives the face vertices at offsets {offs} from the loop index (central argument must be offset 0, the others -1 and +1)"
            ctx.check(ok, "C07-C1", ctx.site(mod, fn, st), "corner_angles: " + why,
                      "geom.angle_3pts(A, B, C) is the angle at B: the corner's own vertex must be the central argument and the end "
                      "points its two neighbours in the face", note="corner angle centred at face[i] between face[i-1] and face[i+1]")
            # corner counter
            key = st.targets[0].slice
            cnt_ok = False
            if isinstance(key, ast.Name):
                c = key.id
                blk, _ = au.enclosing_block(st)
                pos = [id(x) for x in blk].index(id(st))
                incs = [s for s in au.stmts(fn.body) if isinstance(s, (ast.AugAssign, ast.Assign)) and c in
                        [x for t in au.assign_targets(s) for x in au.assigned_names(t)]]
                init = [s for s in incs if isinstance(s, ast.Assign) and au.const(s.value) == 0 and au.parent(s) is fn]
                bumps = [s for s in incs if s not in init]
                one = len(bumps) == 1 and any(bumps[0] is x for x in blk[pos + 1:]) and (
                    (isinstance(bumps[0], ast.AugAssign) and isinstance(bumps[0].op, ast.Add) and au.const(bumps[0].value) == 1) or
                    (isinstance(bumps[0], ast.Assign) and sym.to_poly(bumps[0].value) == Poly.atom(c) + 1))
                cnt_ok = len(init) == 1 and one and not au.guards(st, stop=outer)
            ctx.check(cnt_ok, "C07-C1", ctx.site(mod, fn, st),
                      "corner_angles: the running corner index is not `c = 0` before the loops and `c += 1` once after each store",
                      "corners are numbered face by face in face order; a skipped or doubled increment shifts every following angle",
                      note="running corner index advanced once per (face, vertex)")
            return
    ctx.fail("C07-C1", site, "corner_angles: " + why, "")


# ----------------------------------------------------------------------- C07-M1
def _assigned_between(fn, names, a, b):
    """is any of `names` (re)bound by a top-level statement of fn from statement a (inclusive) up to b (exclusive)?"""
    seen = False
    for st in fn.body:
        if st is a:
            seen = True
        if st is b:
            return False
        if seen and any(sym.Bindings._assigns(st, n) for n in names):
            return True
    return False


def m1_mean_divisor(ctx):
    n = 0
    for q, fn in top_funcs(ctx, GLOB):
        if not q.startswith("mean_"):
            continue
        n += 1
        site = ctx.site(GLOB, fn)
        b = sym.Bindings(fn)
        rets = [s for s in au.stmts(fn.body) if isinstance(s, ast.Return)]
        if len(rets) != 1 or not (isinstance(rets[0].value, ast.BinOp) and isinstance(rets[0].value.op, ast.Div)
                                  and isinstance(rets[0].value.left, ast.Name)):
            ctx.fail("C07-M1", site, f"{q}: `return total / count` not found", "the mean is no longer total / number of terms")
            continue
        ret = rets[0]
        acc, div = ret.value.left.id, ret.value.right
        loops = [s for s in fn.body if isinstance(s, ast.For) and any(
            isinstance(x, ast.AugAssign) and isinstance(x.target, ast.Name) and x.target.id == acc and isinstance(x.op, ast.Add)
            or isinstance(x, ast.Assign) and isinstance(x.targets[0], ast.Name) and x.targets[0].id == acc
            for x in au.stmts(s.body))]
        if len(loops) != 1:
            ctx.fail("C07-M1", site, f"{q}: accumulation loop of `{acc}` not found", "")
            continue
        lp = loops[0]
        accs = [x for x in au.stmts(lp.body) if acc in [y for t in au.assign_targets(x) for y in au.assigned_names(t)]]
        unguarded = len(accs) == 1 and any(accs[0] is s for s in lp.body) and \
            not any(isinstance(s, (ast.Continue, ast.Break)) for s in au.stmts(lp.body))
        # trip count
        trip = None
        if isinstance(lp.iter, ast.Call) and au.call_tail(lp.iter) == "range" and len(lp.iter.args) == 1:
            trip = lp.iter.args[0]
        elif isinstance(lp.iter, ast.Call) and au.call_tail(lp.iter) == "enumerate" and lp.iter.args:
            trip = ast.Call(func=ast.Name(id="len", ctx=ast.Load()), args=[lp.iter.args[0]], keywords=[])
        elif not isinstance(lp.iter, ast.Call):
            trip = ast.Call(func=ast.Name(id="len", ctx=ast.Load()), args=[lp.iter], keywords=[])
        if trip is None:
            ctx.fail("C07-M1", site, f"{q}: trip count of the accumulation loop `{au.src(lp.iter)}` not recognised", "")
            continue
        # counter idiom: divisor is a local incremented once per iteration
        ok = False
        if isinstance(div, ast.Name):
            bumps = [x for x in lp.body if isinstance(x, ast.AugAssign) and isinstance(x.target, ast.Name) and x.target.id == div.id
                     and isinstance(x.op, ast.Add) and au.const(x.value) == 1]
            inits = [x for x in fn.body if isinstance(x, ast.Assign) and isinstance(x.targets[0], ast.Name)
                     and x.targets[0].id == div.id and au.const(x.value) == 0]
            others = [x for x in au.stmts(fn.body) if div.id in [y for t in au.assign_targets(x) for y in au.assigned_names(t)]]
            ok = len(bumps) == 1 and len(inits) == 1 and len(others) == 2
        if not ok:
            t_res, d_res = b.resolve(trip, at=lp), b.resolve(div, at=ret)
            same = au.same(t_res, d_res)
            moved = _assigned_between(fn, au.names(t_res) & au.names(d_res), lp, ret) if same else False
            ok = same and not moved
            # len(range(x)) == x for the sizes at hand; min(n, len) is what the loop really runs
        ctx.check(ok and unguarded, "C07-M1", site,
                  f"{q}: sums {au.src(trip)} terms but divides by {au.src(div)}" if unguarded else
                  f"{q}: the accumulation into `{acc}` is conditional, the divisor cannot equal the number of terms",
                  f"whenever `{au.src(div)}` differs from `{au.src(trip)}` (n larger than the number of elements) the result is not the "
                  f"mean of the terms that were summed", note=f"{q}: divisor equals the trip count")
    ctx.require_count("C07-M1 mean functions", n, 1)


# ----------------------------------------------------------------------- C07-M2
def _sum_over(e):
    """collection expression C if e is sum(C) / sum(f(x) for x in C) / sum([..for x in C]) else None"""
    if isinstance(e, ast.Call) and au.call_tail(e) == "sum" and len(e.args) >= 1:
        a = e.args[0]
        if isinstance(a, (ast.GeneratorExp, ast.ListComp)):
            if len(a.generators) == 1 and not a.generators[0].ifs:
                return a.generators[0].iter
            return False
        return a
    return None


def m2_barycentres(ctx):
    n = 0
    for modname in ALL_ATTR:
        for q, fn in top_funcs(ctx, modname):
            b = sym.Bindings(fn)
            for node in au.walk(fn):
                if not (isinstance(node, ast.BinOp) and isinstance(node.op, ast.Div)):
                    continue
                coll = _sum_over(node.left)
                if coll is None:
                    continue
                n += 1
                site = ctx.site(modname, fn, node)
                if coll is False:
                    ctx.fail("C07-M2", site, f"{q}: `{au.src(node)}` sums a filtered / nested collection", "the divisor cannot be checked")
                    continue
                d = b.resolve(node.right, at=node)
                c = b.resolve(coll, at=node)
                ok = isinstance(d, ast.Call) and au.call_tail(d) == "len" and len(d.args) == 1 and au.same(b.resolve(d.args[0], at=node), c)
                ctx.check(ok, "C07-M2", site,
                          f"{q}: `{au.src(node)}` sums over `{au.src(coll)}` but divides by `{au.src(node.right)}`",
                          "a barycentre is the sum of the points divided by their number; any other divisor moves it off the element",
                          note=f"{q}: sum over {au.src(coll)} divided by its length")
            # affine combinations of points  (pA + pB)/2
            for st in au.stmts(fn.body):
                if isinstance(st, ast.Assign) and isinstance(st.value, ast.BinOp) and isinstance(st.value.op, ast.Div) \
                        and isinstance(st.value.right, ast.Constant) and isinstance(st.value.left, ast.BinOp) \
                        and isinstance(st.value.left.op, ast.Add) and _sum_over(st.value.left) is None:
                    terms = H.additive_terms(st.value.left)
                    if not all(isinstance(t, ast.Name) and s == 1 for s, t in terms):
                        continue
                    n += 1
                    ok = au.const(st.value.right) == len(terms) and len({t.id for s, t in terms}) == len(terms)
                    ctx.check(ok, "C07-M2", ctx.site(modname, fn, st),
                              f"{q}: `{au.src(st.value)}` averages {len(terms)} points but divides by {au.src(st.value.right)}",
                              "coefficients of a mean must sum to one", note=f"{q}: mean of {len(terms)} points")
    ctx.require_count("C07-M2 barycentre divisions", n, 2)


# ----------------------------------------------------------------------- C07-W1
def _mode_holds(test, pol, mode, wname):
    """truth of a guard under weight == mode; None when the guard does not speak about the weight"""
    if wname is None or wname not in au.names(test):
        return None
    val = None
    if isinstance(test, ast.Compare) and len(test.ops) == 1 and isinstance(test.left, ast.Name) and test.left.id == wname:
        rhs = au.literal(test.comparators[0])
        op = test.ops[0]
        if isinstance(op, ast.Eq):
            val = mode == rhs
        elif isinstance(op, ast.NotEq):
            val = mode != rhs
        elif isinstance(op, ast.In) and rhs is not None:
            val = mode in rhs
        elif isinstance(op, ast.NotIn) and rhs is not None:
            val = mode not in rhs
    if val is None:
        return "?"
    return val == pol


def _if_chain_guards(node):
    """guards of node including the negated tests of earlier branches of if/elif chains (au.guards gives them already
    because an elif is an If in orelse)"""
    return au.guards(node)


def _canon(b, expr, at, key):
    e = b.resolve(expr, at=at)
    mapping = {}
    for a in au.ancestors(at):
        if isinstance(a, ast.For) and isinstance(a.iter, ast.Call) and au.call_tail(a.iter) == "enumerate" and a.iter.args \
                and isinstance(a.target, ast.Tuple) and len(a.target.elts) == 2 and all(isinstance(x, ast.Name) for x in a.target.elts):
            mapping[a.target.elts[1].id] = ast.Subscript(value=a.iter.args[0], slice=ast.Name(id=a.target.elts[0].id, ctx=ast.Load()),
                                                         ctx=ast.Load())
    e = sym.subst(e, mapping)
    if key:
        e = H.rename(e, {key: "$k"})
    return au.norm(e)


def _acc_term(st, base):
    """T if st is `base[k] = base[k] + T` / `base[k] += T` (base[k] any subscript of Name base) -> (key, T)"""
    if isinstance(st, ast.AugAssign) and isinstance(st.op, ast.Add) and isinstance(st.target, ast.Subscript) \
            and isinstance(st.target.value, ast.Name) and st.target.value.id == base:
        return st.target.slice, st.value
    if isinstance(st, ast.Assign) and len(st.targets) == 1 and isinstance(st.targets[0], ast.Subscript) \
            and isinstance(st.targets[0].value, ast.Name) and st.targets[0].value.id == base \
            and isinstance(st.value, ast.BinOp) and isinstance(st.value.op, ast.Add):
        t = st.targets[0]
        if au.same(st.value.left, ast.Subscript(value=t.value, slice=t.slice, ctx=ast.Load())) or au.norm(st.value.left) == au.norm(t).replace("Store()", "Load()"):
            return t.slice, st.value.right
        if au.norm(st.value.right) == au.norm(t).replace("Store()", "Load()"):
            return t.slice, st.value.left
    return None


def _div_of(st, base):
    if isinstance(st, ast.AugAssign) and isinstance(st.op, ast.Div) and isinstance(st.target, ast.Subscript) \
            and isinstance(st.target.value, ast.Name) and st.target.value.id == base:
        return st.target.slice, st.value
    if isinstance(st, ast.Assign) and len(st.targets) == 1 and isinstance(st.targets[0], ast.Subscript) \
            and isinstance(st.targets[0].value, ast.Name) and st.targets[0].value.id == base \
            and isinstance(st.value, ast.BinOp) and isinstance(st.value.op, ast.Div) \
            and au.norm(st.value.left) == au.norm(st.targets[0]).replace("Store()", "Load()"):
        return st.targets[0].slice, st.value.right
    return None


def w1_interpolation(ctx):
    n_modes = n_norm = 0
    for q, fn in top_funcs(ctx, INTERP):
        ps = au.params(fn)
        if len(ps) < 3:
            continue
        src, out = ps[1], ps[2]
        wname = "weight" if "weight" in ps else None
        site = ctx.site(INTERP, fn)
        b = sym.Bindings(fn)
        modes = [None]
        if wname:
            modes = None
            for c in au.calls(fn):
                if au.call_tail(c) == "check_argument" and len(c.args) >= 4:
                    lit = au.literal(c.args[3])
                    if lit:
                        modes = sorted(lit)
            if not modes:
                ctx.fail("C07-W1", site, f"{q}: the set of admissible weights (check_argument) not found", "")
                continue
        writes = [st for st in au.stmts(fn.body) if any(isinstance(t, ast.Subscript) and isinstance(t.value, ast.Name)
                                                        and t.value.id == out for t in au.assign_targets(st))]
        if not any(_acc_term(st, out) or (isinstance(st, ast.Assign) and _sum_over(st.value) is not None) for st in writes):
            if not q.startswith("scatter_"):
                ctx.fail("C07-W1", site, f"{q}: accumulation of {src}[..] into {out}[..] not found",
                         "an interpolation / averaging function must sum weighted values into its output; the weights cannot be paired with a normaliser")
            continue    # scatter functions: plain copies
        for mode in modes:
            def active(st):
                res = [_mode_holds(t, pol, mode, wname) for t, pol in au.guards(st)]
                return all(r in (None, True) for r in res), [t for (t, pol), r in zip(au.guards(st), res) if r is None or r == "?"]
            accs, divs, problems = [], [], []
            for st in writes:
                on, foreign = active(st)
                if not on:
                    continue
                if foreign:
                    problems.append(f"`{au.src(st)}` is conditional on `{au.src(foreign[0])}`")
                a, d = _acc_term(st, out), _div_of(st, out)
                if d:
                    divs.append((st, d[0], d[1]))
                elif a:
                    accs.append((st, a[0], a[1], "loop"))
                elif isinstance(st, ast.Assign) and _sum_over(st.value) is not None:
                    accs.append((st, st.targets[0].slice, st.value, "sum"))
                else:
                    problems.append(f"unrecognised write `{au.src(st)}`")
            n_modes += 1
            label = f"{q}[{mode}]" if mode else q
            if len(accs) != 1:
                problems.append(f"{len(accs)} accumulation statements into {out}")
            if not problems:
                st, key, term, form = accs[0]
                keyname = key.id if isinstance(key, ast.Name) else None
                want_div = None      # canonical divisor required, "none" for no division
                if form == "sum":
                    coll = _sum_over(term)
                    gen = term.args[0]
                    elt_ok = isinstance(gen, (ast.GeneratorExp, ast.ListComp)) and isinstance(gen.elt, ast.Subscript) \
                        and isinstance(gen.elt.value, ast.Name) and gen.elt.value.id == src
                    if coll is False or not elt_ok:
                        problems.append(f"`{au.src(term)}` is not a plain sum of {src}[x] over a collection")
                    else:
                        want_div = ("len", _canon(b, coll, st, keyname))
                else:
                    coef, num, den = H.factors(term)
                    vals = [x for x in num if isinstance(x, ast.Subscript) and isinstance(x.value, ast.Name) and x.value.id == src]
                    if len(vals) != 1 or any(src in au.names(x) for x in den):
                        problems.append(f"term `{au.src(term)}` is not (weight) * {src}[x]")
                    else:
                        w_num = [x for x in num if x is not vals[0]]
                        inner = [a for a in au.ancestors(st) if isinstance(a, ast.For)]
                        inner = inner[0] if inner else None
                        if not w_num and not den and coef == 1:
                            # unit weight: counter partner or length of the iterated collection
                            blk, _ = au.enclosing_block(st)
                            cnt = None
                            for s in blk or []:
                                for base in {t.value.id for t in au.assign_targets(s) if isinstance(t, ast.Subscript) and isinstance(t.value, ast.Name)} - {out}:
                                    a = _acc_term(s, base)
                                    if a and au.same(a[0], key) and au.const(a[1]) == 1:
                                        cnt = base
                            if cnt:
                                want_div = ("tot", cnt)
                            elif inner is not None:
                                want_div = ("len", _canon(b, inner.iter, st, keyname))
                        elif not w_num and coef == 1 and len(den) == 1 and isinstance(den[0], ast.Call) and au.call_tail(den[0]) == "len" \
                                and inner is not None and _canon(b, den[0].args[0], st, keyname) == _canon(b, inner.iter, st, keyname):
                            want_div = ("none",)
                        elif not w_num and coef == 1 and den:
                            problems.append(f"each term is divided by `{au.src(den[0])}` which is not the length of the summed collection `{au.src(inner.iter) if inner else '?'}`")
                        else:
                            blk, _ = au.enclosing_block(st)
                            tot = None
                            seen_partner = []
                            for s in blk or []:
                                for base in {t.value.id for t in au.assign_targets(s) if isinstance(t, ast.Subscript) and isinstance(t.value, ast.Name)} - {out}:
                                    a = _acc_term(s, base)
                                    if a and au.same(a[0], key):
                                        c2, n2, d2 = H.factors(a[1])
                                        seen_partner.append(au.src(a[1]))
                                        if c2 == coef and H.factor_key(n2, d2) == H.factor_key(w_num, den):
                                            tot = base
                            if tot:
                                want_div = ("tot", tot)
                            else:
                                wsrc = "*".join(au.src(x) for x in w_num) or "1"
                                problems.append(f"value is weighted by `{wsrc}` but the normaliser in the same block accumulates "
                                                f"{seen_partner or 'nothing'}")
                if not problems:
                    if mode == "sum":
                        if want_div and want_div[0] == "tot":
                            want_div = ("none",)
                        elif want_div and want_div[0] == "len":
                            want_div = ("none",)
                    if want_div is None:
                        problems.append("no normaliser could be associated with the accumulation")
                    elif want_div[0] == "none":
                        if divs:
                            problems.append(f"`{au.src(divs[0][0])}` divides a result that is already normalised / documented as a plain sum")
                    else:
                        n_norm += 1
                        if len(divs) != 1:
                            problems.append(f"{len(divs)} final divisions of {out} (expected exactly one)")
                        else:
                            dst, dkey, dexpr = divs[0]
                            dk = dkey.id if isinstance(dkey, ast.Name) else None
                            loopvars = [x for a in au.ancestors(dst) if isinstance(a, ast.For) for x in au.assigned_names(a.target)]
                            if dk is None or dk not in loopvars:
                                problems.append(f"`{au.src(dst)}` does not run over the elements of the output")
                            elif want_div[0] == "len":
                                d = b.resolve(dexpr, at=dst)
                                got = _canon(b, d.args[0], dst, dk) if isinstance(d, ast.Call) and au.call_tail(d) == "len" and len(d.args) == 1 else None
                                if got != want_div[1]:
                                    problems.append(f"un-weighted mean divides by `{au.src(dexpr)}`, not by the length of the collection that was summed")
                            else:
                                want = ast.Subscript(value=ast.Name(id=want_div[1], ctx=ast.Load()), slice=ast.Name(id=dk, ctx=ast.Load()), ctx=ast.Load())
                                if not au.same(dexpr, want):
                                    problems.append(f"result is divided by `{au.src(dexpr)}` instead of the accumulated normaliser `{want_div[1]}[{dk}]`")
            ctx.check(not problems, "C07-W1", site, f"{label}: " + "; ".join(problems),
                      "interpolating a constant attribute must return that constant: the weights that multiply the values must be the "
                      "ones that are summed into the divisor", note=f"{label}: weights and normaliser agree")
    ctx.require_count("C07-W1 interpolation modes", n_modes, 4)
    ctx.require_count("C07-W1 normalisation sites", n_norm, 2)


# ----------------------------------------------------------------------- C07-A1
def _geom_arity(ctx, call):
    """number of positional parameters of the geometry primitive called as geom.X(...) / X(...)"""
    name = au.call_tail(call)
    m = ctx.repo.module(GEOM)
    fn = m.funcs.get(name)
    if fn is None or fn.args.vararg is not None:
        return None
    return len(fn.args.args)


def a1_area_volume(ctx):
    mod = "attributes.attr_faces"
    fn = ctx.repo.func(mod, "face_area")
    site = ctx.site(mod, fn)
    b = sym.Bindings(fn)
    n = 0
    # dispatch on the number of vertices
    for st in au.stmts(fn.body):
        if not (isinstance(st, ast.If) and isinstance(st.test, ast.Compare) and len(st.test.ops) == 1
                and isinstance(st.test.ops[0], ast.Eq) and isinstance(au.const(st.test.comparators[0]), int)):
            continue
        cnt = b.resolve(st.test.left, at=st)
        if not (isinstance(cnt, ast.Call) and au.call_tail(cnt) == "len"):
            continue
        coll = cnt.args[0]
        k = au.const(st.test.comparators[0])
        for c in [c for s in st.body for c in au.calls(s)]:
            if len(c.args) == 1 and isinstance(c.args[0], ast.Starred):
                n += 1
                ar = _geom_arity(ctx, c)
                same_coll = au.same(b.resolve(c.args[0].value, at=st), coll)
                ctx.check(ar == k and same_coll, "C07-A1", ctx.site(mod, fn, c),
                          f"face_area: faces with {k} vertices are sent to `{au.call_tail(c)}` which takes {ar} points"
                          + ("" if same_coll else " (not applied to the vertices that were counted)"),
                          "the area primitive must receive exactly the vertices of the face", note=f"{k}-gons -> {au.call_tail(c)}/{ar}")
    if n < 2:
        ctx.fail("C07-A1", site, f"face_area: dispatch on the number of vertices to the triangle / quad primitives not found ({n} branch(es) recognised)",
                 "triangles and quads are measured by primitives of matching arity")
    # all vertices of the face are collected
    pts = [st for st in au.stmts(fn.body) if isinstance(st, ast.Assign) and isinstance(st.value, ast.ListComp)]
    ok = False
    for st in pts:
        g = st.value.generators
        if len(g) == 1 and not g[0].ifs and isinstance(g[0].iter, ast.Subscript) and au.chain(g[0].iter.value) \
                and au.chain(g[0].iter.value)[-1] == "faces" and not isinstance(g[0].iter.slice, ast.Slice) \
                and isinstance(_vertex_of(st.value.elt), ast.Name) and isinstance(g[0].target, ast.Name) \
                and _vertex_of(st.value.elt).id == g[0].target.id:
            ok = True
    ctx.check(ok, "C07-A1", site, "face_area: the point list is not `[mesh.vertices[u] for u in mesh.faces[T]]` (all vertices, unfiltered)",
              "every vertex of the face contributes to its area")
    # polygon fan
    fans = [st for st in au.stmts(fn.body) if isinstance(st, ast.AugAssign) and isinstance(st.value, ast.Call)
            and au.call_tail(st.value) == "triangle_area"]
    if len(fans) != 1:
        ctx.fail("C07-A1", site, "face_area: polygon fan `area[T] += triangle_area(p[i], p[i+1], centre)` not found", "")
    else:
        st = fans[0]
        lps = [a for a in au.ancestors(st) if isinstance(a, ast.For)]
        lp = lps[0] if lps else None
        iv = lp.target.id if lp is not None and isinstance(lp.target, ast.Name) else None
        trip = b.resolve(lp.iter.args[0], at=lp) if lp is not None and isinstance(lp.iter, ast.Call) and au.call_tail(lp.iter) == "range" and len(lp.iter.args) == 1 else None
        offs, centre, colls = [], 0, set()
        for a in st.value.args:
            e = b.resolve(a, at=st, keep=(iv,))
            if isinstance(e, ast.Subscript) and not isinstance(e.slice, ast.Slice):
                idx = e.slice
                o = None
                if isinstance(idx, ast.BinOp) and isinstance(idx.op, ast.Mod):
                    if trip is not None and au.same(b.resolve(idx.right, at=st), trip):
                        o = sym.mod_offset(ast.BinOp(left=idx.left, op=ast.Mod(), right=ast.Name(id="_n", ctx=ast.Load())), iv, "_n")
                else:
                    o = sym.mod_offset(idx, iv)
                offs.append(o)
                colls.add(au.norm(e.value))
            elif isinstance(e, ast.BinOp) and isinstance(e.op, ast.Div) and _sum_over(e.left) is not None:
                centre += 1
        trip_ok = trip is not None and isinstance(trip, ast.Call) and au.call_tail(trip) == "len" and len(colls) == 1 \
            and au.norm(trip.args[0]) in colls
        ok = sorted(offs, key=lambda x: (x is None, x)) in ([0, 1], [-1, 0]) and centre == 1 and trip_ok \
            and isinstance(st.op, ast.Add) and lp is not None and not au.guards(st, stop=lp)
        ctx.check(ok, "C07-A1", ctx.site(mod, fn, st),
                  f"face_area: the polygon fan uses point offsets {offs} modulo the loop length with {centre} centre argument(s) "
                  f"(expected consecutive points i, i+1 modulo the number of points and the barycentre, added for every i)",
                  "the fan must cover every side of the polygon exactly once", note="fan over consecutive sides, all i")
    # cell_volume
    mod = "attributes.attr_cells"
    fn = ctx.repo.func(mod, "cell_volume")
    site = ctx.site(mod, fn)
    b = sym.Bindings(fn)
    stores = [st for st in au.stmts(fn.body) if isinstance(st, ast.Assign) and isinstance(st.targets[0], ast.Subscript)
              and any(au.call_tail(c) == "det_3x3" for c in au.calls(st.value))]
    if len(stores) != 1:
        ctx.fail("C07-A1", site, "cell_volume: `volume[c] = abs(det_3x3(...))/6` not found", "")
        return
    st = stores[0]
    lp = [a for a in au.ancestors(st) if isinstance(a, ast.For)]
    row = []
    if lp and isinstance(lp[0].target, ast.Tuple) and len(lp[0].target.elts) == 2 and isinstance(lp[0].target.elts[1], (ast.Tuple, ast.List)):
        row = [x.id for x in lp[0].target.elts[1].elts if isinstance(x, ast.Name)]
    v = st.value
    det = [c for c in au.calls(v) if au.call_tail(c) == "det_3x3"][0]
    shape = isinstance(v, ast.BinOp) and isinstance(v.op, ast.Div) and au.const(v.right) == 6 and isinstance(v.left, ast.Call) \
        and au.call_tail(v.left) in ("abs", "fabs") and v.left.args and v.left.args[0] is det
    edges = []
    for a in det.args:
        e = b.resolve(a, at=st, keep=tuple(row))
        if isinstance(e, ast.BinOp) and isinstance(e.op, ast.Sub):
            x, y = _vertex_of(e.left), _vertex_of(e.right)
            edges.append((x.id if isinstance(x, ast.Name) else None, y.id if isinstance(y, ast.Name) else None))
    ok = shape and len(edges) == 3 and len(row) == 4 and spans_simplex(edges, row)
    ctx.check(ok, "C07-A1", ctx.site(mod, fn, st),
              f"cell_volume: `{au.src(v)}` is not |det(three independent edge vectors of the tetrahedron)| / 6 (edges found: {edges})",
              "the volume of a tetrahedron is a sixth of the absolute determinant of three edges sharing a vertex",
              note="tet volume = |det(A-D, B-D, C-D)|/6")
    gate = None
    for s in fn.body:
        if s is (lp[-1] if lp else None):
            break
        if isinstance(s, ast.If) and any(au.call_tail(c) == "is_tetrahedral" for c in au.calls(s.test)) and flow.always_terminates(s.body):
            gate = s
    ctx.check(gate is not None, "C07-A1", site, "cell_volume: the tetrahedral gate does not precede the per-cell loop",
              "cells with more than four vertices cannot be unpacked / measured with the tetrahedron formula")


# ----------------------------------------------------------------------- C07-X1
def _strip(e):
    """remove Vec(...) / Vec.normalized(...) wrappers"""
    while isinstance(e, ast.Call) and len(e.args) == 1 and au.call_tail(e) in ("Vec", "normalized"):
        e = e.args[0]
    return e


def _diff(e):
    """(minuend name, subtrahend name) of  X - Y  (Vec wrappers ignored)"""
    e = _strip(e)
    if isinstance(e, ast.BinOp) and isinstance(e.op, ast.Sub):
        l, r = _strip(e.left), _strip(e.right)
        if isinstance(l, ast.Name) and isinstance(r, ast.Name):
            return l.id, r.id
    return None


def _det_int(m):
    if len(m) == 1:
        return m[0][0]
    return sum((-1) ** j * m[0][j] * _det_int([r[:j] + r[j + 1:] for r in m[1:]]) for j in range(len(m)))


def spans_simplex(edges, points):
    """edges: [(x, y)] standing for the vectors P_x - P_y between the vertices `points` of a simplex.  True when their
    determinant equals +-(the determinant of the edges leaving one vertex), i.e. the same volume / area for every input."""
    points = list(points)
    if len(edges) != len(points) - 1 or any(x not in points or y not in points for x, y in edges):
        return False
    rows = []
    for x, y in edges:
        r = [0] * len(points)
        r[points.index(x)] += 1
        r[points.index(y)] -= 1
        rows.append(r[:-1])
    return abs(_det_int(rows)) == 1



def _single_return(fn):
    rets = [s for s in au.stmts(fn.body) if isinstance(s, ast.Return) and s.value is not None]
    return rets[0] if len(rets) == 1 else None


def _comp_atom(e):
    if isinstance(e, ast.Subscript) and isinstance(e.value, ast.Name):
        i = au.literal(e.slice)
        if isinstance(i, int):
            return f"{e.value.id}{i}"
        if isinstance(i, tuple) and all(isinstance(x, int) for x in i):
            return e.value.id + "".join(map(str, i))
    return None


def _find_call(e, tails):
    for n in ast.walk(e):
        if isinstance(n, ast.Call) and au.call_tail(n) in tails:
            return n
    return None


def x1_primitives(ctx):
    R = "C07-X1"
    G = GEOM

    def fn_site(name):
        fn = ctx.repo.func(G, name)
        return fn, ctx.site(G, fn), sym.Bindings(fn)

    # cross
    fn, site, b = fn_site("cross")
    ret = _single_return(fn)
    ps = au.params(fn)
    ok = False
    if ret is not None and isinstance(ret.value, ast.Call) and len(ret.value.args) == 3 and len(ps) == 2:
        A, B = ps
        at = lambda i, j: Poly.atom(f"{A}{i}") * Poly.atom(f"{B}{j}")
        want = [at(1, 2) - at(2, 1), at(2, 0) - at(0, 2), at(0, 1) - at(1, 0)]
        got = [sym.to_poly(x, atom_of=_comp_atom) for x in ret.value.args]
        ok = got == want
    ctx.check(ok, R, site, "cross: components are not (A1*B2-A2*B1, A2*B0-A0*B2, A0*B1-A1*B0)",
              "every normal, area and angle of the library goes through this cross product", note="cross product polynomial identity")
    # det_3x3 : Sarrus == Leibniz
    fn, site, b = fn_site("det_3x3")
    ret = _single_return(fn)
    ok = False
    if ret is not None:
        e = b.resolve(ret.value, at=ret)
        names = {n.value.id for n in ast.walk(e) if isinstance(n, ast.Subscript) and isinstance(n.value, ast.Name)}
        if len(names) == 1:
            m = names.pop()
            a = lambda i, j: Poly.atom(f"{m}{i}{j}")
            want = Poly()
            for perm, sgn in (((0, 1, 2), 1), ((1, 2, 0), 1), ((2, 0, 1), 1), ((0, 2, 1), -1), ((1, 0, 2), -1), ((2, 1, 0), -1)):
                want = want + (a(0, perm[0]) * a(1, perm[1]) * a(2, perm[2])).scale(sgn)
            ok = sym.to_poly(e, atom_of=_comp_atom) == want
    ctx.check(ok, R, site, "det_3x3: the returned expression is not the 3x3 determinant polynomial (rule of Sarrus)",
              "cell volumes are a sixth of this determinant", note="Sarrus = Leibniz determinant")
    # det_2x2
    fn, site, b = fn_site("det_2x2")
    ret = _single_return(fn)
    ps = au.params(fn)
    comp = {}
    shape_ok = True
    for st in fn.body:
        if isinstance(st, ast.If):
            for branch in (st.body, st.orelse):
                for s in branch:
                    if isinstance(s, ast.Assign) and isinstance(s.targets[0], ast.Tuple) and isinstance(s.value, ast.Tuple) \
                            and len(s.targets[0].elts) == len(s.value.elts) == 2:
                        for t, v in zip(s.targets[0].elts, s.value.elts):
                            c = None
                            if isinstance(v, ast.Attribute) and isinstance(v.value, ast.Name) and v.attr in ("real", "imag"):
                                c = (v.value.id, 0 if v.attr == "real" else 1)
                            elif isinstance(v, ast.Subscript) and isinstance(v.value, ast.Name) and au.const(v.slice) in (0, 1):
                                c = (v.value.id, au.const(v.slice))
                            if c is None or comp.setdefault(t.id, c) != c:
                                shape_ok = False
    ok = False
    if ret is not None and shape_ok and len(ps) == 2 and len(comp) == 4:
        got = sym.to_poly(ret.value, atom_of=lambda e: f"{comp[e.id][0]}{comp[e.id][1]}" if isinstance(e, ast.Name) and e.id in comp else None)
        A, B = ps
        ok = got == Poly.atom(f"{A}0") * Poly.atom(f"{B}1") - Poly.atom(f"{A}1") * Poly.atom(f"{B}0")
    ctx.check(ok, R, site, "det_2x2: the result is not A.x*B.y - A.y*B.x with the same component naming in the complex and array branches",
              "2D areas / line intersections use this determinant for both complex and array inputs", note="det_2x2, both input forms")
    # triangle_area
    fn, site, b = fn_site("triangle_area")
    ret = _single_return(fn)
    ok = False
    if ret is not None and isinstance(ret.value, ast.BinOp) and isinstance(ret.value.op, ast.Div) and au.const(ret.value.right) == 2:
        c = _find_call(ret.value.left, ("cross",))
        if c is not None and len(c.args) == 2 and _find_call(ret.value.left, ("norm",)) is not None:
            d = [_diff(b.resolve(x, at=ret)) for x in c.args]
            ok = None not in d and spans_simplex(d, au.params(fn))
    ctx.check(ok, R, site, "triangle_area: not |cross(e1, e2)| / 2 with e1, e2 two different edge vectors of the triangle",
              "area of a triangle is half the norm of the cross product of two edges sharing a vertex", note="triangle area")
    # quad_area : mean of the two diagonal splits
    fn, site, b = fn_site("quad_area")
    ret = _single_return(fn)
    ok = False
    if ret is not None and isinstance(ret.value, ast.BinOp) and isinstance(ret.value.op, ast.Div) and au.const(ret.value.right) == 2:
        terms = H.additive_terms(ret.value.left)
        sets = []
        for s, t in terms:
            if s == 1 and isinstance(t, ast.Call) and au.call_tail(t) == "triangle_area" and all(isinstance(a, ast.Name) for a in t.args):
                sets.append(frozenset(a.id for a in t.args))
        ps = au.params(fn)
        import itertools as _it
        ok = len(terms) == 4 and len(sets) == 4 and set(sets) == {frozenset(c) for c in _it.combinations(ps, 3)} and len(ps) == 4
    ctx.check(ok, R, site, "quad_area: not half the sum of the four triangles (both diagonal splits) of the quad",
              "each diagonal split covers the quad once; the mean of the two splits needs all four triangles", note="quad area = mean of both splits")
    # aspect_ratio
    fn, site, b = fn_site("aspect_ratio")
    ret = _single_return(fn)
    ok = False
    if ret is not None:
        e = b.resolve(ret.value, at=ret)
        if isinstance(e, ast.BinOp) and isinstance(e.op, ast.Div):
            dist = {}

            def atom(x):
                if isinstance(x, ast.Call) and au.call_tail(x) == "distance" and len(x.args) >= 2 and all(isinstance(a, ast.Name) for a in x.args[:2]):
                    key = frozenset(a.id for a in x.args[:2])
                    return dist.setdefault(key, f"d{len(dist)}")
                return None
            num, den = sym.to_poly(e.left, atom_of=atom), sym.to_poly(e.right, atom_of=atom)
            ps = au.params(fn)
            if len(dist) == 3 and all(len(k) == 2 and k <= set(ps) for k in dist):
                x, y, z = (Poly.atom(a) for a in sorted(dist.values()))
                ok = num == x * y * z and den == (y + z - x) * (x + z - y) * (x + y - z)
    ctx.check(ok, R, site, "aspect_ratio: not abc / ((b+c-a)(a+c-b)(a+b-c)) over the three side lengths",
              "circumradius / (2 inradius) of a triangle with sides a, b, c", note="aspect ratio polynomial identity")
    # angle primitives: both vectors leave the central (second) point; atan2(sine, cosine)
    for name in ("angle_3pts", "cotan", "signed_angle_3pts"):
        fn, site, b = fn_site(name)
        ret = _single_return(fn)
        ps = au.params(fn)
        ok = False
        detail = ""
        if ret is not None and len(ps) >= 3:
            e = b.resolve(ret.value, at=ret)
            vecs = None
            if name == "signed_angle_3pts":
                if isinstance(e, ast.Call) and len(e.args) >= 2:
                    vecs = [_diff(e.args[0]), _diff(e.args[1])]
                    order_ok = True
            else:
                c = _find_call(e, ("cross",))
                d = _find_call(e, ("dot",))
                order_ok = False
                if name == "angle_3pts" and isinstance(e, ast.Call) and au.call_tail(e) == "atan2" and len(e.args) == 2:
                    order_ok = _find_call(e.args[0], ("cross",)) is not None and _find_call(e.args[1], ("dot",)) is not None \
                        and _find_call(e.args[0], ("dot",)) is None
                if name == "cotan" and isinstance(e, ast.BinOp) and isinstance(e.op, ast.Div):
                    order_ok = _find_call(e.left, ("dot",)) is not None and _find_call(e.left, ("cross",)) is None \
                        and _find_call(e.right, ("cross",)) is not None and _find_call(e.right, ("norm",)) is not None
                if c is not None and d is not None and len(c.args) == 2 and len(d.args) == 2:
                    vecs = [_diff(c.args[0]), _diff(c.args[1])]
                    dv = [_diff(d.args[0]), _diff(d.args[1])]
                    if None in dv or None in vecs or set(dv) != set(vecs):
                        vecs = None
            if vecs and None not in vecs:
                away = vecs[0][1] == vecs[1][1] == ps[1] and {vecs[0][0], vecs[1][0]} == {ps[0], ps[2]}
                towards = vecs[0][0] == vecs[1][0] == ps[1] and {vecs[0][1], vecs[1][1]} == {ps[0], ps[2]}
                ok = order_ok and (away or towards)    # negating both vectors changes neither sine nor cosine
                detail = f" (vectors {vecs})"
        ctx.check(ok, R, site,
                  f"{name}: not built from the two vectors leaving the central point `{ps[1] if len(ps) > 1 else '?'}`"
                  f" with sine from the cross product and cosine from the dot product{detail}",
                  "corner angles and cotangents are defined at the middle argument", note=f"{name}: angle at the second argument")
    for name in ("signed_angle_2vec3D", "angle_2vec3D"):
        fn, site, b = fn_site(name)
        ret = _single_return(fn)
        ok = False
        if ret is not None:
            e = b.resolve(ret.value, at=ret)
            at2 = _find_call(e, ("atan2",))
            if at2 is not None and len(at2.args) == 2:
                ok = _find_call(at2.args[0], ("cross",)) is not None and _find_call(at2.args[0], ("dot",)) is None \
                    and _find_call(at2.args[1], ("dot",)) is not None and _find_call(at2.args[1], ("cross",)) is None
                c, d = _find_call(at2.args[0], ("cross",)), _find_call(at2.args[1], ("dot",))
                ps = au.params(fn)
                ok = ok and c is not None and d is not None and [au.src(a) for a in c.args] == ps[:2] and {au.src(a) for a in d.args} == set(ps[:2])
        ctx.check(ok, R, site, f"{name}: not atan2(|V1 x V2|, V1 . V2)", "angle between two vectors", note=f"{name}: atan2(sine, cosine)")
    # face_basis right handed:  Z = X x (C - A),  Y = Z x X
    fn, site, b = fn_site("face_basis")
    ret = _single_return(fn)
    ok = False
    if ret is not None and isinstance(ret.value, ast.Tuple) and len(ret.value.elts) == 3 and all(isinstance(x, ast.Name) for x in ret.value.elts):
        X, Y, Z = (x.id for x in ret.value.elts)
        dX, dY, dZ = (b.reaching(n, ret) for n in (X, Y, Z))
        cz, cy = (_strip(dZ) if dZ is not None else None), (_strip(dY) if dY is not None else None)
        if dX is not None and _diff(dX) and isinstance(cz, ast.Call) and au.call_tail(cz) == "cross" and isinstance(cy, ast.Call) and au.call_tail(cy) == "cross":
            base = _diff(dX)
            z_ok = au.src(cz.args[0]) == X and _diff(cz.args[1]) is not None and _diff(cz.args[1])[1] == base[1] and _diff(cz.args[1])[0] != base[0]
            y_ok = [au.src(a) for a in cy.args] == [Z, X]
            norm_ok = all(isinstance(d, ast.Call) and au.call_tail(d) == "normalized" for d in (dX, dY, dZ))
            ok = z_ok and y_ok and norm_ok
    ctx.check(ok, R, site, "face_basis: not the right-handed frame X = AB/|AB|, Z = X x AC normalised, Y = Z x X",
              "local face coordinates (gradient, connections, normals) assume cross(X, Y) = Z = the face normal", note="right-handed face frame")


# ----------------------------------------------------------------------- C07-E1
def edge_sides_rule(ctx, rule, targets):
    """targets: [(module, qualname)] of per-edge functions that must visit the faces on both sides of every edge"""
    n = 0
    for modname, q in targets:
        fn = ctx.repo.func(modname, q)
        sites = H.edge_side_sites(fn)
        if not sites:
            ctx.fail(rule, ctx.site(modname, fn), f"{q}: visit of the faces on the two sides of each edge (direct_face(A,B) / direct_face(B,A) or "
                     f"edge_to_faces) inside `for e,(A,B) in enumerate(mesh.edges)` not found",
                     "a per-edge quantity built from the adjacent faces must look at both sides of the edge")
            continue
        for s in sites:
            n += 1
            if not s["problems"]:
                ctx.ok(rule, ctx.site(modname, fn, s["loop"]), f"{q}: both sides of edge {s['ends']} are visited independently ({s['kind']})")
            for node, text in s["problems"]:
                ctx.fail(rule, ctx.site(modname, fn, node), f"{q}: {text}",
                         "every face adjacent to an edge contributes, whichever side it lies on: an edge of the border whose only face is on the "
                         "second side would otherwise get no contribution at all")
    return n


def e1_edge_sides(ctx):
    n = edge_sides_rule(ctx, "C07-E1", [("attributes.attr_edges", "cotan_weights")])
    # any other per-edge function of the attribute modules using the same idiom is held to the same rule
    for modname in ATTR_MODS:
        for q, fn in top_funcs(ctx, modname):
            if q == "cotan_weights":
                continue
            for s in H.edge_side_sites(fn):
                n += 1
                for node, text in s["problems"]:
                    ctx.fail("C07-E1", ctx.site(modname, fn, node), f"{q}: {text}", "every face adjacent to an edge contributes")
                if not s["problems"]:
                    ctx.ok("C07-E1", ctx.site(modname, fn, s["loop"]), f"{q}: both sides visited")
    ctx.require_count("C07-E1 two-sided edge loops", n, 1)


# ----------------------------------------------------------------------- C07-E2
_E2_FIXTURE = """
def f(mesh, normals):
    for iT, T in enumerate(mesh.faces):
        pA, pB, pC = (mesh.vertices[u] for u in T[:3])
        N = geom.cross(pB - pA, pC - pA)
        if geom.norm(N) < 1e-8: continue
        normals[iT] = Vec.normalized(N)
"""


def threshold_rule(ctx, rule, modules):
    """comparisons of a dimensional expression with a non-zero literal, decided by the forward interpreter (c0708_geo): inside the
    listed modules, and inside the functions of geometry.py they call, with the degrees of the actual arguments"""
    from ..rules import c0708_geo as GEO
    tree = ast.parse(_E2_FIXTURE)
    for x in ast.walk(tree):
        for c in ast.iter_child_nodes(x):
            c._parent = x
    world = GEO.World(ctx.repo)
    fx = GEO.Interp(world, "mouette." + GEOM, tree.body[0]).run().compares
    if len(fx) != 1 or fx[0][3] != 2:
        raise AnalysisError(f"{rule}: built-in fixture (|cross| < 1e-8, degree 2) not recognised by the matcher: {fx}")
    seen = {}       # id(compare node) -> (module, fn, node, expr, lit, deg, via)
    mixed = []      # comparisons whose two sides are both dimensional
    for modname in modules:
        m = ctx.repo.module(modname)
        for q, fn in m.funcs.items():
            if "<locals>" in q:
                continue
            world = GEO.World(ctx.repo)
            it = GEO.Interp(world, m.name, fn).run()
            found = [(m.name, fn, c, None) for c in it.compares]
            mixed += [(m.name, fn, c, None) for c in it.mixed]
            for (cm, cname), lst in world.calls.items():
                cfn = ctx.repo.modules[cm].funcs[cname]
                for amap, sub in lst:
                    found += [(cm, cfn, c, q) for c in sub.compares]
                    mixed += [(cm, cfn, c, q) for c in sub.mixed]
            for cm, cfn, (node, expr, lit, deg), via in found:
                prev = seen.get(id(node))
                if prev is None or (prev[5] == 0 and deg != 0):
                    seen[id(node)] = (cm, cfn, node, expr, lit, deg, via)
    n = 0
    for cm, cfn, node, expr, lit, deg, via in seen.values():
        n += 1
        q = cfn.name
        how = f" (reached from {via} with arguments built from mesh.vertices)" if via else ""
        ctx.check(deg == 0, rule, ctx.site(cm, cfn, node),
                  f"{q}: `{au.src(node)}` compares `{au.src(expr)}` (a length to the power {deg:g}) with the absolute constant {lit:g}{how}",
                  "the outcome of the test changes under a uniform scaling of the mesh: well-shaped elements of a mesh given in small "
                  "(or large) units are treated differently, so the quantity neither scales with the right power nor stays invariant",
                  note=f"{q}: `{au.src(node)}` is dimensionless")
    done = {}
    for cm, cfn, (node, l, dl, r, dr), via in mixed:
        if done.get(id(node), True):          # a homogeneous reading never hides an inhomogeneous one of the same test
            done[id(node)] = (dl == dr)
            if dl != dr:
                bad_mixed = (cm, cfn, node, l, dl, r, dr, via)
                done[id(node)] = False
                ctx.fail(rule, ctx.site(cm, cfn, node),
                         f"{cfn.name}: `{au.src(node)}` compares `{au.src(l)}` (a length to the power {dl:g}) with `{au.src(r)}` "
                         f"(a length to the power {dr:g})" + (f" (reached from {via} with arguments built from mesh.vertices)" if via else ""),
                         "the two sides of the test scale differently under a uniform scaling of the mesh, so its outcome depends on the unit")
    for k, homogeneous in done.items():
        if homogeneous:
            n += 1
            ctx.ok(rule, ctx.site(GEOM, "<module>"), "a comparison of two dimensional expressions is homogeneous")
    return n


def e2_absolute_thresholds(ctx):
    n = threshold_rule(ctx, "C07-E2", ALL_ATTR + [GEOM])
    ctx.require_count("C07-E2 comparisons with a literal of known dimension", n, 1)


# ----------------------------------------------------------------------- C07-Z1
FRESH_CALLS = {"create_attribute", "ArrayAttribute", "Attribute", "zeros", "ones", "full", "empty", "dict", "list", "set", "zeros_like"}
# Output attributes that the pinned code accumulates onto without resetting them (every caller in the repository passes a
# freshly built attribute).  Frozen so that the rule stays silent on the pinned behaviour; reported as an observation.
Z1_PINNED_NO_RESET = {
    ("attributes.interpolate", "interpolate_faces_to_vertices", "vattr"),
    ("attributes.interpolate", "average_corners_to_vertices", "vattr"),
    ("attributes.interpolate", "average_corners_to_faces", "fattr"),
}


def _is_fresh(e):
    if isinstance(e, ast.IfExp):
        return _is_fresh(e.body) and _is_fresh(e.orelse)
    if isinstance(e, ast.Call):
        return au.call_tail(e) in FRESH_CALLS
    if isinstance(e, (ast.List, ast.Dict, ast.Set, ast.ListComp, ast.DictComp)):
        return True
    if isinstance(e, ast.Constant) and isinstance(e.value, (int, float)):
        return True
    return False


def _rmw(st):
    """(base name, key) if st reads and rewrites base[key] (+=, -=, base[k] = base[k] + ..)"""
    if isinstance(st, ast.AugAssign) and isinstance(st.target, ast.Subscript) and isinstance(st.target.value, ast.Name) \
            and isinstance(st.op, (ast.Add, ast.Sub)):
        return st.target.value.id, st.target.slice
    if isinstance(st, ast.Assign) and len(st.targets) == 1 and isinstance(st.targets[0], ast.Subscript) \
            and isinstance(st.targets[0].value, ast.Name) and isinstance(st.value, ast.BinOp) and isinstance(st.value.op, (ast.Add, ast.Sub)):
        key = au.norm(st.targets[0]).replace("Store()", "Load()")
        if any(au.norm(x) == key for x in (st.value.left, st.value.right)):
            return st.targets[0].value.id, st.targets[0].slice
    return None


def _top_stmt(fn, node):
    top = node
    while au.parent(top) is not fn and au.parent(top) is not None:
        top = au.parent(top)
    return top


def z1_reset_before_accumulate(ctx):
    n = 0
    for modname in ALL_ATTR:
        for q, fn in top_funcs(ctx, modname):
            params = set(au.params(fn))
            done = set()
            for st in au.stmts(fn.body):
                r = _rmw(st)
                if not r or r[0] in done:
                    continue
                base, key = r
                done.add(base)
                n += 1
                site = ctx.site(modname, fn, st)
                binds = [v for s in au.stmts(fn.body) for nm, v in sym.split_assign(s) if nm == base]
                other = [s for s in au.stmts(fn.body) if sym.Bindings._assigns(s, base, deep=False) and not list(sym.split_assign(s))]
                fresh = bool(binds) and base not in params and not other and all(_is_fresh(v) for v in binds)
                # explicit reset dominating the accumulation: base.clear() at the top level before it, or base[key] = const in the
                # same loop body before it
                top = _top_stmt(fn, st)
                cleared = False
                for s in fn.body:
                    if s is top:
                        break
                    if isinstance(s, ast.Expr) and isinstance(s.value, ast.Call) and au.call_tail(s.value) in ("clear", "fill") \
                            and isinstance(s.value.func, ast.Attribute) and au.src(s.value.func.value) == base:
                        cleared = True
                per_elem = False
                for a in au.ancestors(st):
                    if isinstance(a, ast.For):
                        for s in a.body:
                            if s.lineno >= st.lineno:
                                break
                            if isinstance(s, ast.Assign) and len(s.targets) == 1 and isinstance(s.targets[0], ast.Subscript) \
                                    and au.src(s.targets[0].value) == base and not _rmw(s) \
                                    and base not in au.names(s.value) and _top_stmt(a, st) is not s:
                                per_elem = per_elem or au.same(s.targets[0].slice, key)
                pinned = (modname, q, base) in Z1_PINNED_NO_RESET
                ok = fresh or cleared or per_elem or pinned
                how = "fresh" if fresh else "cleared" if cleared else "reset per element" if per_elem else "pinned: accumulates onto the caller's attribute"
                ctx.check(ok, "C07-Z1", site,
                          f"{q}: `{au.src(st)}` accumulates onto `{base}` which is neither built in the function nor reset (`{base}.clear()`) before the loop",
                          f"calling the function again with the same output attribute (or with one that already holds values) adds the new sum to "
                          f"the old content: the result is (old + sum)/n instead of sum/n",
                          note=f"{q}: accumulator `{base}` is {how}")
    ctx.require_count("C07-Z1 read-modify-write accumulators", n, 6)


# ----------------------------------------------------------------------- C07-P1
# roles of the parameters of the point-returning primitives of geometry.py: 1 = position, 0 = direction / displacement
POINT_PRIMITIVES = {
    "circumcenter": {"v1": 1, "v2": 1, "v3": 1},
    "intersect_2lines2D": {"p1": 1, "d1": 0, "p2": 1, "d2": 0},
    "project_to_plane": {"P": 1, "N": 0, "orig": 1},
}
# attribute functions whose values are positions (stored in the returned attribute / returned)
POINT_ATTRIBUTES = [("attributes.attr_cells", "cell_barycenter"), ("attributes.attr_faces", "face_barycenter"),
                    ("attributes.attr_faces", "face_circumcenter"), ("attributes.attr_edges", "edge_middle_point"),
                    ("attributes.glob", "barycenter")]
P1_WHAT = ("a position must be an affine combination of the input positions (weights summing to one, along every axis): otherwise the "
           "result does not follow the mesh under a translation - it is only right when the origin happens to lie in the element's plane")


def p1_points(ctx):
    from ..rules import c0708_geo as GEO
    from ..sym import Poly as _P
    gm = ctx.repo.module(GEOM)
    for name, roles in POINT_PRIMITIVES.items():
        fn = ctx.repo.func(GEOM, name)
        site = ctx.site(GEOM, fn)
        missing = [p for p in roles if p not in au.params(fn)]
        if missing:
            ctx.fail("C07-P1", site, f"{name}: parameter(s) {missing} not found", "the roles (position / direction) of the parameters are frozen in the checker")
            continue
        world = GEO.World(ctx.repo)
        am = {k: GEO.Val(1, GEO.P(_P.const(w))) for k, w in roles.items()}
        it = GEO.Interp(world, gm.name, fn, am).run()
        if not it.returns:
            ctx.fail("C07-P1", site, f"{name}: no returned value found", "")
        for st, v in it.returns:
            decided, ok, text = GEO.point_verdict(v, it.frames)
            rsite = ctx.site(GEOM, fn, st)
            if not decided:
                ctx.fail("C07-P1", rsite, f"{name}: the affine weight of the returned point `{au.src(st.value)}` cannot be derived ({text})", P1_WHAT)
            else:
                ctx.check(ok, "C07-P1", rsite, f"{name}: the returned position `{au.src(st.value)}` is not an affine combination of the input positions: {text}",
                          P1_WHAT, note=f"{name}: returned value is a position ({text})")
    for modname, q in POINT_ATTRIBUTES:
        fn = ctx.repo.func(modname, q)
        m = ctx.repo.module(modname)
        site = ctx.site(modname, fn)
        world = GEO.World(ctx.repo)
        it = GEO.Interp(world, m.name, fn).run()
        rets = [s for s in au.stmts(fn.body) if isinstance(s, ast.Return) and s.value is not None]
        out = rets[-1].value.id if rets and isinstance(rets[-1].value, ast.Name) else None
        cands = []
        if out:
            cands = [(t, val, v, sub) for sub, t, val, v in world.stores if sub is it and isinstance(t, ast.Subscript) and au.src(t.value) == out]
        if not cands:
            cands = [(None, st.value, v, it) for st, v in it.returns]
        if not cands:
            ctx.fail("C07-P1", site, f"{q}: the position stored / returned by the function not found", "")
        for t, val, v, sub in cands:
            node = t if t is not None else val
            callee = world.resolve(m.name, val) if isinstance(val, ast.Call) else None
            if callee is not None and callee[1].name in POINT_PRIMITIVES:
                ctx.ok("C07-P1", ctx.site(modname, fn, node), f"{q}: delegates to geom.{callee[1].name} (checked there)")
                continue
            decided, ok, text = GEO.point_verdict(v, sub.frames)
            if not decided:
                ctx.fail("C07-P1", ctx.site(modname, fn, node), f"{q}: the affine weight of the position `{au.src(val)}` cannot be derived ({text})", P1_WHAT)
            else:
                ctx.check(ok, "C07-P1", ctx.site(modname, fn, node), f"{q}: `{au.src(val)}` is not an affine combination of vertex positions: {text}",
                          P1_WHAT, note=f"{q}: position with {text}")
