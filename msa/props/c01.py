"""C01 - surface connectivity answers agree with the face list (structural clauses)."""
from __future__ import annotations
import ast, itertools
from .. import au, sym, order
from ..core import AnalysisError
from ..rules.lazy import LazyClass
from ..rules import common

SURF = "mesh.datatypes.surface"
LIN = "mesh.datatypes.linear"
CONN = "SurfaceMesh._Connectivity"

EXPLANATION = (
    "Static conformance of the lazily built surface connectivity: typestate of the caches for every "
    "public entry point and every query order (R-LAZY), reader/writer agreement of the half-edge record "
    "layout, propositional form of the border predicates, pairing rules of the adjacency builders, key "
    "normalisation agreement and inverse-walk structure of the rotational sort. Decides structural "
    "necessary conditions, not the combinatorial correctness of the tables.")

RULES = {
    "C01-L1": "every dereference / return of a lazily built cache field in any public entry point is reached only through "
              "paths on which the field is built (guard, direct assignment or a callee that ensures it), from the state left by __init__",
    "C01-L3": "every lazy cache field is assigned in the __init__ chain (otherwise its own `is None` guard raises AttributeError)",
    "C01-L4": "`clear` resets every cache field that has a writer; any other reset method resets whole groups",
    "C01-T1": "readers of the half-edge record use the slot whose provenance in the writer matches their role",
    "C01-O1": "is_edge_on_border == edge exists and (direct_face(u,v) is None or direct_face(v,u) is None)",
    "C01-P1": "interior/boundary lists are an if/else partition on one predicate; both endpoints of a border edge are marked",
    "C01-P2": "the 1-skeleton adjacency is filled symmetrically",
    "C01-K1": "a dictionary written under keyify(...) keys is only read under keyify(...) keys",
    "C01-W1": "the counter-clockwise walk is the inverse of the clockwise walk and steps the sort index with the opposite sign",
    "C01-L5": "the cold path of a lazily cached accessor (`if self.f is None:`) only builds the cache; it never answers by itself "
              "(an answer computed differently when the cache is cold makes the result depend on the order of the queries)",
    "C01-D1": "opposite_face(u, v, F, return_inds=True) returns (face, local index of u, local index of v): the names unpacked from "
              "direct_face(a, b, True) = (face, index of a, index of b) keep their roles",
    "C01-W2": "both rotational tables of a vertex (corners and neighbour vertices) are sorted, unconditionally, by keys taken from the one "
              "sort index built by the walks; a neighbour v is keyed by the corner of the half edge (A, v) leaving the vertex",
    "C01-D3": "definitional accessors (other_edge_end, in_face_index, direct_face, common_edge) return what their definition says under "
              "every ordering / truth assignment of their operands",
    "C01-D2": "derived accessors are element-wise maps of the rotationally sorted primary tables (same order, same length)",
}


def run(ctx):
    repo = ctx.repo
    lazy_rules(ctx, [(LIN, "PolyLine._Connectivity"), (SURF, CONN), (SURF, "SurfaceMesh")],
               "C01", min_entries=40, min_guards=18)
    t1_record_layout(ctx)
    o1_edge_on_border(ctx)
    p1_partitions(ctx)
    p2_symmetric_adjacency(ctx)
    common.keyify_agreement(ctx, "C01-K1", [(LIN, "PolyLine._Connectivity"), (SURF, CONN)], min_dicts=2)
    w1_rotational_sort(ctx)
    d1_opposite_face(ctx)
    d2_derived_accessors(ctx)
    w2_sorted_tables(ctx)
    d3_definitional_accessors(ctx)


# ----------------------------------------------------------------------- R-LAZY
def lazy_rules(ctx, classes, pid, min_entries, min_guards):
    repo = ctx.repo
    n_entries = n_guards = 0
    seen_l5 = set()
    for modname, qual in classes:
        lc = LazyClass(repo, modname, qual)
        viol = lc.check_uses()
        n_entries += len(lc.entry_points)
        n_guards += sum(1 for m, fn, c in lc.all_defs for n in au.walk(fn)
                        if isinstance(n, ast.Compare) and au.is_self_attr(n.left) and n.left.attr in lc.guard_fields
                        and isinstance(n.ops[0], (ast.Is, ast.IsNot)))
        # one obligation per (entry point) ; violations are keyed by the dereferencing construct
        bad_sites = set()
        for key, d in viol.items():
            site = ctx.site(d["module"], d["qualname"])
            site.line = d["line"]
            ctx.fail(f"{pid}-L1", site, f"use of self.{d['field']} ({d['how']}) not dominated by its initialisation",
                     f"on a freshly built object `{d['expr']}` is evaluated while self.{d['field']} may still be None "
                     f"(entry path: {d['entry_path']}); after any other query the same call succeeds",
                     concrete_class=qual, entry_path=d["entry_path"])
            bad_sites.add(d["qualname"])
        for name in lc.entry_points:
            m, fn, o = lc.methods[name]
            if getattr(fn, "_qualname", "") in bad_sites:
                continue
            ctx.ok(f"{pid}-L1", ctx.site(m.name, fn), f"{qual}: entry point analysed from the post-__init__ state, "
                                                      f"{len(lc.lazy)} lazy fields")
        # L3
        ia = lc.init_assigned()
        for f in sorted(lc.guard_fields):
            owner = None
            for m, fn, c in lc.all_defs:
                if any(au.is_self_attr(n, f) for n in au.walk(fn)):
                    owner = (m, c)
                    break
            site = ctx.site(owner[0].name, owner[1]._qualname + ".__init__")
            ctx.check(f in ia, f"{pid}-L3", site, f"self.{f} never assigned in the __init__ chain of {qual}",
                      f"`if self.{f} is None` raises AttributeError on a fresh {qual}: the field is only assigned by "
                      f"{', '.join(sorted(n for n, s in lc.writers().items() if f in s)) or 'clear()'}",
                      note=f"{qual}.{f} initialised")
        # L5: cold path never answers by itself
        for m, fn, c in lc.all_defs:
            if fn.name == "__init__":
                continue
            for st in au.stmts(fn.body):
                if isinstance(st, ast.If) and isinstance(st.test, ast.Compare) and len(st.test.ops) == 1 \
                        and isinstance(st.test.ops[0], ast.Is) and au.is_self_attr(st.test.left) \
                        and st.test.left.attr in lc.lazy and isinstance(st.test.comparators[0], ast.Constant) \
                        and st.test.comparators[0].value is None:
                    rets = [r for r in au.stmts(st.body) if isinstance(r, ast.Return)]
                    site = ctx.site(m.name, fn, st)
                    key = (m.name, getattr(fn, "_qualname", fn.name), st.test.left.attr)
                    if key in seen_l5:
                        continue
                    seen_l5.add(key)
                    ctx.check(not rets, f"{pid}-L5", site,
                              f"{fn.name}: the cold path (`self.{st.test.left.attr} is None`) returns an answer of its own instead of building the cache",
                              "the same query is answered by two different computations depending on whether another query already "
                              "built the cache: answers are not independent of the order in which queries are issued",
                              note=f"{fn.name}: cold path only builds")
        # L4
        written = set().union(*lc.writers().values()) if lc.writers() else set()
        written &= lc.guard_fields
        for name, (m, fn, o) in sorted(lc.methods.items()):
            if name == "__init__":
                continue
            resets = lc.reset_closure(name) if name == "clear" else lc.direct_resets(fn)
            if not resets:
                continue
            site = ctx.site(m.name, fn)
            if name == "clear":
                missing = sorted(written - resets)
                ctx.check(not missing, f"{pid}-L4", site,
                          f"clear() of {qual} leaves {', '.join('self.' + x for x in missing)} built",
                          "a cleared object must behave like a fresh one: stale cache survives clear()",
                          note=f"{qual}.clear resets {len(resets)} fields")
            else:
                need = set()
                for f in resets:
                    need |= lc.group(f)
                    need |= {h for h in written if f in lc.group(h)}
                missing = sorted((need & written) - resets)
                ctx.check(not missing, f"{pid}-L4", site,
                          f"{name}() resets part of a cache group, leaving {', '.join('self.' + x for x in missing)} built",
                          "resetting one member of a group of caches that are built together leaves the others stale",
                          note=f"{qual}.{name} resets whole groups")
    ctx.require_count(f"{pid}-L1 entry points", n_entries, min_entries)
    ctx.require_count(f"{pid}-L1 guards", n_guards, min_guards)


# ----------------------------------------------------------------------- C01-T1
ROLE_SLOT = {  # reader method -> role of the slot it must read
    "previous_corner": "corner-1", "next_corner": "corner+1", "opposite_corner": "opposite",
    "half_edge_to_corner": "corner0",
}


def t1_record_layout(ctx):
    repo = ctx.repo
    fn = repo.func(SURF, CONN + "._compute_connectivity")
    site = ctx.site(SURF, fn)
    b = sym.Bindings(fn)
    # writer: self._half_edges[KEY] = [s0..s6]
    writers = [st for st in au.stmts(fn.body) if isinstance(st, ast.Assign) and len(st.targets) == 1
               and isinstance(st.targets[0], ast.Subscript) and au.is_self_attr(st.targets[0].value, "_half_edges")
               and isinstance(st.value, (ast.List, ast.Tuple))]
    if len(writers) != 1:
        ctx.fail("C01-T1", site, "half-edge record writer not found (self._half_edges[key] = [..])",
                 f"{len(writers)} literal record stores into self._half_edges; the record layout cannot be established")
        return
    w = writers[0]
    # enclosing loops: for iF,F in enumerate(faces) / for iV in range(n)
    loops = [a for a in au.ancestors(w) if isinstance(a, ast.For)]
    if len(loops) < 2:
        ctx.fail("C01-T1", site, "half-edge record writer is not inside the face / in-face-index loop nest", "")
        return
    inner, outer = loops[0], loops[1]
    iV = inner.target.id if isinstance(inner.target, ast.Name) else None
    face_idx, face_row = None, None
    if isinstance(outer.target, ast.Tuple) and len(outer.target.elts) == 2 and au.call_tail(outer.iter) == "enumerate" \
            if isinstance(outer.iter, ast.Call) else False:
        face_idx, face_row = outer.target.elts[0].id, outer.target.elts[1].id
    if iV is None or face_idx is None:
        ctx.fail("C01-T1", site, "loop nest of the half-edge writer not in the `for iF,F in enumerate(faces): for iV in range(n)` form", "")
        return
    nname = None
    if isinstance(inner.iter, ast.Call) and au.call_tail(inner.iter) == "range" and len(inner.iter.args) == 1:
        nexpr = b.resolve(inner.iter.args[0], at=inner)
        ctx.check(au.src(nexpr) == f"len({face_row})", "C01-T1", site,
                  f"in-face index loop runs over {au.src(nexpr)} instead of len({face_row})",
                  "the half-edge loop must visit every vertex of the face exactly once")
        nname = au.src(inner.iter.args[0])

    def vertex_offset(e):
        """offset k if e resolves to F[(iV+k)%n]"""
        e = b.resolve(e, keep=(iV, face_row, face_idx, nname), at=w)
        if isinstance(e, ast.Subscript) and isinstance(e.value, ast.Name) and e.value.id == face_row:
            return sym.mod_offset(e.slice, iV, nname)
        return None

    def corner_offset(e):
        """offset k if e resolves to self._adjVF2Cn[(F[(iV+k)%n], iF)]"""
        e = b.resolve(e, keep=(iV, face_row, face_idx, nname), at=w)
        if isinstance(e, ast.Subscript) and au.is_self_attr(e.value, "_adjVF2Cn") and isinstance(e.slice, ast.Tuple) \
                and len(e.slice.elts) == 2 and isinstance(e.slice.elts[1], ast.Name) and e.slice.elts[1].id == face_idx:
            return vertex_offset(e.slice.elts[0])
        return None

    key = w.targets[0].slice
    key_ok = isinstance(key, ast.Tuple) and len(key.elts) == 2 and \
        (vertex_offset(key.elts[0]), vertex_offset(key.elts[1])) == (0, 1)
    ctx.check(key_ok, "C01-T1", site, f"half-edge key {au.src(key)} is not (F[iV], F[(iV+1)%n])",
              "the half edge leaving the iV-th vertex of a face must be keyed by (that vertex, the next vertex of the face)")
    roles = {}
    for i, e in enumerate(w.value.elts):
        co = corner_offset(e)
        if co is not None:
            roles.setdefault({0: "corner0", -1: "corner-1", 1: "corner+1"}.get(co, f"corner{co:+d}"), []).append(i)
            continue
        if isinstance(e, ast.Constant) and e.value is None:
            roles.setdefault("opposite", []).append(i)
            continue
        if isinstance(e, ast.Name) and e.id == face_idx:
            roles.setdefault("face", []).append(i)
            continue
        mo = sym.mod_offset(b.resolve(e, keep=(iV, nname), at=w), iV, nname)
        if mo is not None:
            roles.setdefault({0: "local0", 1: "local+1"}.get(mo, f"local{mo:+d}"), []).append(i)
            continue
        roles.setdefault("unknown", []).append(i)
    need = ["corner0", "corner-1", "corner+1", "opposite", "face", "local0", "local+1"]
    layout_ok = all(len(roles.get(r, [])) == 1 for r in need) and len(w.value.elts) == 7
    ctx.check(layout_ok, "C01-T1", ctx.site(SURF, fn, w),
              f"half-edge record {au.src(w.value)} does not hold exactly (corner, previous, next, opposite, face, i, i+1)",
              f"slot provenance derived from the writer: {roles}", note=f"record layout {roles}")
    if not layout_ok:
        return
    slot = {r: roles[r][0] for r in need}
    # _Cn2he[corner0] = key
    cn = [st for st in au.stmts(fn.body) if isinstance(st, ast.Assign) and isinstance(st.targets[0], ast.Subscript)
          and au.is_self_attr(st.targets[0].value, "_Cn2he")]
    ok = len(cn) == 1 and corner_offset(cn[0].targets[0].slice) == 0 and au.same(b.resolve(cn[0].value, at=cn[0]), b.resolve(key, at=w)) \
        and any(a is inner for a in au.ancestors(cn[0]))
    ctx.check(ok, "C01-T1", site, "corner -> half-edge map is not `_Cn2he[corner of F[iV]] = (F[iV], F[iV+1])` in the same loop",
              "corner_to_half_edge / next / previous / opposite look the record up through this map")
    # opposite filling: he[(A,B)][s] = corner0 of he[(B,A)]
    opp_stores = [st for st in au.stmts(fn.body) if isinstance(st, ast.Assign) and isinstance(st.targets[0], ast.Subscript)
                  and isinstance(st.targets[0].value, ast.Subscript) and au.is_self_attr(st.targets[0].value.value, "_half_edges")]
    good = 0
    for st in opp_stores:
        t = st.targets[0]
        s_idx = au.const(t.slice)
        k = t.value.slice
        v = b.resolve(st.value, at=st)
        # v must be self._half_edges.get(REV(k), [None])[corner0 slot]
        rev_ok = False
        if isinstance(v, ast.Subscript) and au.const(v.slice) == slot["corner0"]:
            base = v.value
            src_key = None
            if isinstance(base, ast.Call) and au.call_tail(base) == "get" and au.is_self_attr(base.func.value, "_half_edges"):
                src_key = base.args[0]
            elif isinstance(base, ast.Subscript) and au.is_self_attr(base.value, "_half_edges"):
                src_key = base.slice
            if src_key is not None and isinstance(src_key, ast.Tuple) and isinstance(k, ast.Tuple) \
                    and len(k.elts) == 2 and len(src_key.elts) == 2:
                rev_ok = au.same(src_key.elts[0], k.elts[1]) and au.same(src_key.elts[1], k.elts[0]) \
                    and not au.same(k.elts[0], k.elts[1])
        ok = s_idx == slot["opposite"] and rev_ok
        ctx.check(ok, "C01-T1", ctx.site(SURF, fn, st),
                  f"opposite slot store `{au.src(st)}` does not write slot {slot['opposite']} of (A,B) with the corner of (B,A)",
                  "the opposite of half edge (A,B) is the corner recorded for (B,A)")
        good += ok
    ctx.check(len(opp_stores) == 2, "C01-T1", site,
              f"{len(opp_stores)} opposite-slot store(s) instead of the pair (A,B)<-(B,A), (B,A)<-(A,B)",
              "both half edges of an interior edge must learn their opposite")
    # readers
    conn = repo.cls(SURF, CONN)
    n_readers = 0
    for st in conn.body:
        if not isinstance(st, ast.FunctionDef) or st.name.startswith("_"):
            continue
        for n in au.walk(st):
            if isinstance(n, ast.Subscript) and isinstance(n.ctx, ast.Load):
                base = n.value
                is_rec = (isinstance(base, ast.Subscript) and au.is_self_attr(base.value, "_half_edges")) or \
                         (isinstance(base, ast.Call) and au.call_tail(base) == "get" and
                          isinstance(base.func, ast.Attribute) and au.is_self_attr(base.func.value, "_half_edges"))
                if not is_rec:
                    continue
                n_readers += 1
                rsite = ctx.site(SURF, st, n)
                if st.name in ROLE_SLOT:
                    want = slot[ROLE_SLOT[st.name]]
                    ctx.check(au.const(n.slice) == want, "C01-T1", rsite,
                              f"{st.name} reads slot {au.src(n.slice)} of the half-edge record, the {ROLE_SLOT[st.name]} slot is {want}",
                              f"writer layout: {roles}", note=f"{st.name} reads slot {want}")
                elif st.name == "direct_face":
                    if isinstance(n.slice, ast.Slice):
                        lo = au.const(n.slice.lower)
                        okk = lo == slot["face"] and n.slice.upper is None and n.slice.step is None \
                            and (slot["face"], slot["local0"], slot["local+1"]) == (lo, lo + 1, lo + 2) \
                            and len(w.value.elts) == lo + 3
                        ctx.check(okk, "C01-T1", rsite,
                                  f"direct_face(return_inds) slices {au.src(n.slice)}; (face, i, i+1) are slots "
                                  f"{slot['face']},{slot['local0']},{slot['local+1']}", f"writer layout: {roles}")
                    else:
                        ctx.check(au.const(n.slice) == slot["face"], "C01-T1", rsite,
                                  f"direct_face reads slot {au.src(n.slice)}, the face slot is {slot['face']}",
                                  f"writer layout: {roles}")
                else:
                    ctx.check(False, "C01-T1", rsite, f"unlisted reader {st.name} of the half-edge record",
                              "a new reader of the record must be given a role in the checker's table")
    ctx.require_count("C01-T1 readers", n_readers, 6)


# ----------------------------------------------------------------------- C01-O1
def o1_edge_on_border(ctx):
    fn = ctx.repo.func(SURF, "SurfaceMesh.is_edge_on_border")
    site = ctx.site(SURF, fn)
    ps = au.params(fn, skip_self=True)
    if len(ps) != 2:
        ctx.fail("C01-O1", site, "is_edge_on_border does not take (u, v)", "")
        return
    u, v = ps

    def atom(e):
        # X is None  with X a connectivity query
        if isinstance(e, ast.Compare) and len(e.ops) == 1 and isinstance(e.comparators[0], ast.Constant) \
                and e.comparators[0].value is None and isinstance(e.left, ast.Call):
            c = e.left
            args = [a.id if isinstance(a, ast.Name) else None for a in c.args]
            t = au.call_tail(c)
            neg = isinstance(e.ops[0], ast.IsNot)
            name = None
            if t == "edge_id" and sorted(args) == sorted([u, v]):
                name = "e_none"
            elif t == "direct_face" and args == [u, v]:
                name = "d_uv"
            elif t == "direct_face" and args == [v, u]:
                name = "d_vu"
            if name and isinstance(e.ops[0], (ast.Is, ast.IsNot)):
                return name, neg
        return None

    try:
        f = order.return_formula(fn.body)
    except order.Unsupported as ex:
        ctx.fail("C01-O1", site, "is_edge_on_border is no longer an if/return chain", str(ex))
        return
    unknown = []

    def ev(e, env):
        if isinstance(e, ast.BoolOp):
            vals = [ev(x, env) for x in e.values]
            return all(vals) if isinstance(e.op, ast.And) else any(vals)
        if isinstance(e, ast.UnaryOp) and isinstance(e.op, ast.Not):
            return not ev(e.operand, env)
        if isinstance(e, ast.Constant):
            return bool(e.value)
        a = atom(e)
        if a is None:
            unknown.append(au.src(e))
            return False
        return env[a[0]] != a[1]

    def evf(f, env):
        if f[0] == "ite":
            return evf(f[2], env) if ev(f[1], env) else evf(f[3], env)
        if f[0] == "ret":
            return ev(f[1], env) if f[1] is not None else False
        return False
    bad = None
    for e_none, d_uv, d_vu in itertools.product((False, True), repeat=3):
        env = {"e_none": e_none, "d_uv": d_uv, "d_vu": d_vu}
        want = (not e_none) and (d_uv or d_vu)
        if evf(f, env) != want:
            bad = env
            break
    ctx.check(bad is None and not unknown, "C01-O1", site,
              "is_edge_on_border is not `edge exists and (one of the two sides has no face)`",
              f"differs from the specification for {bad}" + (f"; unrecognised atoms {unknown}" if unknown else ""),
              note="8 truth assignments")


# ----------------------------------------------------------------------- C01-P1
def p1_partitions(ctx):
    repo = ctx.repo
    fn = repo.func(SURF, "SurfaceMesh._compute_interior_boundary_edges")
    site = ctx.site(SURF, fn)
    common.check_partition(ctx, "C01-P1", SURF, fn, "_boundary_edges", "_interior_edges",
                           pred_tail="is_edge_on_border", true_side="_boundary_edges")
    fn = repo.func(SURF, "SurfaceMesh._compute_interior_boundary_vertices")
    site = ctx.site(SURF, fn)
    # for e in boundary_edges: a,b = edges[e]; mark both a and b in attribute and set
    loops = [st for st in au.stmts(fn.body) if isinstance(st, ast.For) and
             ((au.is_self_attr(st.iter, "boundary_edges")) or au.is_self_attr(st.iter, "_boundary_edges"))]
    if not loops:
        ctx.fail("C01-P1", site, "no loop over the border edges in _compute_interior_boundary_vertices",
                 "border vertices are the endpoints of border edges")
        return
    lp = loops[0]
    b = sym.Bindings(fn)
    ends = None
    for st in lp.body:
        if isinstance(st, ast.Assign) and isinstance(st.targets[0], ast.Tuple) and len(st.targets[0].elts) == 2 \
                and isinstance(st.value, ast.Subscript) and au.is_self_attr(st.value.value, "edges"):
            ends = [x.id for x in st.targets[0].elts]
    if not ends:
        ctx.fail("C01-P1", site, "endpoints of a border edge are not unpacked from self.edges[e]", "")
        return
    marked_attr = {au.src(st.targets[0].slice) for st in lp.body if isinstance(st, ast.Assign)
                   and isinstance(st.targets[0], ast.Subscript) and au.is_self_attr(st.targets[0].value, "_is_vertex_on_border")
                   and au.const(st.value) is True}
    added = {au.src(c.args[0]) for st in lp.body for c in au.calls(st)
             if au.call_tail(c) in ("add", "append") and isinstance(c.func, ast.Attribute)
             and au.is_self_attr(c.func.value, "_boundary_vertices") and c.args}
    ctx.check(marked_attr == set(ends), "C01-P1", site,
              f"border flag set for {sorted(marked_attr)} instead of both endpoints {ends}",
              "both endpoints of every border edge are border vertices")
    ctx.check(added == set(ends), "C01-P1", site,
              f"border vertex collection receives {sorted(added)} instead of both endpoints {ends}",
              "both endpoints of every border edge are border vertices")
    # interior = complement: for x in id_vertices: if not flag[x]: append
    ok = False
    for st in au.stmts(fn.body):
        if isinstance(st, ast.For) and au.is_self_attr(st.iter, "id_vertices") and isinstance(st.target, ast.Name):
            x = st.target.id
            for s in st.body:
                if isinstance(s, ast.If) and isinstance(s.test, ast.UnaryOp) and isinstance(s.test.op, ast.Not) \
                        and au.src(s.test.operand) == f"self._is_vertex_on_border[{x}]" and not s.orelse:
                    ok = any(au.call_tail(c) == "append" and au.is_self_attr(c.func.value, "_interior_vertices")
                             and au.src(c.args[0]) == x for c in au.calls(s))
    ctx.check(ok, "C01-P1", site, "interior vertices are not `every vertex whose border flag is False`",
              "interior and border vertices must partition the vertex set")


# ----------------------------------------------------------------------- C01-P2
def p2_symmetric_adjacency(ctx):
    fn = ctx.repo.func(LIN, "PolyLine._Connectivity._compute_connectivity")
    site = ctx.site(LIN, fn)
    adds = []
    for c in au.calls(fn):
        if au.call_tail(c) in ("add", "append") and isinstance(c.func.value, ast.Subscript) \
                and au.is_self_attr(c.func.value.value, "_adjV2V") and len(c.args) == 1:
            adds.append((au.src(c.func.value.slice), au.src(c.args[0]), au.enclosing_block(au.enclosing_stmt(c))[0], c))
    ctx.require_count("C01-P2 adjacency inserts", len(adds), 1)
    for k, v, blk, c in adds:
        partner = [a for a in adds if a[0] == v and a[1] == k and a[2] is blk]
        ctx.check(bool(partner) and k != v, "C01-P2", ctx.site(LIN, fn, c),
                  f"_adjV2V[{k}] receives {v} but _adjV2V[{v}] does not receive {k} in the same block",
                  "vertex adjacency must be symmetric: B in N(A) iff A in N(B)")
    # loop must range over all edges
    loops = [a for a in au.ancestors(adds[0][3]) if isinstance(a, ast.For)]
    ok = bool(loops) and au.src(loops[0].iter) == "self.mesh.edges" and not au.guards(adds[0][3], stop=loops[0])
    ctx.check(ok, "C01-P2", site, "adjacency inserts are not made unconditionally for every edge of self.mesh.edges",
              "every edge contributes both of its endpoints to the 1-skeleton adjacency")


# ----------------------------------------------------------------------- C01-W1
def w1_rotational_sort(ctx):
    fn = ctx.repo.func(SURF, CONN + "._sort_vertex_neighborhoods")
    site = ctx.site(SURF, fn)
    walks = []  # per inner for-loop: (sign of index step, composition applied to Cn as list of fn names innermost-first, start expr)
    b_all = list(au.stmts(fn.body))
    for st in b_all:
        if not isinstance(st, ast.For) or not isinstance(st.target, ast.Name):
            continue
        # a walk = a loop whose own body re-assigns a variable from corner accessors applied to itself (Cn = self.f(self.g(Cn)))
        if not any(isinstance(s, ast.Assign) and isinstance(s.targets[0], ast.Name) and isinstance(s.value, ast.Call)
                   and au.is_self_attr(s.value.func) and s.targets[0].id in au.names(s.value) for s in st.body):
            continue
        step = None
        comp = []
        var = None
        for s in st.body:
            inc = au.increment(s)
            if inc is not None and au.const(inc[2]) == 1 and isinstance(s.targets[0] if isinstance(s, ast.Assign) else s.target, ast.Name):
                step = inc[1]
            if isinstance(s, ast.Assign) and isinstance(s.targets[0], ast.Name) and isinstance(s.value, ast.Call):
                var = s.targets[0].id
                e = s.value
                inner = []
                while isinstance(e, ast.Call) and isinstance(e.func, ast.Attribute) and au.is_self_attr(e.func) and len(e.args) == 1:
                    inner.append(e.func.attr)
                    e = e.args[0]
                if isinstance(e, ast.Name) and e.id == var:
                    comp += inner[::-1]   # applied innermost first
        # start value: the assignment to var preceding the loop in the same block
        blk, _ = au.enclosing_block(st)
        start = None
        if blk:
            for s in blk[:[id(x) for x in blk].index(id(st))]:
                if isinstance(s, ast.Assign) and isinstance(s.targets[0], ast.Name) and s.targets[0].id == var:
                    start = au.src(s.value)
        walks.append((step, comp, start, st))
    if len(walks) != 2:
        ctx.fail("C01-W1", site, f"{len(walks)} rotation walk(s) found instead of the clockwise / counter-clockwise pair", "")
        return
    (s1, c1, st1, n1), (s2, c2, st2, n2) = walks
    inv = {"previous_corner": "next_corner", "next_corner": "previous_corner", "opposite_corner": "opposite_corner"}
    want = [inv.get(x) for x in reversed(c1)]
    ctx.check(c1 == ["previous_corner", "opposite_corner"], "C01-W1", ctx.site(SURF, fn, n1),
              f"clockwise step applies {' then '.join(c1)}; turning around a vertex is `opposite(previous(c))`",
              "the next corner around a vertex is the opposite of the previous corner in the face")
    ctx.check(c2 == want, "C01-W1", ctx.site(SURF, fn, n2),
              f"counter-clockwise step applies {' then '.join(c2)}, the inverse of the clockwise step is {' then '.join(map(str, want))}",
              "border vertices are walked in both directions; the second walk must undo the first")
    ctx.check(s1 is not None and s2 is not None and s1 == -s2, "C01-W1", site,
              f"sort index steps {s1} and {s2} in the two walks (must be opposite)", "the two walks must extend one linear order")
    ctx.check(st1 is not None and st1 == st2, "C01-W1", site,
              f"walks start from {st1} and {st2}", "both walks start from the same corner")


# ----------------------------------------------------------------------- C01-D1
def d1_opposite_face(ctx):
    fn = ctx.repo.func(SURF, CONN + ".opposite_face")
    site = ctx.site(SURF, fn)
    ps = au.params(fn, skip_self=True)
    if len(ps) < 3:
        ctx.fail("C01-D1", site, "opposite_face no longer takes (u, v, F)", "")
        return
    u, v, F = ps[:3]
    # roles of names unpacked from direct_face(a, b, True)
    role = {}
    faces = {}
    for st in au.stmts(fn.body):
        if isinstance(st, ast.Assign) and isinstance(st.targets[0], ast.Tuple) and len(st.targets[0].elts) == 3 \
                and isinstance(st.value, ast.Call) and au.call_tail(st.value) == "direct_face" and len(st.value.args) >= 2 \
                and all(isinstance(a, ast.Name) for a in st.value.args[:2]):
            a, b = st.value.args[0].id, st.value.args[1].id
            names = [x.id if isinstance(x, ast.Name) else None for x in st.targets[0].elts]
            role[names[0]] = ("face", (a, b))
            role[names[1]] = ("idx", a, (a, b))
            role[names[2]] = ("idx", b, (a, b))
    n = 0
    for st in au.stmts(fn.body):
        if isinstance(st, ast.Return) and isinstance(st.value, ast.Tuple) and len(st.value.elts) == 3 \
                and all(isinstance(x, ast.Name) for x in st.value.elts):
            f_, iu, iv = (x.id for x in st.value.elts)
            if f_ not in role:
                continue
            n += 1
            side = role[f_][1]
            ok = role.get(iu) == ("idx", u, side) and role.get(iv) == ("idx", v, side)
            # the returned face must be the one on the *other* side of the one compared with F in the guard
            gs = [t for t, pol in au.guards(st, stop=fn) if pol]
            other_side = True
            for t in gs:
                if isinstance(t, ast.Compare) and isinstance(t.ops[0], ast.Eq):
                    names = {au.src(t.left), au.src(t.comparators[0])}
                    if F in names:
                        cmpf = (names - {F}).pop() if len(names) == 2 else None
                        if cmpf in role and role[cmpf][0] == "face":
                            other_side = role[cmpf][1] == (side[1], side[0])
            ctx.check(ok and other_side, "C01-D1", ctx.site(SURF, fn, st),
                      f"opposite_face returns ({f_}, {iu}, {iv}): not (opposite face, index of {u} in it, index of {v} in it)",
                      f"direct_face(a, b, True) returns (face, local index of a, local index of b); here the roles are "
                      f"{ {k: role.get(k) for k in (f_, iu, iv)} }", note="indices keep the roles of u and v")
    ctx.check(n >= 2, "C01-D1", site, "opposite_face(return_inds=True) no longer returns the two (face, i_u, i_v) triples", "")


# ----------------------------------------------------------------------- C01-D2
def _single_return_comp(fn):
    rets = [st for st in au.stmts(fn.body) if isinstance(st, ast.Return) and st.value is not None]
    if len(rets) != 1:
        return None
    return rets[0].value


def d2_derived_accessors(ctx):
    repo = ctx.repo
    # (module, qualname, source accessor whose order is inherited, element map as a source pattern with {x} and params)
    table = [
        (LIN, "PolyLine._Connectivity.vertex_to_edges", "vertex_to_vertices", lambda x, p: {f"self.edge_id({p[0]}, {x})", f"self.edge_id({x}, {p[0]})"}),
        (SURF, CONN + ".vertex_to_faces", "vertex_to_corners", lambda x, p: {f"self.corner_to_face({x})"}),
    ]
    for modname, q, source, emap in table:
        fn = repo.func(modname, q)
        site = ctx.site(modname, fn)
        ps = au.params(fn, skip_self=True)
        v = _single_return_comp(fn)
        ok = False
        if isinstance(v, ast.ListComp) and len(v.generators) == 1 and not v.generators[0].ifs \
                and isinstance(v.generators[0].target, ast.Name):
            it = v.generators[0].iter
            x = v.generators[0].target.id
            ok = isinstance(it, ast.Call) and au.is_self_attr(it.func, source) and [au.src(a) for a in it.args] == ps[:1] \
                and au.src(v.elt) in emap(x, ps)
        if not ok:
            # accepted alternative: a cache that is itself sorted with the rotation key in _sort_vertex_neighborhoods
            reads = {n.attr for n in au.walk(fn) if au.is_self_attr(n) and n.attr.startswith("_adj")}
            sorter = repo.func(SURF, CONN + "._sort_vertex_neighborhoods")
            sorted_fields = {c.func.value.value.attr for c in au.calls(sorter) if au.call_tail(c) == "sort"
                             and isinstance(c.func.value, ast.Subscript) and au.is_self_attr(c.func.value.value)}
            ok = bool(reads) and reads <= sorted_fields
        ctx.check(ok, "C01-D2", site,
                  f"{fn.name} is not the element-wise image of {source}() (nor a table sorted by the rotation key)",
                  f"{fn.name}(V)[k] must correspond to {source}(V)[k]: the rotational order around the vertex and the alignment of "
                  f"the two lists are part of the contract", note=f"{fn.name} = map over {source}")
    # face_to_edges: [edge_id(lF[i], lF[(i+1)%n]) for i in range(n)], n = len(face)
    fn = repo.func(SURF, CONN + ".face_to_edges")
    site = ctx.site(SURF, fn)
    b = sym.Bindings(fn)
    v = _single_return_comp(fn)
    ok = False
    if isinstance(v, ast.ListComp) and len(v.generators) == 1 and not v.generators[0].ifs and isinstance(v.generators[0].target, ast.Name):
        i = v.generators[0].target.id
        it = v.generators[0].iter
        if isinstance(it, ast.Call) and au.call_tail(it) == "range" and len(it.args) == 1 and isinstance(v.elt, ast.Call) \
                and au.is_self_attr(v.elt.func, "edge_id") and len(v.elt.args) == 2:
            nsrc = au.src(it.args[0])
            rows = set()
            offs = []
            for a in v.elt.args:
                if isinstance(a, ast.Subscript):
                    rows.add(au.src(b.resolve(a.value, at=v)))
                    offs.append(sym.mod_offset(a.slice, i, nsrc))
                else:
                    offs.append(None)
            F = au.params(fn, skip_self=True)[0]
            n_ok = au.src(b.resolve(it.args[0], at=v)) in (f"len(self.mesh.faces[{F}])",)
            ok = n_ok and rows == {f"self.mesh.faces[{F}]"} and sorted(o for o in offs if o is not None) == [0, 1] and None not in offs
    ctx.check(ok, "C01-D2", site, "face_to_edges is not [edge_id(f[i], f[(i+1) % n]) for i in range(n)] over the face's own row",
              "the k-th edge of a face is the side leaving its k-th vertex", note="face_to_edges = sides in face order")
    # face_to_corners: [first + i for i in range(len(face))]
    fn = repo.func(SURF, CONN + ".face_to_corners")
    site = ctx.site(SURF, fn)
    v = _single_return_comp(fn)
    ok = False
    F = au.params(fn, skip_self=True)[0]
    if isinstance(v, ast.ListComp) and len(v.generators) == 1 and not v.generators[0].ifs and isinstance(v.generators[0].target, ast.Name):
        i = v.generators[0].target.id
        it = v.generators[0].iter
        p = sym.to_poly(v.elt, atom_of=lambda e: "FIRST" if au.src(e) in (f"self._adjF2Cn[{F}]", f"self.face_to_first_corner({F})") else None)
        ok = p == sym.Poly.atom("FIRST") + sym.Poly.atom(i) and au.src(it) == f"range(len(self.mesh.faces[{F}]))"
    ctx.check(ok, "C01-D2", site, "face_to_corners is not [first corner + i for i in range(len(face))]",
              "corners of a face are stored consecutively, in the order of its vertices", note="face_to_corners consecutive")
    # face_to_faces: corner_to_face(opposite_corner(C)) for C in face_to_corners(F), None dropped
    fn = repo.func(SURF, CONN + ".face_to_faces")
    site = ctx.site(SURF, fn)
    b = sym.Bindings(fn)
    v = _single_return_comp(fn)
    ok = False
    F = au.params(fn, skip_self=True)[0]
    if isinstance(v, ast.ListComp) and len(v.generators) == 1 and isinstance(v.generators[0].target, ast.Name):
        x = v.generators[0].target.id
        src_it = b.resolve(v.generators[0].iter, at=v)
        filt = [au.src(t) for t in v.generators[0].ifs]
        if au.src(v.elt) == f"self.corner_to_face({x})" and filt == [f"{x} is not None"] and isinstance(src_it, ast.ListComp) \
                and len(src_it.generators) == 1 and not src_it.generators[0].ifs:
            y = src_it.generators[0].target.id
            ok = au.src(src_it.elt) == f"self.opposite_corner({y})" and au.src(src_it.generators[0].iter) == f"self.face_to_corners({F})"
    ctx.check(ok, "C01-D2", site, "face_to_faces is not [face of the opposite corner, for each corner of the face, border sides dropped]",
              "faces around a face are the faces across each of its sides, in side order", note="face_to_faces via opposite corners")
    # edge_to_faces: (direct_face(u,v), direct_face(v,u))
    fn = repo.func(SURF, CONN + ".edge_to_faces")
    ps = au.params(fn, skip_self=True)
    v = _single_return_comp(fn)
    ok = isinstance(v, ast.Tuple) and [au.src(e) for e in v.elts] == [f"self.direct_face({ps[0]}, {ps[1]})", f"self.direct_face({ps[1]}, {ps[0]})"]
    ctx.check(ok, "C01-D2", ctx.site(SURF, fn), "edge_to_faces is not (direct_face(u,v), direct_face(v,u))",
              "the face on either side of an edge", note="edge_to_faces = both sides")


# ----------------------------------------------------------------------- C01-W2
def w2_sorted_tables(ctx):
    fn = ctx.repo.func(SURF, CONN + "._sort_vertex_neighborhoods")
    site = ctx.site(SURF, fn)
    outer = [st for st in fn.body if isinstance(st, ast.For)]
    if len(outer) != 1 or not isinstance(outer[0].target, ast.Name):
        ctx.fail("C01-W2", site, "_sort_vertex_neighborhoods is no longer one loop over the vertices", "")
        return
    A = outer[0].target.id
    sorts = {}
    b = sym.Bindings(fn)
    for st in au.stmts(outer[0].body):
        if isinstance(st, ast.Expr) and isinstance(st.value, ast.Call) and au.call_tail(st.value) == "sort" \
                and isinstance(st.value.func.value, ast.Subscript) and au.is_self_attr(st.value.func.value.value) \
                and au.src(st.value.func.value.slice) == A:
            # unconditional for every vertex that has corners: the only admissible condition is a test on the corner list itself
            conds = [b.resolve(t, at=st, keep=(A,)) for t, _ in au.conditions(st, stop=outer[0])]
            if all("_adjV2Cn" in au.src(t) and set(au.names(t)) <= {"len", "self", A} for t in conds):
                key = next((k.value for k in st.value.keywords if k.arg == "key"), None)
                sorts[st.value.func.value.value.attr] = key
    for field in ("_adjV2Cn", "_adjV2V"):
        ctx.check(field in sorts, "C01-W2", site, f"self.{field}[{A}] is not sorted unconditionally for every vertex that has corners",
                  "corners / neighbour vertices around a vertex must come in rotational order", note=f"{field} sorted per vertex")
    # corner key = sort_index[c]
    k = sorts.get("_adjV2Cn")
    idx_name = None
    ok = isinstance(k, ast.Lambda) and isinstance(k.body, ast.Subscript) and isinstance(k.body.value, ast.Name) \
        and au.src(k.body.slice) == k.args.args[0].arg
    if ok:
        idx_name = k.body.value.id
    ctx.check(ok, "C01-W2", site, "corners around a vertex are not sorted by the index assigned to them by the walks", "")
    # vertex key = D[v] with D[v] = sort_index.get(half_edge_to_corner(A, v), <minimum>)
    k = sorts.get("_adjV2V")
    okv = False
    if isinstance(k, ast.Lambda) and isinstance(k.body, ast.Subscript) and isinstance(k.body.value, ast.Name):
        dname = k.body.value.id
        for st in au.stmts(outer[0].body):
            if isinstance(st, ast.Assign) and isinstance(st.targets[0], ast.Subscript) and au.src(st.targets[0].value) == dname:
                v = au.src(st.targets[0].slice)
                val = st.value
                if isinstance(val, ast.Call) and au.call_tail(val) == "get" and isinstance(val.func.value, ast.Name) \
                        and val.func.value.id == idx_name and val.args and isinstance(val.args[0], ast.Call) \
                        and au.call_tail(val.args[0]) == "half_edge_to_corner":
                    args = [au.src(a) for a in val.args[0].args]
                    loops = [a for a in au.ancestors(st) if isinstance(a, ast.For)]
                    over_all = bool(loops) and au.src(loops[0].iter) == f"self._adjV2V[{A}]" and not au.conditions(st, stop=loops[0])
                    okv = args == [A, v] and over_all
    ctx.check(okv, "C01-W2", site,
              f"neighbour vertices are not keyed by sort_index[corner of the half edge ({A}, v)] for every neighbour v",
              "the neighbour reached by the half edge leaving the vertex at a corner takes the rank of that corner; the reversed half "
              "edge belongs to another vertex's corners and has no rank here", note="vertex key = rank of corner of (A, v)")


# ----------------------------------------------------------------------- C01-D3
def d3_definitional_accessors(ctx):
    repo = ctx.repo
    # other_edge_end(E, V): A,B = edges[E]; V==A -> B ; V==B -> A ; else None
    fn = repo.func(LIN, "PolyLine._Connectivity.other_edge_end")
    site = ctx.site(LIN, fn)
    ps = au.params(fn, skip_self=True)
    ends = None
    body = []
    for st in fn.body:
        if isinstance(st, ast.Assign) and isinstance(st.targets[0], ast.Tuple) and len(st.targets[0].elts) == 2 \
                and isinstance(st.value, ast.Subscript) and au.src(st.value) == f"self.mesh.edges[{ps[0]}]":
            ends = [x.id for x in st.targets[0].elts]
        elif not (isinstance(st, ast.Expr) and isinstance(st.value, ast.Constant)):
            body.append(st)
    ok = False
    if ends and len(ps) == 2:
        try:
            f = order.return_formula(body)
            pred = order.Pred(lambda node: {ps[1]: "V", ends[0]: "A", ends[1]: "B"}.get(au.src(node)) or (_ for _ in ()).throw(order.Unsupported(au.src(node))))
            ok = True
            for env in order.envs({"V", "A", "B"}, set()):
                if env["A"] == env["B"]:
                    continue   # an edge never joins a vertex to itself
                got = order.eval_formula(f, pred, env, leaf=lambda e, en: None if e is None or au.src(e) == "None" else {ends[0]: "A", ends[1]: "B"}.get(au.src(e), "?"))
                want = "B" if env["V"] == env["A"] else ("A" if env["V"] == env["B"] else None)
                if got != want:
                    ok = False
        except order.Unsupported:
            ok = False
    ctx.check(ok, "C01-D3", site, "other_edge_end(E, V) is not `the other endpoint of E if V is one of its endpoints, else None`", "",
              note="other_edge_end under every ordering of (V, A, B)")
    # in_face_index(F, V): for i,v in enumerate(faces[F]): if v == V: return i ; return None
    fn = repo.func(SURF, CONN + ".in_face_index")
    site = ctx.site(SURF, fn)
    ps = au.params(fn, skip_self=True)
    ok = False
    for st in fn.body:
        if isinstance(st, ast.For) and isinstance(st.iter, ast.Call) and au.call_tail(st.iter) == "enumerate" \
                and au.src(st.iter.args[0]) == f"self.mesh.faces[{ps[0]}]" and isinstance(st.target, ast.Tuple):
            i, v = (x.id for x in st.target.elts)
            for s_ in st.body:
                if isinstance(s_, ast.If) and isinstance(s_.test, ast.Compare) and isinstance(s_.test.ops[0], ast.Eq) \
                        and {au.src(s_.test.left), au.src(s_.test.comparators[0])} == {v, ps[1]} \
                        and len(s_.body) == 1 and isinstance(s_.body[0], ast.Return) and au.src(s_.body[0].value) == i:
                    ok = True
    last = fn.body[-1]
    ok = ok and isinstance(last, ast.Return) and (last.value is None or au.src(last.value) == "None")
    ctx.check(ok, "C01-D3", site, "in_face_index(F, V) is not `position of V in faces[F], None if absent`", "", note="in_face_index")
    # direct_face: answers from the record iff (u,v) is a key
    fn = repo.func(SURF, CONN + ".direct_face")
    site = ctx.site(SURF, fn)
    u, v = au.params(fn, skip_self=True)[:2]
    ok = False
    from .. import decide

    def atom(e):
        if isinstance(e, ast.Compare) and len(e.ops) == 1 and isinstance(e.ops[0], (ast.In, ast.NotIn)) \
                and au.src(e.left) == f"({u}, {v})" and au.is_self_attr(e.comparators[0], "_half_edges"):
            return ("present", isinstance(e.ops[0], ast.In))
        if isinstance(e, ast.Name) and e.id in au.params(fn):
            return e.id
        if isinstance(e, ast.Compare) and len(e.ops) == 1 and isinstance(e.ops[0], (ast.Is, ast.IsNot)) and au.is_self_attr(e.left) \
                and au.const(e.comparators[0], 0) is None:
            return ("cold:" + e.left.attr, isinstance(e.ops[0], ast.Is))
        return None
    try:
        names, rows = decide.table(fn.body, atom)
        ok = "present" in names
        for env, taken in rows:
            if len(taken) != 1:
                ok = False
                continue
            rets = [st for st in taken[0].stmts if isinstance(st, ast.Return)]
            reads = [n for st in rets for n in au.walk(st) if isinstance(n, ast.Subscript) and au.is_self_attr(n.value, "_half_edges")]
            if env["present"]:
                ok = ok and bool(rets) and bool(reads) and all(au.src(r.slice) == f"({u}, {v})" for r in reads)
            else:
                ok = ok and bool(rets) and not reads and all(au.src(r.value).replace(" ", "") in ("None", "(None,None,None)") for r in rets)
    except decide.Unknown:
        ok = False
    ctx.check(ok, "C01-D3", site, "direct_face(u, v) does not answer from the record of (u, v) exactly when that half edge exists (None otherwise)", "",
              note="direct_face present / absent")
    # common_edge(iF1, iF2): for each side (A,B) of F1: if opposite_face(A,B,iF1) == iF2: return keyify(A,B)
    fn = repo.func(SURF, CONN + ".common_edge")
    site = ctx.site(SURF, fn)
    f1, f2 = au.params(fn, skip_self=True)[:2]
    b = sym.Bindings(fn)
    ok = False
    for st in au.stmts(fn.body):
        if isinstance(st, ast.If) and isinstance(st.test, ast.Compare) and isinstance(st.test.ops[0], ast.Eq):
            sides = [st.test.left, st.test.comparators[0]]
            call = next((x for x in sides if isinstance(x, ast.Call) and au.call_tail(x) == "opposite_face"), None)
            other = next((x for x in sides if x is not call), None)
            loops = [a for a in au.ancestors(st) if isinstance(a, ast.For)]
            if call is None or other is None or au.src(other) != f2 or not loops:
                continue
            i = loops[0].target.id if isinstance(loops[0].target, ast.Name) else None
            nsrc = au.src(loops[0].iter.args[0]) if isinstance(loops[0].iter, ast.Call) and loops[0].iter.args else None
            args = [b.resolve(a, at=st, keep=(i, nsrc, f1)) for a in call.args]
            offs = []
            for a in args[:2]:
                if isinstance(a, ast.Subscript) and au.src(b.resolve(a.value, at=st, keep=(f1,))) == f"self.mesh.faces[{f1}]":
                    offs.append(sym.mod_offset(a.slice, i, nsrc))
                else:
                    offs.append(None)
            n_ok = nsrc is not None and au.src(b.resolve(loops[0].iter.args[0], at=loops[0], keep=(f1,))) == f"len(self.mesh.faces[{f1}])"
            ret = [r for r in st.body if isinstance(r, ast.Return)]
            ret_ok = bool(ret) and isinstance(ret[0].value, ast.Call) and au.call_tail(ret[0].value) == "keyify" \
                and [au.src(x) for x in ret[0].value.args] == [au.src(x) for x in call.args[:2]]
            ok = n_ok and offs == [0, 1] and len(args) >= 3 and au.src(args[2]) == f1 and ret_ok
    ctx.check(ok, "C01-D3", site, "common_edge(F1, F2) does not test every side (f[i], f[i+1]) of F1 for `opposite face across it is F2`", "",
              note="common_edge over all sides")
