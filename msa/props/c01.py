"""C01 - surface connectivity answers agree with the face list (structural clauses)."""
from __future__ import annotations
import ast
from .. import au, sym
from ..core import AnalysisError
from ..rules.lazy import LazyClass
from ..rules import common
from ..rules import ha_sx as sx, ha_q as q, ha_rules as hr

SURF = "mesh.datatypes.surface"
LIN = "mesh.datatypes.linear"
CONN = "SurfaceMesh._Connectivity"

EXPLANATION = (
    "Static conformance of the lazily built surface connectivity: typestate of the caches for every "
    "public entry point and every query order (R-LAZY), reader/writer agreement of the half-edge record "
    "layout, propositional form of the border predicates, pairing rules of the adjacency builders, key "
    "normalisation agreement and inverse-walk structure of the rotational sort. Decides structural "
    "necessary conditions, not the combinatorial correctness of the tables.")

RULES = {
    "C01-L1": "every dereference / return of a lazily built cache field in any public entry point is reached only through "
              "paths on which the field is built (guard, direct assignment or a callee that ensures it), from the state left by __init__",
    "C01-L3": "every lazy cache field is assigned in the __init__ chain (otherwise its own `is None` guard raises AttributeError)",
    "C01-L4": "`clear` resets every cache field that has a writer; any other reset method resets whole groups",
    "C01-L6": "every builder of a rotationally sorted table that a cold path can call sorts it like the other builders of that table do",
    "C01-L7": "clear() restores every attribute that __init__ sets and a query modifies",
    "C01-T1": "readers of the half-edge record use the slot whose provenance in the writer matches their role",
    "C01-O1": "is_edge_on_border == edge exists and (direct_face(u,v) is None or direct_face(v,u) is None)",
    "C01-P1": "interior/boundary lists are an if/else partition on one predicate; both endpoints of a border edge are marked",
    "C01-P2": "the 1-skeleton adjacency is filled symmetrically",
    "C01-K1": "a dictionary written under keyify(...) keys is only read under keyify(...) keys",
    "C01-W1": "each rotation walk steps to a corner of the same vertex (opposite(previous(c)) or next(opposite(c)), read through the slot roles of the "
              "half-edge record), the two walks turn in opposite directions, step the rank with opposite signs and start from the same corner",
    "C01-L5": "the cold path of a lazily cached accessor (`if self.f is None:`) only builds the cache; it never answers by itself "
              "(an answer computed differently when the cache is cold makes the result depend on the order of the queries)",
    "C01-D1": "opposite_face(u, v, F, return_inds=True) returns (face, local index of u, local index of v): the names unpacked from "
              "direct_face(a, b, True) = (face, index of a, index of b) keep their roles",
    "C01-W2": "both rotational tables of a vertex (corners and neighbour vertices) are sorted, unconditionally, by keys taken from the one "
              "sort index built by the walks; a neighbour v is keyed by the corner of the half edge (A, v) leaving the vertex",
    "C01-D3": "definitional accessors (other_edge_end, in_face_index, direct_face, common_edge) return what their definition says under "
              "every ordering / truth assignment of their operands",
    "C01-S1": "the border classification of vertices / edges never reads a fixed position of a ring around a vertex (the order of a ring depends "
              "on config.sort_neighborhoods and on the queries issued before; the classification must not)",
    "C01-G1": "face corners are generated for every vertex of every face, in face order, into a container emptied beforehand (never for a "
              "sub-range of the faces on top of existing corners)",
    "C01-D2": "derived accessors are element-wise maps of the rotationally sorted primary tables (same order, same length)",
}


def _guard(ctx, pid, rule_fn, *args, **kw):
    """one rule that cannot read the code must not take the whole check down: its obligations are reported undecided"""
    try:
        return rule_fn(ctx, *args, **kw)
    except _Missing:
        return None
    except AnalysisError:
        raise
    except Exception as ex:  # noqa
        name = getattr(rule_fn, "__name__", "rule")
        import re
        tag = name.split("_")[0].upper() if re.match(r"^[a-z]\d_", name) else {"keyify_agreement": "K1", "check_module": "R1"}.get(name, "X0")
        ctx.undecided(f"{pid}-{tag}", ctx.site("mesh.mesh_data", "RawMeshData"),
                      f"the rule `{name}` could not analyse the current source ({type(ex).__name__})", str(ex)[:200])
        return None


def run(ctx):
    repo = ctx.repo
    lazy_rules(ctx, [(LIN, "PolyLine._Connectivity"), (SURF, CONN), (SURF, "SurfaceMesh")],
               "C01", min_entries=15, min_guards=3)
    slot = _guard(ctx, "C01", t1_record_layout)
    _guard(ctx, "C01", o1_edge_on_border)
    _guard(ctx, "C01", p1_partitions)
    _guard(ctx, "C01", p2_symmetric_adjacency)
    _guard(ctx, "C01", s1_order_independent_classification)
    _guard(ctx, "C01", g1_corner_generation)
    _guard(ctx, "C01", hr.keyify_agreement, "C01-K1", [(LIN, "PolyLine._Connectivity"), (SURF, CONN)], never={SORTER})
    _guard(ctx, "C01", w1_rotational_sort, slot)
    _guard(ctx, "C01", d1_opposite_face, slot)
    _guard(ctx, "C01", d2_derived_accessors)
    _guard(ctx, "C01", w2_sorted_tables, slot)
    _guard(ctx, "C01", d3_definitional_accessors)


# ----------------------------------------------------------------------- R-LAZY
def lazy_rules(ctx, classes, pid, min_entries, min_guards):
    repo = ctx.repo
    n_entries = n_guards = 0
    seen_l5 = set()
    for modname, qual in classes:
        lc = LazyClass(repo, modname, qual)
        viol = lc.check_uses()
        n_entries += len(lc.entry_points)
        n_guards += sum(1 for m, fn, c in lc.all_defs for n in au.walk(fn)
                        if isinstance(n, ast.Compare) and au.is_self_attr(n.left) and n.left.attr in lc.guard_fields
                        and isinstance(n.ops[0], (ast.Is, ast.IsNot)))
        # one obligation per (entry point) ; violations are keyed by the dereferencing construct
        bad_sites = set()
        for key, d in viol.items():
            site = ctx.site(d["module"], d["qualname"])
            site.line = d["line"]
            ctx.fail(f"{pid}-L1", site, f"use of self.{d['field']} ({d['how']}) not dominated by its initialisation",
                     f"on a freshly built object `{d['expr']}` is evaluated while self.{d['field']} may still be None "
                     f"(entry path: {d['entry_path']}); after any other query the same call succeeds",
                     concrete_class=qual, entry_path=d["entry_path"])
            bad_sites.add(d["qualname"])
        for name in lc.entry_points:
            m, fn, o = lc.methods[name]
            if getattr(fn, "_qualname", "") in bad_sites:
                continue
            ctx.ok(f"{pid}-L1", ctx.site(m.name, fn), f"{qual}: entry point analysed from the post-__init__ state, "
                                                      f"{len(lc.lazy)} lazy fields")
        # L3
        ia = lc.init_assigned()
        class_level = set()
        for m, c in lc.mro:
            for st in c.body:
                if isinstance(st, (ast.Assign, ast.AnnAssign)):
                    for t in au.assign_targets(st):
                        class_level.update(au.assigned_names(t))
        for f in sorted(lc.guard_fields):
            owner = None
            for m, fn, c in lc.all_defs:
                if any(au.is_self_attr(n, f) for n in au.walk(fn)):
                    owner = (m, c)
                    break
            site = ctx.site(owner[0].name, owner[1]._qualname + ".__init__")
            ctx.check(f in ia or f in class_level, f"{pid}-L3", site, f"self.{f} never assigned in the __init__ chain of {qual}",
                      f"`if self.{f} is None` raises AttributeError on a fresh {qual}: the field is only assigned by "
                      f"{', '.join(sorted(n for n, s in lc.writers().items() if f in s)) or 'clear()'}",
                      note=f"{qual}.{f} initialised")
        # L5: cold path never answers by itself
        for m, fn, c in lc.all_defs:
            if fn.name == "__init__":
                continue
            for st in au.stmts(fn.body):
                if isinstance(st, ast.If) and isinstance(st.test, ast.Compare) and len(st.test.ops) == 1 \
                        and isinstance(st.test.ops[0], ast.Is) and au.is_self_attr(st.test.left) \
                        and st.test.left.attr in lc.lazy and isinstance(st.test.comparators[0], ast.Constant) \
                        and st.test.comparators[0].value is None:
                    f = st.test.left.attr
                    rets = [r for r in au.stmts(st.body) if isinstance(r, ast.Return)]
                    site = ctx.site(m.name, fn, st)
                    key = (m.name, getattr(fn, "_qualname", fn.name), f)
                    if key in seen_l5:
                        continue
                    seen_l5.add(key)
                    if not rets:
                        ctx.ok(f"{pid}-L5", site, f"{fn.name}: cold path only builds")
                        continue
                    if not _builds(lc, (m, fn, c), st.body, f):
                        ctx.fail(f"{pid}-L5", site,
                                 f"{fn.name}: the cold path (`self.{f} is None`) returns an answer of its own instead of building the cache",
                                 "the same query is answered by two different computations depending on whether another query already "
                                 "built the cache: answers are not independent of the order in which queries are issued")
                        continue
                    blk, _ = au.enclosing_block(st)
                    after = blk[[id(z) for z in blk].index(id(st)) + 1:] if blk else []
                    warm = next((z for z in after if isinstance(z, ast.Return)), None)
                    if warm is not None and all(au.same(r.value, warm.value) for r in rets):
                        ctx.ok(f"{pid}-L5", site, f"{fn.name}: cold path builds, then answers like the warm path")
                    else:
                        ctx.undecided(f"{pid}-L5", site, f"{fn.name}: the cold path (`self.{f} is None`) builds the cache and returns a value that is not "
                                      f"syntactically the answer of the warm path", "")
        # L4: judged on the methods a user can call (private helpers are covered through their public callers)
        written = set().union(*lc.writers().values()) if lc.writers() else set()
        written &= lc.guard_fields
        for name, (m, fn, o) in sorted(lc.methods.items()):
            if name.startswith("_"):
                continue
            resets = lc.reset_closure(name)
            if not resets:
                continue
            site = ctx.site(m.name, fn)
            if name == "clear":
                missing = sorted(written - resets)
                ctx.check(not missing, f"{pid}-L4", site,
                          f"clear() of {qual} leaves {', '.join('self.' + x for x in missing)} built",
                          "a cleared object must behave like a fresh one: stale cache survives clear()",
                          note=f"{qual}.clear resets {len(resets)} fields")
            else:
                need = set()
                for f in resets:
                    need |= lc.group(f)
                    need |= {h for h in written if f in lc.group(h)}
                missing = sorted((need & written) - resets)
                ctx.check(not missing, f"{pid}-L4", site,
                          f"{name}() resets part of a cache group, leaving {', '.join('self.' + x for x in missing)} built",
                          "resetting one member of a group of caches that are built together leaves the others stale",
                          note=f"{qual}.{name} resets whole groups")
        # L6: two builders of one rotationally sorted table must agree on sorting it (each property looks at the tables its own code sorts)
        _l6_sorted_builders(ctx, pid, lc, qual)
        # L7: clear() restores every piece of state that __init__ establishes and the queries modify
        _l7_state_reset(ctx, pid, lc, qual)
    ctx.require_count(f"{pid}-L1 entry points", n_entries, min_entries)
    ctx.require_count(f"{pid}-L1 guards", n_guards, min_guards)


class _Missing(Exception):
    pass


def _priv(ctx, rule, modname, cls, name, field=None, pred=None):
    """private anchor by name, else by role (the builder called by the guards of `field`, or the unique method satisfying pred)"""
    finder = None
    if field is not None:
        finder = lambda: hr.guard_callee(ctx.repo, modname, cls, field)
    elif pred is not None:
        finder = lambda: hr.method_with(ctx.repo, modname, cls, pred)
    r = hr.private_anchor(ctx, rule, modname, cls, name, finder)
    if r is None:
        raise _Missing()
    return r[1]


def _pub(ctx, modname, cls, name):
    r = hr.method_of(ctx.repo, modname, cls, name)
    if r is None:
        raise AnalysisError(f"anchor function {modname}::{cls}.{name} not found")
    return r[1]


def _callees(lc, entry, body):
    out = []
    for st in body:
        for c in au.calls(st):
            t = lc.resolve_call(c, entry)
            if t is not None:
                out.append(t)
    return out


def _closure(lc, entry, body=None, depth=6, private_only=False):
    """methods (entries) transitively called through self / super calls from `body` (default: the body of entry).
    private_only: public accessors are not entered (what a builder is made of is its private helpers; a query it issues on the way is
    answered by tables that are already built)"""
    seen, out = set(), []
    todo = [(t, 0) for t in _callees(lc, entry, body if body is not None else entry[1].body)]
    while todo:
        t, d = todo.pop()
        if id(t[1]) in seen or d > depth or (private_only and not t[1].name.startswith("_")):
            continue
        seen.add(id(t[1]))
        out.append(t)
        todo += [(u, d + 1) for u in _callees(lc, t, t[1].body)]
    return out


def _builds(lc, entry, body, f):
    """does `body` (statements of method `entry`) assign self.f a value, directly or through the methods it calls?"""
    from ..rules.lazy import _field_assignments
    for st in au.stmts(body):
        for tgt, val in _field_assignments(st):
            if tgt == f and not (isinstance(val, ast.Constant) and val.value is None):
                return True
    return any(f in lc.direct_writes(t[1]) for t in _closure(lc, entry, body))


def _mutated_fields(fn):
    """attributes of self that a method rebinds or updates in place"""
    out = set()
    for st in au.stmts(fn.body):
        for t in au.assign_targets(st):
            for n in ast.walk(t):
                if au.is_self_attr(n) and isinstance(n.ctx, ast.Store):
                    out.add(n.attr)
                if isinstance(n, ast.Subscript) and isinstance(n.ctx, ast.Store) and au.is_self_attr(n.value):
                    out.add(n.value.attr)
            if isinstance(st, ast.AugAssign) and au.is_self_attr(st.target):
                out.add(st.target.attr)
    for c in au.calls(fn):
        if isinstance(c.func, ast.Attribute) and au.is_self_attr(c.func.value) and c.func.attr in sx.Sx.MUTATORS:
            out.add(c.func.value.attr)
    return out


def _l7_state_reset(ctx, pid, lc, qual):
    if "clear" not in lc.methods or "__init__" not in lc.methods:
        return
    init = lc.methods["__init__"]
    clear = lc.methods["clear"]
    in_init = {id(init[1])} | {id(t[1]) for t in _closure(lc, init)}
    in_clear = {id(clear[1])} | {id(t[1]) for t in _closure(lc, clear)}
    established = lc.init_assigned()
    restored = set()
    for t in [clear] + _closure(lc, clear):
        restored |= _mutated_fields(t[1])
    # a builder of a lazy table re-establishes what it assigns each time the table is rebuilt after a reset
    from ..rules.lazy import _field_assignments
    for m, fn, o in lc.all_defs:
        if lc.direct_writes(fn) & lc.guard_fields:
            for st in au.stmts(fn.body):
                for tgt, val in _field_assignments(st):
                    if not isinstance(st, ast.AugAssign):
                        restored.add(tgt)
    site = ctx.site(clear[0].name, clear[1])
    stale = {}
    for name, (m, fn, o) in lc.methods.items():
        if id(fn) in in_init or id(fn) in in_clear:
            continue
        for f in _mutated_fields(fn):
            if f in established and f not in restored and f not in lc.lazy:
                stale.setdefault(f, name)
    for f, name in sorted(stale.items()):
        ctx.fail(f"{pid}-L7", site, f"clear() of {qual} does not restore self.{f}, which __init__ sets and {name}() modifies",
                 "a cleared object must behave like a fresh one: state recorded for the previous tables survives the reset and is trusted for the rebuilt ones")
    if not stale:
        ctx.ok(f"{pid}-L7", site, f"{qual}.clear restores the state established by __init__")


SORTER = "_sort_vertex_neighborhoods"


SORTED_TABLES = {"C01": ("_adjV2Cn", "_adjV2V"), "C03": ("_adjE2C", "_adjE2F")}     # tables a property's own code puts in rotational order


def _l6_sorted_builders(ctx, pid, lc, qual):
    tables = SORTED_TABLES.get(pid, ())
    cand = [n for n, (m_, f_, o_) in lc.methods.items() if n.startswith("_") and not n.startswith("__")
            and any(au.call_tail(c) in ("sort", "sorted") for c in au.calls(f_))
            and any(au.is_self_attr(n_, t) for n_ in au.walk(f_) for t in tables)]
    if len(cand) != 1:
        return
    sm, sfn, so = lc.methods[cand[0]]
    sxm = q.summarise(ctx.repo, lc.mod.name, lc.qual, sfn)
    sorted_fields = {q.field(b.value) for e, b in q.method_calls(sxm, ("sort",)) if isinstance(b, ast.Subscript) and q.field(b.value)} & set(tables)
    # builders called straight from a cold path `if self.<lazy field> is None: self.B()`
    direct = {}
    for m, fn, c in lc.all_defs:
        for st in au.stmts(fn.body):
            if isinstance(st, ast.If) and isinstance(st.test, ast.Compare) and len(st.test.ops) == 1 and isinstance(st.test.ops[0], ast.Is) \
                    and au.is_self_attr(st.test.left) and st.test.left.attr in lc.lazy:
                for t in _callees(lc, (m, fn, c), st.body):
                    direct[id(t[1])] = t
    info = []
    for t in direct.values():
        reach = [t] + _closure(lc, t, private_only=True)
        writes = set()
        for r in reach:
            writes |= lc.direct_writes(r[1])
        info.append((t, writes & sorted_fields, any(r[1] is sfn for r in reach)))
    for f in sorted(sorted_fields):
        sorting = [t for t, w, s_ in info if f in w and s_]
        for t, w, s_ in info:
            if f in w:
                site = ctx.site(t[0].name, t[1])
                ctx.check(s_ or not sorting, f"{pid}-L6", site,
                          f"{t[1].name}() builds self.{f} without the rotational sort that {sorting[0][1].name if sorting else ''}() applies to it",
                          f"both are called from `is None` guards: whichever query comes first decides whether self.{f} is in rotational order - "
                          "the answers depend on the order of the queries", note=f"{qual}: {t[1].name} builds self.{f} sorted like the other builders")


# ----------------------------------------------------------------------- C01-T1
ROLE_SLOT = {  # public accessor -> role of the slot of the half-edge record it must read
    "previous_corner": "corner-1", "next_corner": "corner+1", "opposite_corner": "opposite",
    "half_edge_to_corner": "corner0",
}
HE = "_half_edges"
NEED = ["corner0", "corner-1", "corner+1", "opposite", "face", "local0", "local+1"]


def _builder(ctx):
    """summary of SurfaceMesh._Connectivity._compute_connectivity with its private helpers followed (the rotational sort excluded)"""
    fn = _priv(ctx, "C01-T1", SURF, CONN, "_compute_connectivity", field="_half_edges")
    sorter = _find_sorter(ctx)
    x = q.summarise(ctx.repo, SURF, CONN, fn, policy=sx.Policy(never={sorter.name} if sorter is not None else set()))
    return fn, x


def record_layout(ctx, x):
    """(slot roles {role: [slot..]}, writer effect, face frame, in-face frame, key) from the stores into self._half_edges, or a string
    saying what could not be read."""
    ws = []
    for e in q.setitems(x, HE):
        v = x.expand(e.value)
        if isinstance(v, (ast.List, ast.Tuple)):
            ws.append((e, v))
    if len(ws) != 1:
        return f"{len(ws)} stores of a literal record into self.{HE}"
    w, rec = ws[0]
    faces = None
    for fr in w.frames:
        if fr.kind == "seq" and isinstance(fr.dom, ast.Attribute) and fr.dom.attr == "faces":
            faces = fr
    if faces is None:
        return "the record store is not inside a loop over the faces"
    row = ast.Subscript(value=faces.dom, slice=sx.N(faces.var), ctx=ast.Load())
    inner = None
    for fr in w.frames:
        if fr.kind == "seq" and q.same(fr.dom, row):
            inner = fr
    if inner is None:
        return "the record store is not inside a loop over the vertices of the face"
    extra = [fr for fr in w.frames if fr is not faces and fr is not inner]
    if extra or w.conds:
        return "the record store is nested in further loops / conditions"
    kf, kv = faces.var, inner.var

    def vertex_offset(t):
        return q.row_offset(t, kv, row)

    def corner_offset(t):
        k = q.lookup_key(t, "_adjVF2Cn")
        if k is None and isinstance(t, ast.Call) and q.field(t.func) == "vertex_to_corner_in_face" and len(t.args) == 2:
            k = ast.Tuple(elts=list(t.args), ctx=ast.Load())
        if isinstance(k, ast.Tuple) and len(k.elts) == 2 and isinstance(k.elts[1], ast.Name) and k.elts[1].id == kf:
            return vertex_offset(k.elts[0])
        return None
    roles = {}
    for i, t in enumerate(rec.elts):
        co = corner_offset(t)
        if co is not None:
            roles.setdefault({0: "corner0", -1: "corner-1", 1: "corner+1"}.get(co, f"corner{co:+d}"), []).append(i)
        elif isinstance(t, ast.Constant) and t.value is None:
            roles.setdefault("opposite", []).append(i)
        elif isinstance(t, ast.Name) and t.id == kf:
            roles.setdefault("face", []).append(i)
        else:
            mo = q.mod_offset(t, kv, row)
            if mo is not None:
                roles.setdefault({0: "local0", 1: "local+1"}.get(mo, f"local{mo:+d}"), []).append(i)
            else:
                roles.setdefault("unknown", []).append(i)
    return roles, w, rec, (kf, kv, row), vertex_offset, corner_offset


def t1_record_layout(ctx):
    repo = ctx.repo
    fn, x = _builder(ctx)
    site = ctx.site(SURF, fn)
    lay = record_layout(ctx, x)
    if isinstance(lay, str):
        ctx.undecided("C01-T1", site, "writer of the half-edge records not recognised", lay)
        return None
    roles, w, rec, (kf, kv, row), vertex_offset, corner_offset = lay
    wsite = ctx.site(SURF, w.fn, w.node)
    key = w.key
    ko = (vertex_offset(key.elts[0]), vertex_offset(key.elts[1])) if isinstance(key, ast.Tuple) and len(key.elts) == 2 else None
    if ko is None or None in ko:
        ctx.undecided("C01-T1", wsite, "key of the half-edge record not recognised", au.src(key))
    else:
        ctx.check(ko == (0, 1), "C01-T1", wsite,
                  f"half-edge record is keyed by (vertex {ko[0]:+d}, vertex {ko[1]:+d}) of the face instead of (this vertex, the next vertex)",
                  "the half edge leaving the i-th vertex of a face must be keyed by (that vertex, the next vertex of the face)",
                  note="key = (F[i], F[i+1])")
    if "unknown" in roles:
        ctx.undecided("C01-T1", wsite, "provenance of a slot of the half-edge record not recognised", f"slots {roles['unknown']} of {len(rec.elts)}")
        return None
    layout_ok = all(len(roles.get(r, [])) == 1 for r in NEED)
    if not layout_ok:
        ctx.undecided("C01-T1", wsite, "the half-edge record does not hold each of (corner, previous, next, opposite, face, i, i+1) exactly once",
                      f"slot provenance derived from the writer: {roles}")
        return None
    ctx.ok("C01-T1", wsite, f"record layout {roles}")
    slot = {r: roles[r][0] for r in NEED}
    # ---- corner -> half edge
    cn = q.setitems(x, "_Cn2he")
    good = [e for e in cn if q.frame_doms(e.frames) == q.frame_doms(w.frames) and not e.conds]
    if len(cn) != 1 or not good:
        ctx.undecided("C01-T1", site, "corner -> half-edge store not recognised", f"{len(cn)} store(s) into self._Cn2he")
    else:
        e = good[0]
        m = {fr.var: sx.N(wf.var) for fr, wf in zip(e.frames, w.frames)}
        k2, v2 = sx.substitute(e.key, m), sx.substitute(x.expand(e.value), m)
        ctx.check(corner_offset(k2) == 0 and q.same(v2, key), "C01-T1", ctx.site(SURF, e.fn, e.node),
                  "corner -> half-edge map does not send the corner of the i-th vertex of a face to the half edge leaving that vertex",
                  "next / previous / opposite corner look the record up through this map", note="_Cn2he[corner of F[i]] = key of its record")
    # ---- opposite slot
    opp = []
    for e in x.effects:
        if e.kind == "setitem":
            k = q.lookup_key(x.canon(e.base), HE)
            if k is not None:
                opp.append((e, k))
    if not opp:
        ctx.undecided("C01-T1", site, "no store into a slot of an existing half-edge record (filling of the opposite slot not found)", "")
    n_ok = 0
    for e, k in opp:
        esite = ctx.site(SURF, e.fn, e.node)
        s_idx = au.const(e.key)
        val = sx.assume_not_none(x.expand(e.value))
        reads = q.record_reads(val, HE)
        if not isinstance(s_idx, int) or len(reads) != 1 or reads[0][0] is not val:
            ctx.undecided("C01-T1", esite, "store into a half-edge record not recognised", "")
            continue
        _, k2, s2 = reads[0]
        over_all = any(fr.kind in ("keys", "seq") and q.field(_unlist(fr.dom)) == HE for fr in e.frames)
        cond_ok = all(_is_none_test(t) for t, _ in e.conds)
        if not over_all or not cond_ok:
            ctx.undecided("C01-T1", esite, "the opposite slot is not filled in a loop over all half edges guarded by existence tests only", "")
            continue
        ok = s_idx == slot["opposite"] and au.const(s2) == slot["corner0"] and q.reversed_pair(k, k2)
        ctx.check(ok, "C01-T1", esite,
                  f"a store into slot {s_idx} of the record of a half edge takes slot {au.src(s2)} of "
                  f"{'the reversed' if q.reversed_pair(k, k2) else 'another'} half edge; the opposite slot is {slot['opposite']}, the corner slot {slot['corner0']}",
                  "the opposite of half edge (A,B) is the corner recorded for (B,A)", note="opposite slot <- corner of the reversed half edge")
        n_ok += ok
    # ---- readers
    for name, role in ROLE_SLOT.items():
        rfn = _pub(ctx, SURF, CONN, name)
        rx = q.summarise(repo, SURF, CONN, rfn, policy=sx.Policy(never={fn.name}))
        rsite = ctx.site(SURF, rfn)
        reads = q.record_reads(rx.ret, HE) if rx.ret is not None else []
        if not reads:
            ctx.undecided("C01-T1", rsite, f"{name}: no read of a half-edge record in the value it returns", "")
            continue
        bad = [au.src(s) for _, _, s in reads if au.const(s) != slot[role]]
        if any(not isinstance(au.const(s), int) for _, _, s in reads):
            ctx.undecided("C01-T1", rsite, f"{name}: slot of the half-edge record is not a constant", "")
            continue
        ctx.check(not bad, "C01-T1", rsite, f"{name} reads slot {', '.join(bad)} of the half-edge record, the {role} slot is {slot[role]}",
                  f"writer layout: {roles}", note=f"{name} reads slot {slot[role]}")
    rfn = _pub(ctx, SURF, CONN, "direct_face")
    rx = q.summarise(repo, SURF, CONN, rfn, policy=sx.Policy(never={fn.name}))
    rsite = ctx.site(SURF, rfn)
    triple = (slot["face"], slot["local0"], slot["local+1"])
    n_reads = 0
    verdicts = []
    for conds, leaf in (sx.leaves(rx.ret) if rx.ret is not None else []):
        reads = q.record_reads(leaf, HE)
        if not reads:
            continue
        n_reads += 1
        if len(reads) == 1 and reads[0][0] is leaf and isinstance(leaf.slice, ast.Slice):
            sl = leaf.slice
            lo = au.const(sl.lower) if sl.lower is not None else 0
            hi = au.const(sl.upper) if sl.upper is not None else len(rec.elts)
            got = tuple(range(lo, hi)) if isinstance(lo, int) and isinstance(hi, int) and sl.step is None else None
            verdicts.append((got == triple, f"slice {au.src(sl)}"))
        elif len(reads) == 1 and reads[0][0] is leaf:
            verdicts.append((au.const(leaf.slice) == slot["face"], f"slot {au.src(leaf.slice)}"))
        elif isinstance(leaf, (ast.Tuple, ast.List)) and len(leaf.elts) == 3 and all(q.lookup_key(getattr(t, "value", None), HE) is not None for t in leaf.elts):
            verdicts.append((tuple(au.const(t.slice) for t in leaf.elts) == triple, f"slots {[au.src(t.slice) for t in leaf.elts]}"))
        else:
            verdicts.append((None, au.src(leaf)))
    if not n_reads or any(v is None for v, _ in verdicts):
        ctx.undecided("C01-T1", rsite, "direct_face: reads of the half-edge record not recognised", "")
    else:
        bad = [d for v, d in verdicts if not v]
        ctx.check(not bad, "C01-T1", rsite,
                  f"direct_face answers with {', '.join(bad)} of the half-edge record; the face is slot {slot['face']} and (face, i, i+1) are slots {triple}",
                  f"writer layout: {roles}", note="direct_face reads (face, i, i+1)")
    return slot


def _unlist(t):
    while isinstance(t, ast.Call) and isinstance(t.func, ast.Name) and t.func.id in ("list", "tuple", "sorted", "set") and len(t.args) == 1:
        t = t.args[0]
    if isinstance(t, ast.Call) and isinstance(t.func, ast.Attribute) and t.func.attr in ("keys", "items") and not t.args:
        t = t.func.value
    return t


def _is_none_test(t):
    """a (conjunction / disjunction of) `X is None` / `X is not None` / truthiness of a look-up"""
    if isinstance(t, ast.BoolOp):
        return all(_is_none_test(v) for v in t.values)
    if isinstance(t, ast.UnaryOp) and isinstance(t.op, ast.Not):
        return _is_none_test(t.operand)
    if isinstance(t, ast.Compare) and len(t.ops) == 1 and isinstance(t.ops[0], (ast.Is, ast.IsNot, ast.In, ast.NotIn)):
        return True
    return False


# ----------------------------------------------------------------------- C01-O1
MESH_RECV = {"self.connectivity": (SURF, CONN)}


def o1_edge_on_border(ctx):
    fn = _pub(ctx, SURF, "SurfaceMesh", "is_edge_on_border")
    site = ctx.site(SURF, fn)
    ps = au.params(fn, skip_self=True)
    if len(ps) < 2:
        raise AnalysisError("SurfaceMesh.is_edge_on_border no longer takes the two end points of the edge")
    u, v = ps[:2]
    x = q.summarise(ctx.repo, SURF, "SurfaceMesh", fn, policy=sx.Policy(also={"edge_to_faces"}), recv=MESH_RECV)

    def query(c):
        if isinstance(c, ast.Call) and isinstance(c.func, ast.Attribute) and not c.keywords:
            args = [a.id if isinstance(a, ast.Name) else None for a in c.args]
            if c.func.attr == "edge_id" and sorted(map(str, args)) == sorted([u, v]):
                return "e_none"
            if c.func.attr == "direct_face" and args == [u, v]:
                return "d_uv"
            if c.func.attr == "direct_face" and args == [v, u]:
                return "d_vu"
        return None

    def atom(t):
        nt = q.none_test(t)
        if nt is not None:
            name = query(nt[0])
            return (name, nt[1]) if name else None
        return None
    if x.ret is None:
        ctx.undecided("C01-O1", site, "is_edge_on_border: value returned from inside a loop", "")
        return
    try:
        names = q.atoms_in(x.ret, atom)
        bad = None
        for env in q.assignments(names | {"e_none", "d_uv", "d_vu"}):
            want = (not env["e_none"]) and (env["d_uv"] or env["d_vu"])
            if q.bool_eval(x.ret, env, atom) != want:
                bad = env
                break
    except q.Unknown as ex:
        ctx.undecided("C01-O1", site, "is_edge_on_border: a condition is not a `<connectivity query> is None` test", str(ex))
        return
    ctx.check(bad is None, "C01-O1", site, "is_edge_on_border is not `edge exists and (one of the two sides has no face)`",
              f"differs from the specification for {bad}", note="8 truth assignments")


# ----------------------------------------------------------------------- C01-P1
def _endpoints(t, edges_attr="edges"):
    """(edge index term, 0|1) when t is `<..>.edges[E][i]`"""
    if isinstance(t, ast.Subscript) and au.const(t.slice) in (0, 1) and isinstance(t.value, ast.Subscript) \
            and isinstance(t.value.value, ast.Attribute) and t.value.value.attr == edges_attr:
        return t.value.slice, au.const(t.slice)
    return None


def p1_partitions(ctx):
    repo = ctx.repo
    fn = _priv(ctx, "C01-P1", SURF, "SurfaceMesh", "_compute_interior_boundary_edges", field="_boundary_edges")

    def edge_pred(test, var, fr):
        if isinstance(test, ast.Call) and q.field(test.func) == "is_edge_on_border" and len(test.args) == 2 and not test.keywords:
            ends = [_endpoints(a) for a in test.args]
            if None not in ends and all(isinstance(e[0], ast.Name) and e[0].id == var for e in ends) and sorted(e[1] for e in ends) == [0, 1]:
                return True
        return None
    hr.partition(ctx, "C01-P1", SURF, "SurfaceMesh", fn, "_boundary_edges", "_interior_edges", ("edges",), edge_pred, "edges", recv=MESH_RECV)
    # ---- vertices: both end points of every border edge are flagged and collected; the interior is the complement
    fn = _priv(ctx, "C01-P1", SURF, "SurfaceMesh", "_compute_interior_boundary_vertices", field="_boundary_vertices")
    site = ctx.site(SURF, fn)
    x = q.summarise(repo, SURF, "SurfaceMesh", fn, recv=MESH_RECV)
    BE = ("boundary_edges", "_boundary_edges")

    def border_end(t, frames):
        """set of ends ({0}, {1} or {0, 1}) of the border edge visited by a loop over all border edges that term t denotes; None otherwise"""
        be = [fr for fr in frames if fr.kind == "seq" and q.field(fr.dom) in BE]
        if len(be) != 1:
            return None
        rest = [fr for fr in frames if fr is not be[0]]

        def is_edge(E):
            return isinstance(E, ast.Subscript) and q.field(E.value) in BE and isinstance(E.slice, ast.Name) and E.slice.id == be[0].var
        ep = _endpoints(t)
        if ep is not None and is_edge(ep[0]) and not rest:
            return {ep[1]}
        # every end of the edge: a loop over the row of the edge itself
        if len(rest) == 1 and rest[0].kind == "seq" and isinstance(rest[0].dom, ast.Subscript) and isinstance(rest[0].dom.value, ast.Attribute) \
                and rest[0].dom.value.attr == "edges" and is_edge(rest[0].dom.slice) and q.same(t, ast.Subscript(value=rest[0].dom, slice=sx.N(rest[0].var), ctx=ast.Load())):
            return {0, 1}
        return None
    flags = [e for e in q.setitems(x, "_is_vertex_on_border") if au.const(e.value) is True]
    sides = set()
    unread = False
    for e in flags:
        i = border_end(e.key, e.frames)
        if i is None or e.conds:
            unread = True
        else:
            sides |= i
    if unread or not flags:
        ctx.undecided("C01-P1", site, "the border flag of the vertices is not set in a plain loop over the border edges", f"{len(flags)} flag store(s)")
    else:
        ctx.check(sides == {0, 1}, "C01-P1", site, f"the border flag is set for end point {sorted(sides)} of each border edge only",
                  "both end points of every border edge are border vertices", note="both end points flagged")
    cb = q.Contents(x, "_boundary_vertices", props=("boundary_vertices",))
    ci = q.Contents(x, "_interior_vertices", props=("interior_vertices",))
    flag = hr.flag_pred("_is_vertex_on_border", "is_vertex_on_border")
    ends = [border_end(el, fr) for fr, cs, el, e in cb.ins if not cs]
    if cb.unknown or not cb.ins:
        ctx.undecided("C01-P1", site, "filling of self._boundary_vertices not recognised", "")
    elif len(ends) == len(cb.ins) and None not in ends:
        ctx.check(set().union(*ends) == {0, 1}, "C01-P1", site, f"the border vertex collection receives end point {sorted(set().union(*ends))} of each border edge only",
                  "both end points of every border edge are border vertices", note="both end points collected")
    elif len(cb.ins) == 1 and len(cb.ins[0][0]) == 1 and hr.seq_over(cb.ins[0][0][0], "vertices") and len(cb.ins[0][1]) == 1 \
            and flag(au.strip_not(*cb.ins[0][1][0])[0], cb.ins[0][0][0].var, None):
        ctx.check(au.strip_not(*cb.ins[0][1][0])[1], "C01-P1", site, "the border vertex list receives the vertices whose border flag is False", "",
                  note="border vertices = flagged vertices")
    else:
        ctx.undecided("C01-P1", site, "filling of self._boundary_vertices not recognised", "")
    ok = None
    if not ci.unknown and len(ci.ins) == 1:
        fr, cs, el, e = ci.ins[0]
        if len(fr) == 1 and hr.seq_over(fr[0], "vertices") and isinstance(el, ast.Name) and el.id == fr[0].var and len(cs) == 1:
            t, pol = au.strip_not(*cs[0])
            if flag(t, fr[0].var, None):
                ok = not pol
            elif isinstance(t, ast.Compare) and len(t.ops) == 1 and isinstance(t.ops[0], (ast.In, ast.NotIn)) and isinstance(t.left, ast.Name) \
                    and t.left.id == fr[0].var and (q.field(x.canon(t.comparators[0])) in ("_boundary_vertices", "boundary_vertices")):
                ok = isinstance(t.ops[0], ast.NotIn) == pol
    if ok is None:
        ctx.undecided("C01-P1", site, "filling of self._interior_vertices not recognised", "")
    else:
        ctx.check(ok, "C01-P1", site, "interior vertices are the vertices whose border flag is True", "interior and border vertices must partition the vertex set",
                  note="interior = complement of the flagged vertices")


# ----------------------------------------------------------------------- C01-S1
RINGS = {"vertex_to_corners", "vertex_to_vertices", "vertex_to_faces", "vertex_to_edges", "_adjV2Cn", "_adjV2V"}


def s1_order_independent_classification(ctx):
    """the border classification must not read a fixed position of a ring around a vertex: the order of a ring depends on
    config.sort_neighborhoods, the classification must not"""
    for qual, fld in (("is_vertex_on_border", None), ("is_edge_on_border", None), ("_compute_interior_boundary_vertices", "_boundary_vertices"),
                      ("_compute_interior_boundary_edges", "_boundary_edges")):
        try:
            fn = _pub(ctx, SURF, "SurfaceMesh", qual) if fld is None else _priv(ctx, "C01-S1", SURF, "SurfaceMesh", qual, field=fld)
        except _Missing:
            continue
        # the lazily built tables are not part of the classification: their builders (and the rotational sort they run) are not entered
        never = hr.builders(ctx.repo, SURF, CONN) | ({_find_sorter(ctx).name} if _find_sorter(ctx) is not None else set())
        x = q.summarise(ctx.repo, SURF, "SurfaceMesh", fn, recv=MESH_RECV, policy=sx.Policy(never=never))
        bad = None
        terms = [t for _, t in hr.all_terms(x)] + ([x.ret] if x.ret is not None else [])
        for t in terms:
            for n in ast.walk(x.expand(t)):
                if isinstance(n, ast.Subscript) and isinstance(au.const(n.slice), int):
                    b = n.value
                    name = None
                    if isinstance(b, ast.Call) and isinstance(b.func, ast.Attribute):
                        name = b.func.attr
                    elif isinstance(b, ast.Subscript) and isinstance(b.value, ast.Attribute):
                        name = b.value.attr
                    if name in RINGS:
                        bad = (name, au.const(n.slice))
        site = ctx.site(SURF, fn)
        ctx.check(bad is None, "C01-S1", site,
                  f"{qual}: the border classification reads position {bad[1] if bad else ''} of the ring {bad[0] if bad else ''} around a vertex",
                  "the order of the ring around a vertex depends on config.sort_neighborhoods (and on which queries were issued before); "
                  "the classification must be the same with sorting on or off", note=f"{qual}: no positional read of a vertex ring")


# ----------------------------------------------------------------------- C01-P2
def p2_symmetric_adjacency(ctx):
    fn = _priv(ctx, "C01-P2", LIN, "PolyLine._Connectivity", "_compute_connectivity", field="_adjV2V")
    site = ctx.site(LIN, fn)
    x = q.summarise(ctx.repo, LIN, "PolyLine._Connectivity", fn)
    ins = []
    for e, b in q.method_calls(x, ("add", "append")):
        k = q.lookup_key(b, "_adjV2V")
        if k is None and isinstance(b, ast.Call) and isinstance(b.func, ast.Attribute) and b.func.attr == "setdefault" \
                and q.field(b.func.value) == "_adjV2V" and b.args:
            k = b.args[0]
        if k is not None and len(e.args) == 1:
            ins.append((e, k, e.args[0]))
    if not ins:
        ctx.undecided("C01-P2", site, "no insertion into the vertex adjacency self._adjV2V[..]", "")
        return
    for e, k, v in ins:
        esite = ctx.site(LIN, e.fn, e.node)
        ek, ev = _endpoints(k), _endpoints(v)
        loop_ok = len(e.frames) == 1 and hr.seq_over(e.frames[0], "edges") and not e.conds
        if ek is None or ev is None or not loop_ok or not (q.same(ek[0], ev[0]) and isinstance(ek[0], ast.Name) and ek[0].id == e.frames[0].var):
            ctx.undecided("C01-P2", esite, "insertion into the vertex adjacency not made from the two end points of each edge in a plain loop over the edges", "")
            continue
        partner = [o for o in ins if o[0] is not e and q.frame_doms(o[0].frames) == q.frame_doms(e.frames) and not o[0].conds
                   and q.same(q.alpha(o[1], o[0].frames), q.alpha(v, e.frames)) and q.same(q.alpha(o[2], o[0].frames), q.alpha(k, e.frames))]
        ctx.check(bool(partner) and ek[1] != ev[1], "C01-P2", esite,
                  f"end point {ev[1]} of an edge is recorded as neighbour of end point {ek[1]} but not the converse",
                  "vertex adjacency must be symmetric: B in N(A) iff A in N(B)", note="adjacency inserted both ways")


# ----------------------------------------------------------------------- C01-W1 / W2
ACCESSORS = {"previous_corner", "next_corner", "opposite_corner", "half_edge_to_corner"}
STEP_NAMES = {"corner-1": "previous corner", "corner+1": "next corner", "opposite": "opposite corner"}
AROUND_VERTEX = [["corner-1", "opposite"], ["opposite", "corner+1"]]   # opposite(previous(c)) and next(opposite(c)) stay at the vertex of c


def _find_sorter(ctx):
    """the private method that puts the rings around a vertex in rotational order (by name, else: the one method sorting self._adjV2Cn[..])"""
    r = hr.method_of(ctx.repo, SURF, CONN, SORTER)
    if r is None:
        r = hr.method_with(ctx.repo, SURF, CONN, lambda f: any(au.call_tail(c) in ("sort", "sorted") for c in au.calls(f))
                           and any(au.is_self_attr(n, "_adjV2Cn") for n in au.walk(f)))
    return r[1] if r else None


def _sorter(ctx, rule="C01-W1"):
    fn = _find_sorter(ctx)
    if fn is None:
        ctx.undecided(rule, ctx.site(SURF, CONN), "the method that sorts the rings around a vertex was not found", "")
        raise _Missing()
    x = q.summarise(ctx.repo, SURF, CONN, fn, policy=sx.Policy(also=ACCESSORS, never={"_compute_connectivity"}))
    return fn, x


def nav_path(t, slot_role):
    """(start term, [roles applied, first to last]) of a chain of corner steps read from the half-edge records:
    record(_Cn2he[c])[slot] applied repeatedly"""
    roles = []
    while isinstance(t, ast.Subscript) and isinstance(au.const(t.slice), int):
        k = q.lookup_key(t.value, HE)
        c = q.lookup_key(k, "_Cn2he") if k is not None else None
        if c is None:
            break
        roles.append(slot_role.get(au.const(t.slice), f"slot {au.const(t.slice)}"))
        t = c
    return t, roles[::-1]


def _walks(x, slot_role):
    """loops that move a corner variable by steps through the half-edge records: [(frame, var, roles, init)]"""
    frames = []
    for e in x.effects:
        for fr in e.frames:
            if all(fr is not g for g in frames):
                frames.append(fr)
    out = []
    for fr in frames:
        for name, d in fr.carried.items():
            if d["next"] is None:
                continue
            start, roles = nav_path(sx.assume_not_none(x.expand(d["next"])), slot_role)
            if roles and isinstance(start, ast.Name) and start.id == f"$mu:{name}:{fr.var}":
                out.append((fr, name, roles, d["init"]))
    return out


def _counter(fr, x):
    """(name, sign) of the counters stepped by one per iteration of loop fr"""
    out = []
    for name, d in fr.carried.items():
        if d["next"] is None:
            continue
        try:
            p = sym.to_poly(d["next"], opaque=False)
        except sym.NotPoly:
            continue
        mu = f"$mu:{name}:{fr.var}"
        if p.coeff(mu) == sym.Poly.const(1) and p.without(mu).is_const() and abs(p.without(mu).const_value()) == 1:
            out.append((name, int(p.without(mu).const_value())))
    return out


def w1_rotational_sort(ctx, slot):
    fn, x = _sorter(ctx)
    site = ctx.site(SURF, fn)
    if slot is None:
        ctx.undecided("C01-W1", site, "layout of the half-edge record unknown (see C01-T1): the steps of the rotation walks cannot be read", "")
        return None
    slot_role = {v: k for k, v in slot.items()}
    walks = _walks(x, slot_role)
    if len(walks) != 2:
        ctx.undecided("C01-W1", site, f"{len(walks)} loop(s) stepping a corner through the half-edge records found, expected the two directions of rotation", "")
        return None
    for fr, name, roles, init in walks:
        ctx.check(roles in AROUND_VERTEX, "C01-W1", ctx.site(SURF, fn, fr.node),
                  f"a rotation walk steps to {' then '.join(STEP_NAMES.get(r, r) for r in roles)}: that corner is not at the same vertex",
                  "turning around a vertex is opposite(previous(c)) in one direction and next(opposite(c)) in the other",
                  note=f"step {' then '.join(roles)} stays at the vertex")
    (f1, n1, r1, i1), (f2, n2, r2, i2) = walks
    if r1 in AROUND_VERTEX and r2 in AROUND_VERTEX:
        ctx.check(r1 != r2, "C01-W1", site, "both rotation walks turn in the same direction",
                  "border vertices are walked in both directions; the second walk must undo the first", note="walks are inverse of each other")
    c1, c2 = _counter(f1, x), _counter(f2, x)
    if len(c1) != 1 or len(c2) != 1:
        ctx.undecided("C01-W1", site, "the rank counter of a rotation walk is not a single variable stepped by one per iteration", "")
    else:
        ctx.check(c1[0][1] == -c2[0][1], "C01-W1", site, f"the rank counter steps {c1[0][1]:+d} and {c2[0][1]:+d} in the two walks (must be opposite)",
                  "the two walks must extend one linear order", note="ranks step in opposite directions")
    ctx.check(q.same(i1, i2), "C01-W1", site, "the two rotation walks start from different corners", "both walks start from the same corner",
              note="same starting corner")
    return walks


# ----------------------------------------------------------------------- C01-W2
def w2_sorted_tables(ctx, slot):
    fn, x = _sorter(ctx, "C01-W2")
    site = ctx.site(SURF, fn)
    if slot is None:
        ctx.undecided("C01-W2", site, "layout of the half-edge record unknown (see C01-T1)", "")
        return
    slot_role = {v: k for k, v in slot.items()}
    walks = _walks(x, slot_role)
    # the rank table: the local dictionary the walks write `rank[corner] = counter` into
    ranks = set()
    for e in x.effects:
        if e.kind == "setitem" and sx.is_special(e.base, "$obj") and any(e.frames and e.frames[-1] is w[0] for w in walks) \
                and isinstance(e.key, ast.Name) and e.key.id.startswith("$mu:"):
            ranks.add(e.base.id)
    if len(ranks) != 1:
        ctx.undecided("C01-W2", site, "the table of ranks written by the rotation walks is not recognised", "")
        return
    rank = next(iter(ranks))
    sorts = {}
    for e, b in q.method_calls(x, ("sort",)):
        for f in ("_adjV2Cn", "_adjV2V"):
            k = q.lookup_key(b, f)
            if k is not None:
                sorts.setdefault(f, []).append((e, k, (e.kwargs or {}).get("key")))
    for e in x.effects:
        if e.kind == "setitem" and q.field(x.canon(e.base)) in ("_adjV2Cn", "_adjV2V") and isinstance(e.value, ast.Call) \
                and isinstance(e.value.func, ast.Name) and e.value.func.id == "sorted" and len(e.value.args) == 1 \
                and q.lookup_key(e.value.args[0], q.field(x.canon(e.base))) is not None and q.same(q.lookup_key(e.value.args[0], q.field(x.canon(e.base))), e.key):
            kw = {k.arg: k.value for k in e.value.keywords}
            sorts.setdefault(q.field(x.canon(e.base)), []).append((e, e.key, kw.get("key")))

    def vertex_loop(e, k):
        return isinstance(k, ast.Name) and any(fr.var == k.id and hr.seq_over(fr, "vertices") for fr in e.frames)

    def only_emptiness(e, k):
        for t, _ in e.conds:
            names = q.names_in(t) - {"self", "len"}
            if not ("_adjV2Cn" in au.src(t) and names <= {k.id}):
                return False
        return True
    keyfn = {}
    for f, what in (("_adjV2Cn", "corners"), ("_adjV2V", "neighbour vertices")):
        ss = sorts.get(f, [])
        if not ss and sorts:
            # one ring is sorted here; is the other one reordered anywhere in the construction of the connectivity?
            bfn = _priv(ctx, "C01-W2", SURF, CONN, "_compute_connectivity", field="_half_edges")
            bx = q.summarise(ctx.repo, SURF, CONN, bfn)
            touched = any(q.lookup_key(b, f) is not None for e, b in q.method_calls(bx, ("sort", "reverse"))) or \
                any(e.kind == "setitem" and q.field(bx.canon(e.base)) == f and isinstance(e.value, ast.Call) and au.call_tail(e.value) == "sorted" for e in bx.effects)
            if not touched:
                ctx.fail("C01-W2", site, f"the {what} around a vertex are never put in rotational order while the other ring is sorted",
                         "corners and neighbour vertices around a vertex must both come in rotational order (and stay aligned with each other)")
                continue
        if len(ss) != 1 or not vertex_loop(*ss[0][:2]) or ss[0][2] is None:
            ctx.undecided("C01-W2", site, f"the {what} around a vertex are not sorted by one `sort(key=..)` per vertex in the loop over all vertices", "")
            continue
        e, k, key = ss[0]
        if not only_emptiness(e, k):
            ctx.undecided("C01-W2", ctx.site(SURF, e.fn, e.node), f"the sort of the {what} around a vertex is guarded by a condition that is not about the vertex having corners", "")
            continue
        keyfn[f] = (e, k, key)
    if "_adjV2Cn" in keyfn:
        e, k, key = keyfn["_adjV2Cn"]
        t = q.apply_fn(x, key, [sx.N("$c")])
        if t is None:
            ctx.undecided("C01-W2", ctx.site(SURF, e.fn, e.node), "sort key of the corners around a vertex not recognised", "")
        else:
            t = sx.assume_not_none(t)
            ctx.check(isinstance(t, ast.Subscript) and sx.is_special(t.value, "$obj") and t.value.id == rank and q.same(t.slice, sx.N("$c")),
                      "C01-W2", ctx.site(SURF, e.fn, e.node), "corners around a vertex are not sorted by the rank the walks gave them", "",
                      note="corner key = rank of the corner")
    if "_adjV2V" in keyfn:
        e, k, key = keyfn["_adjV2V"]
        esite = ctx.site(SURF, e.fn, e.node)
        t = q.apply_fn(x, key, [sx.N("$v")])
        if t is not None and isinstance(t, ast.Subscript) and sx.is_special(t.value, "$obj") and t.value.id != rank and q.same(t.slice, sx.N("$v")):
            # key table filled beforehand: D[v] = ... for every neighbour v
            st = [s for s in x.effects if s.kind == "setitem" and sx.is_special(s.base, "$obj") and s.base.id == t.value.id]
            nb = ast.Subscript(value=ast.Attribute(value=sx.N("self"), attr="_adjV2V", ctx=ast.Load()), slice=k, ctx=ast.Load())
            good = [s for s in st if s.frames and s.frames[-1].kind == "seq" and q.same(s.frames[-1].dom, nb)
                    and q.same(s.key, ast.Subscript(value=nb, slice=sx.N(s.frames[-1].var), ctx=ast.Load())) and s.conds == e.conds]
            if len(st) != 1 or not good:
                t = None
            else:
                t = sx.substitute(st[0].value, {})
                v_term = st[0].key
        elif t is not None:
            v_term = sx.N("$v")
        if t is None:
            ctx.undecided("C01-W2", esite, "sort key of the neighbour vertices around a vertex not recognised", "")
        else:
            t = sx.assume_not_none(x.expand(t))
            ok = None
            if isinstance(t, ast.Subscript) and sx.is_special(t.value, "$obj") and t.value.id == rank:
                c = t.slice
                if isinstance(c, ast.Subscript) and isinstance(au.const(c.slice), int):
                    hk = q.lookup_key(c.value, HE)
                    if hk is not None and isinstance(hk, ast.Tuple) and len(hk.elts) == 2:
                        if au.const(c.slice) != slot["corner0"]:
                            ok = (False, f"slot {au.const(c.slice)} of the half-edge record instead of its corner")
                        elif q.same(hk.elts[0], k) and q.same(hk.elts[1], v_term):
                            ok = (True, "")
                        elif q.same(hk.elts[1], k) and q.same(hk.elts[0], v_term):
                            ok = (False, "the half edge arriving from the neighbour instead of the half edge leaving the vertex")
            if ok is None:
                ctx.undecided("C01-W2", esite, "sort key of the neighbour vertices around a vertex not recognised", "")
            else:
                ctx.check(ok[0], "C01-W2", esite, f"neighbour vertices are ranked through {ok[1]}",
                          "the neighbour reached by the half edge leaving the vertex at a corner takes the rank of that corner; the reversed half "
                          "edge belongs to another vertex's corners and has no rank here", note="vertex key = rank of corner of (A, v)")


# ----------------------------------------------------------------------- C01-D1
NOBUILD = sx.Policy(never={"_compute_connectivity", "_compute_edge_id", "_compute_face_ids"})


def _accessor(ctx, modname, cls, name, policy=None):
    fn = _pub(ctx, modname, cls, name)
    if policy is None:
        policy = sx.Policy(never=NOBUILD.never | hr.builders(ctx.repo, modname, cls))
    return fn, q.summarise(ctx.repo, modname, cls, fn, policy=policy)


def d1_opposite_face(ctx, slot):
    fn, x = _accessor(ctx, SURF, CONN, "opposite_face", policy=sx.Policy(also={"edge_to_faces"}, never=NOBUILD.never))
    site = ctx.site(SURF, fn)
    ps = au.params(fn, skip_self=True)
    if len(ps) < 4:
        raise AnalysisError("opposite_face no longer takes (u, v, F, return_inds)")
    u, v, F, ri = ps[:4]

    def side_val(t):
        """('none',) | ('face', (a, b)) | ('idx', vertex, (a, b)) | ('triple', (a, b)) for values read from the two sides of edge (u, v)"""
        if isinstance(t, ast.Constant) and t.value is None:
            return ("none",)
        if isinstance(t, ast.Call) and q.field(t.func) == "direct_face" and len(t.args) >= 2 and all(isinstance(a, ast.Name) for a in t.args[:2]):
            ab = (t.args[0].id, t.args[1].id)
            if set(ab) != {u, v}:
                return None
            inds = t.args[2] if len(t.args) > 2 else next((k.value for k in t.keywords if k.arg == "return_inds"), None)
            if inds is None or au.const(inds) is False:
                return ("face", ab)
            return ("triple", ab) if au.const(inds) is True else None
        if isinstance(t, ast.Subscript):
            base = side_val(t.value) if not q.lookup_key(t.value, HE) else None
            if base is not None and base[0] == "triple" and au.const(t.slice) in (0, 1, 2):
                i = au.const(t.slice)
                return ("face", base[1]) if i == 0 else ("idx", base[1][i - 1], base[1])
            k = q.lookup_key(t.value, HE)
            if k is not None and slot is not None and isinstance(k, ast.Tuple) and len(k.elts) == 2 and all(isinstance(a, ast.Name) for a in k.elts):
                ab = (k.elts[0].id, k.elts[1].id)
                if set(ab) != {u, v}:
                    return None
                s_ = au.const(t.slice)
                if s_ == slot["face"]:
                    return ("face", ab)
                if s_ == slot["local0"]:
                    return ("idx", ab[0], ab)
                if s_ == slot["local+1"]:
                    return ("idx", ab[1], ab)
                if isinstance(t.slice, ast.Slice) and au.const(t.slice.lower) == slot["face"] and t.slice.upper is None and t.slice.step is None \
                        and (slot["local0"], slot["local+1"]) == (slot["face"] + 1, slot["face"] + 2):
                    return ("triple", ab)
        return None

    def atom(t):
        if isinstance(t, ast.Name) and t.id == ri:
            return "ri"
        if isinstance(t, ast.Compare) and len(t.ops) == 1 and isinstance(t.ops[0], (ast.Eq, ast.NotEq)):
            l, r = t.left, t.comparators[0]
            other = r if isinstance(l, ast.Name) and l.id == F else (l if isinstance(r, ast.Name) and r.id == F else None)
            sv = side_val(sx.assume_not_none(other)) if other is not None else None
            if sv and sv[0] == "face":
                return ("eq_uv" if sv[1] == (u, v) else "eq_vu", isinstance(t.ops[0], ast.Eq))
        return None
    if x.ret is None:
        ctx.undecided("C01-D1", site, "opposite_face: value returned from inside a loop", "")
        return
    try:
        q.atoms_in(x.ret, atom, value=False)
        bad = None
        for env in q.assignments({"ri", "eq_uv", "eq_vu"}):
            if env["eq_uv"] and env["eq_vu"]:
                continue
            leaf = sx.assume_not_none(q.select(x.ret, env, atom))
            sv = side_val(leaf)
            if sv is not None and sv[0] == "triple":
                got = [("face", sv[1]), ("idx", sv[1][0], sv[1]), ("idx", sv[1][1], sv[1])]
            elif isinstance(leaf, (ast.Tuple, ast.List)):
                got = [side_val(e) for e in leaf.elts]
            else:
                got = [sv]
            if None in got:
                raise q.Unknown(au.src(leaf))
            side = (v, u) if env["eq_uv"] else ((u, v) if env["eq_vu"] else None)
            if side is None:
                want = [("none",)] * (3 if env["ri"] else 1)
            else:
                want = [("face", side), ("idx", u, side), ("idx", v, side)] if env["ri"] else [("face", side)]
            if got != want and bad is None:
                bad = (env, got, want)
    except q.Unknown as ex:
        ctx.undecided("C01-D1", site, "opposite_face: a condition or returned value is not read from the two sides of the edge", str(ex))
        return

    def show(vals):
        nm = {u: "u", v: "v"}
        return "(" + ", ".join("None" if w[0] == "none" else (f"face of ({nm[w[1][0]]},{nm[w[1][1]]})" if w[0] == "face" else
                                                              f"index of {nm[w[1]]} in the face of ({nm[w[2][0]]},{nm[w[2][1]]})") for w in vals) + ")"
    ctx.check(bad is None, "C01-D1", site,
              "opposite_face(u, v, F) does not return (face across the edge, index of u in it, index of v in it)" if bad is None else
              f"opposite_face(u, v, F) returns {show(bad[1])} where {show(bad[2])} is due",
              f"case {bad[0]}" if bad else "", note="opposite_face: roles of the values read from the two sides kept in every case")


# ----------------------------------------------------------------------- C01-D2
def _one_comp(ctx, rule, x, site, what):
    v = q.comp_view(x, x.ret) if x.ret is not None else None
    if v is None:
        ctx.undecided(rule, site, f"{what} is not recognised as a list built element by element", "")
    return v


def _sorted_fields(ctx):
    fn, x = _sorter(ctx, "C01-D2")
    out = set()
    for e, b in q.method_calls(x, ("sort",)):
        if isinstance(b, ast.Subscript) and q.field(b.value):
            out.add(q.field(b.value))
    return out


def d2_derived_accessors(ctx):
    repo = ctx.repo
    # ---- vertex_to_edges / vertex_to_faces: element-wise images of a rotationally sorted ring
    def edge_of(elt, elem, V):
        return isinstance(elt, ast.Call) and q.field(elt.func) == "edge_id" and len(elt.args) == 2 and not elt.keywords and \
            ({au.norm(a) for a in elt.args} == {au.norm(elem), au.norm(sx.N(V))})

    def face_of(elt, elem, V):
        if isinstance(elt, ast.Call) and q.field(elt.func) == "corner_to_face" and len(elt.args) == 1:
            return q.same(elt.args[0], elem)
        return isinstance(elt, ast.Call) and isinstance(elt.func, ast.Attribute) and elt.func.attr == "adj" and len(elt.args) == 1 \
            and q.is_attr_chain(elt.func.value, "self", "mesh", "face_corners") and q.same(elt.args[0], elem)
    OTHER_RINGS = {"vertex_to_edges": {"vertex_to_corners": "corner", "vertex_to_faces": "face"}}
    seen_defs = set()
    # vertex_to_edges is judged as each concrete class answers it (an override in the surface connectivity is the answer for surfaces)
    for modname, cls, name, source, image in [(LIN, "PolyLine._Connectivity", "vertex_to_edges", "vertex_to_vertices", edge_of),
                                             (SURF, CONN, "vertex_to_edges", "vertex_to_vertices", edge_of),
                                             (SURF, CONN, "vertex_to_faces", "vertex_to_corners", face_of)]:
        fn, x = _accessor(ctx, modname, cls, name)
        if (id(fn), name) in seen_defs:
            continue
        seen_defs.add((id(fn), name))
        modname = next((m.name for m in ctx.repo.modules.values() if any(f is fn for f in m.funcs.values())), modname)
        site = ctx.site(modname, fn)
        V = au.params(fn, skip_self=True)[0]
        t = x.ret
        tab = None
        if t is not None:
            k = q.lookup_key(t, q.field(t.value) if isinstance(t, ast.Subscript) else (q.field(t.func.value) if isinstance(t, ast.Call) and isinstance(t.func, ast.Attribute) else None))
            if k is not None and isinstance(k, ast.Name) and k.id == V:
                tab = q.field(t.value) if isinstance(t, ast.Subscript) else q.field(t.func.value)
        if tab is not None:
            ctx.check(tab in _sorted_fields(ctx), "C01-D2", site,
                      f"{name} answers from the stored table self.{tab}, which is not put in rotational order by _sort_vertex_neighborhoods",
                      f"{name}(V)[k] must correspond to {source}(V)[k]: the rotational order around the vertex and the alignment of the two lists are part of the contract",
                      note=f"{name} reads a rotationally sorted table")
            continue
        v = _one_comp(ctx, "C01-D2", x, site, name)
        if v is None:
            continue
        frames, conds, elt = v
        src_ok = len(frames) == 1 and frames[0].kind == "seq" and isinstance(frames[0].dom, ast.Call) and q.field(frames[0].dom.func) == source \
            and len(frames[0].dom.args) == 1 and q.same(frames[0].dom.args[0], sx.N(V))
        if not src_ok:
            other = None
            if len(frames) == 1 and frames[0].kind == "seq" and isinstance(frames[0].dom, ast.Call) and len(frames[0].dom.args) == 1 \
                    and q.same(frames[0].dom.args[0], sx.N(V)):
                other = OTHER_RINGS.get(name, {}).get(q.field(frames[0].dom.func))
            if other and not conds:
                ctx.fail("C01-D2", site, f"{name} lists one element per {other} of the vertex instead of one per neighbour vertex",
                         f"a border vertex has one more incident edge than {other}s: the ring is one element short there and no longer aligned with {source}(V)")
            else:
                ctx.undecided("C01-D2", site, f"{name} does not run over {source}(V)", "")
            continue
        elem = ast.Subscript(value=frames[0].dom, slice=sx.N(frames[0].var), ctx=ast.Load())
        if conds:
            truthy = [t for t, p in conds if p and image(t, elem, V)]
            if truthy:
                ctx.fail("C01-D2", site, f"{name} drops the elements of {source}(V) whose image is falsy (index 0 is a valid index)",
                         f"{name}(V)[k] must correspond to {source}(V)[k] (same length, same rotational order)")
            else:
                ctx.undecided("C01-D2", site, f"{name} filters the elements of {source}(V)", f"{[au.canon_test(t, p) for t, p in conds]}")
            continue
        if not image(elt, elem, V):
            ctx.undecided("C01-D2", site, f"{name}: the image of an element of {source}(V) is not recognised", au.src(elt))
            continue
        ctx.ok("C01-D2", site, f"{name} = map over {source}")
    # ---- face_to_edges
    fn, x = _accessor(ctx, SURF, CONN, "face_to_edges")
    site = ctx.site(SURF, fn)
    F = au.params(fn, skip_self=True)[0]
    row = _faces_row(F)
    v = _one_comp(ctx, "C01-D2", x, site, "face_to_edges")
    if v is not None:
        frames, conds, elt = v
        verdict = _sides_loop(frames, conds, row)
        if verdict is None or not (isinstance(elt, ast.Call) and q.field(elt.func) == "edge_id" and len(elt.args) == 2):
            ctx.undecided("C01-D2", site, "face_to_edges is not recognised as one edge_id(..) per index of the face", "")
        elif verdict is not True:
            ctx.fail("C01-D2", site, f"face_to_edges {verdict}", "the k-th edge of a face is the side leaving its k-th vertex; a face has as many sides as vertices")
        else:
            offs = [q.row_offset(a, frames[0].var, row) for a in elt.args]
            if None in offs:
                ctx.undecided("C01-D2", site, "face_to_edges: end points of a side not recognised", "")
            else:
                ctx.check(sorted(offs) == [0, 1], "C01-D2", site, f"face_to_edges joins vertices {offs[0]:+d} and {offs[1]:+d} of the face (relative to the k-th)",
                          "the k-th edge of a face is the side leaving its k-th vertex", note="face_to_edges = sides in face order")
    # ---- face_to_corners
    fn, x = _accessor(ctx, SURF, CONN, "face_to_corners")
    site = ctx.site(SURF, fn)
    F = au.params(fn, skip_self=True)[0]
    row = _faces_row(F)
    rng = q._strip_conv(x.ret) if x.ret is not None else None
    first = lambda e: "FIRST" if (q.lookup_key(e, "_adjF2Cn") is not None and q.same(q.lookup_key(e, "_adjF2Cn"), sx.N(F))) or \
        (isinstance(e, ast.Call) and q.field(e.func) == "face_to_first_corner" and len(e.args) == 1 and q.same(e.args[0], sx.N(F))) else None
    v = None
    if isinstance(rng, ast.Call) and isinstance(rng.func, ast.Name) and rng.func.id == "range" and len(rng.args) == 2 and not rng.keywords:
        ln = lambda e: "LEN" if isinstance(e, ast.Call) and isinstance(e.func, ast.Name) and e.func.id == "len" and len(e.args) == 1 and q.same(e.args[0], row) else None
        lo, hi = sym.to_poly(rng.args[0], atom_of=first), sym.to_poly(rng.args[1], atom_of=lambda e: first(e) or ln(e))
        if lo == sym.Poly.atom("FIRST") and (hi - lo - sym.Poly.atom("LEN")).is_const():
            d = int((hi - lo - sym.Poly.atom("LEN")).const_value())
            ctx.check(d == 0, "C01-D2", site, f"face_to_corners lists {d:+d} corners compared with the number of vertices of the face",
                      "corners of a face are stored consecutively, in the order of its vertices", note="face_to_corners = range(first, first + n)")
        else:
            ctx.undecided("C01-D2", site, "face_to_corners: range not recognised as starting at the first corner of the face", "")
    else:
        v = _one_comp(ctx, "C01-D2", x, site, "face_to_corners")
    if v is not None:
        frames, conds, elt = v
        verdict = _sides_loop(frames, conds, row)
        if verdict is None:
            ctx.undecided("C01-D2", site, "face_to_corners is not recognised as one corner per index of the face", "")
        elif verdict is not True:
            ctx.fail("C01-D2", site, f"face_to_corners {verdict}", "a face has as many corners as vertices")
        else:
            p = sym.to_poly(elt, atom_of=first)
            if "FIRST" not in p.atoms():
                ctx.undecided("C01-D2", site, "face_to_corners: corner not computed from the first corner of the face", "")
            else:
                ctx.check(p == sym.Poly.atom("FIRST") + sym.Poly.atom(frames[0].var), "C01-D2", site,
                          "face_to_corners is not [first corner + k for each index k of the face]",
                          "corners of a face are stored consecutively, in the order of its vertices", note="face_to_corners consecutive")
    # ---- face_to_faces
    fn, x = _accessor(ctx, SURF, CONN, "face_to_faces")
    site = ctx.site(SURF, fn)
    F = au.params(fn, skip_self=True)[0]
    v = _one_comp(ctx, "C01-D2", x, site, "face_to_faces")
    if v is not None:
        frames, conds, elt = v
        ok = len(frames) == 1 and frames[0].kind == "seq" and isinstance(frames[0].dom, ast.Call) and q.field(frames[0].dom.func) == "face_to_corners" \
            and len(frames[0].dom.args) == 1 and q.same(frames[0].dom.args[0], sx.N(F))
        if ok:
            elem = ast.Subscript(value=frames[0].dom, slice=sx.N(frames[0].var), ctx=ast.Load())
            opp = lambda t: isinstance(t, ast.Call) and q.field(t.func) == "opposite_corner" and len(t.args) == 1 and q.same(t.args[0], elem)
            elt_ok = isinstance(elt, ast.Call) and q.field(elt.func) == "corner_to_face" and len(elt.args) == 1 and opp(elt.args[0])
            filt = [q.holds_none(t, p) for t, p in conds]
            filt_ok = len(conds) == 1 and filt[0] is not None and filt[0][1] is False and opp(filt[0][0])
        if not ok or not elt_ok or (conds and not filt_ok):
            ctx.undecided("C01-D2", site, "face_to_faces is not recognised as `face of the opposite corner` of each corner of the face", "")
        else:
            ctx.check(bool(conds), "C01-D2", site, "face_to_faces does not drop the sides that have no opposite corner",
                      "faces around a face are the faces across each of its sides, border sides dropped", note="face_to_faces via opposite corners")
    # ---- edge_to_faces
    fn, x = _accessor(ctx, SURF, CONN, "edge_to_faces")
    site = ctx.site(SURF, fn)
    u, v_ = au.params(fn, skip_self=True)[:2]
    t = x.ret

    def df(e):
        if isinstance(e, ast.Call) and q.field(e.func) == "direct_face" and len(e.args) == 2 and not e.keywords and all(isinstance(a, ast.Name) for a in e.args):
            return (e.args[0].id, e.args[1].id)
        return None
    if not (isinstance(t, (ast.Tuple, ast.List)) and len(t.elts) == 2 and None not in [df(e) for e in t.elts]):
        ctx.undecided("C01-D2", site, "edge_to_faces is not a pair of direct_face(..) answers", "")
    else:
        ctx.check([df(e) for e in t.elts] == [(u, v_), (v_, u)], "C01-D2", site,
                  "edge_to_faces(u, v) does not return (direct_face(u,v), direct_face(v,u)) in that order", "the face on either side of an edge, direct side first",
                  note="edge_to_faces = both sides")


def _faces_row(F):
    return ast.Subscript(value=ast.Attribute(value=ast.Attribute(value=sx.N("self"), attr="mesh", ctx=ast.Load()), attr="faces", ctx=ast.Load()),
                         slice=sx.N(F), ctx=ast.Load())


def _sides_loop(frames, conds, row):
    """True when the loop visits every index of the face once; a text when it recognisably does not; None when not recognised"""
    if len(frames) != 1:
        return None
    fr = frames[0]
    if conds:
        return None
    if fr.kind == "seq" and not fr.extra and q.same(fr.dom, row):
        return True
    if fr.kind == "range" and not isinstance(fr.dom, ast.Tuple):
        try:
            p = sym.to_poly(fr.dom, atom_of=lambda e: "LEN" if isinstance(e, ast.Call) and isinstance(e.func, ast.Name) and e.func.id == "len"
                            and len(e.args) == 1 and q.same(e.args[0], row) else None, opaque=False)
        except sym.NotPoly:
            return None
        d = p - sym.Poly.atom("LEN")
        if d.is_const() and d.const_value() != 0:
            return f"runs over {int(d.const_value()):+d} indices compared with the number of vertices of the face"
    return None


# ----------------------------------------------------------------------- C01-D3
def d3_definitional_accessors(ctx):
    repo = ctx.repo
    # ---- other_edge_end(E, V)
    fn, x = _accessor(ctx, LIN, "PolyLine._Connectivity", "other_edge_end")
    site = ctx.site(LIN, fn)
    E, V = au.params(fn, skip_self=True)[:2]
    hr.two_ended(ctx, "C01-D3", site, x, "other_edge_end(E, V)", V,
                 lambda t: (_endpoints(t) or (None, None))[1] if _endpoints(t) and q.same(_endpoints(t)[0], sx.N(E)) else None,
                 "the other endpoint of E if V is one of its endpoints, else None")
    # ---- in_face_index(F, V)
    fn, x = _accessor(ctx, SURF, CONN, "in_face_index")
    site = ctx.site(SURF, fn)
    F, V = au.params(fn, skip_self=True)[:2]
    hr.position_of(ctx, "C01-D3", site, x, "in_face_index(F, V)", _faces_row(F), V)
    # ---- direct_face(u, v)
    fn, x = _accessor(ctx, SURF, CONN, "direct_face")
    site = ctx.site(SURF, fn)
    ps = au.params(fn, skip_self=True)
    u, v = ps[:2]

    def is_uv(k):
        return isinstance(k, ast.Tuple) and len(k.elts) == 2 and q.same(k.elts[0], sx.N(u)) and q.same(k.elts[1], sx.N(v))

    def atom(t):
        if isinstance(t, ast.Compare) and len(t.ops) == 1 and isinstance(t.ops[0], (ast.In, ast.NotIn)) and q.field(t.comparators[0]) == HE and is_uv(t.left):
            return ("present", isinstance(t.ops[0], ast.In))
        nt = q.none_test(t)
        if nt is not None and q.lookup_key(nt[0], HE) is not None and is_uv(q.lookup_key(nt[0], HE)):
            return ("present", not nt[1])
        if isinstance(t, ast.Name) and t.id in ps:
            return t.id
        return None
    if x.ret is None:
        ctx.undecided("C01-D3", site, "direct_face: value returned from inside a loop", "")
    else:
        try:
            names = q.atoms_in(x.ret, atom, value=False)
            verdict = True if "present" in names else None
            for env in q.assignments(names):
                leaf = q.select(x.ret, env, atom)
                reads = q.record_reads(leaf, HE)
                if env.get("present"):
                    if not reads:
                        verdict = None
                    elif not all(is_uv(k) for _, k, _ in reads) and verdict is not None:
                        verdict = "when the half edge (u, v) exists the answer is read from the record of another half edge"
                else:
                    nones = isinstance(leaf, ast.Constant) and leaf.value is None or \
                        (isinstance(leaf, (ast.Tuple, ast.List)) and all(isinstance(e, ast.Constant) and e.value is None for e in leaf.elts))
                    if reads and verdict is not None:
                        verdict = "when the half edge (u, v) does not exist the answer is still read from a record"
                    elif not nones and not reads:
                        verdict = None
        except q.Unknown:
            verdict = None
        if verdict is None:
            ctx.undecided("C01-D3", site, "direct_face is not recognised as a look-up of the record of (u, v)", "")
        else:
            ctx.check(verdict is True, "C01-D3", site, f"direct_face(u, v): {verdict}", "direct_face(u, v) answers from the record of (u, v) exactly when that half edge exists (None otherwise)",
                      note="direct_face present / absent")
    # ---- common_edge(iF1, iF2)
    fn, x = _accessor(ctx, SURF, CONN, "common_edge")
    site = ctx.site(SURF, fn)
    f1, f2 = au.params(fn, skip_self=True)[:2]
    row = _faces_row(f1)
    sf = q.search_form(x)
    verdict = None
    if sf is not None:
        frames, conds, value, default = sf
        if _sides_loop(frames, [], row) is True and len(conds) == 1:
            he = q.holds_eq(*conds[0])
            if he is not None and he[2]:
                sides = [he[0], he[1]]
                call = next((c for c in sides if isinstance(c, ast.Call) and q.field(c.func) == "opposite_face" and len(c.args) >= 3), None)
                other = next((c for c in sides if c is not call), None)
                if call is not None and isinstance(other, ast.Name):
                    offs = [q.row_offset(a, frames[0].var, row) for a in call.args[:2]]
                    val_ok = isinstance(value, ast.Call) and au.call_tail(value) == "keyify" and len(value.args) == 2 \
                        and {au.norm(a) for a in value.args} == {au.norm(a) for a in call.args[:2]}
                    if None not in offs and isinstance(call.args[2], ast.Name) and val_ok:
                        if sorted(offs) != [0, 1]:
                            verdict = f"tests the pair of vertices {offs[0]:+d}, {offs[1]:+d} of the face, which is not a side"
                        elif (call.args[2].id, other.id) != (f1, f2):
                            verdict = f"asks for the face opposite to {call.args[2].id} and compares it with {other.id}"
                        else:
                            verdict = True
    if verdict is None:
        ctx.undecided("C01-D3", site, "common_edge is not recognised as a search over the sides of the first face", "")
    else:
        ctx.check(verdict is True, "C01-D3", site, f"common_edge(F1, F2) {verdict}",
                  "common_edge(F1, F2) tests every side (f[i], f[i+1]) of F1 for `the face across it is F2`", note="common_edge over all sides")


# ----------------------------------------------------------------------- C01-G1
MDATA = "mesh.mesh_data"


def g1_corner_generation(ctx):
    fn = _priv(ctx, "C01-G1", MDATA, "RawMeshData", "_generate_face_corners",
               pred=lambda f: f.name != "clear" and any(au.call_tail(c) == "append" and isinstance(c.func, ast.Attribute) and au.is_self_attr(c.func.value, "face_corners")
                                                        for c in au.calls(f)))
    site = ctx.site(MDATA, fn)
    x = q.summarise(ctx.repo, MDATA, "RawMeshData", fn)
    apps = [(e, b) for e, b in q.method_calls(x, ("append",)) if q.field(b) == "face_corners"]
    if not apps:
        # the two parallel arrays assigned as a whole: [v for F in faces for v in F] and [iF for iF, F in enumerate(faces) for _ in F]
        arrays = {}
        for s_ in x.effects:
            if s_.kind == "setattr" and q.field(s_.base) == "face_corners" and s_.key in ("_elem", "_adj"):
                v = x.expand(s_.value)
                if isinstance(v, (ast.ListComp, ast.GeneratorExp)) and hasattr(v, "_frames"):
                    arrays[s_.key] = v
        good = set()
        for k, v in arrays.items():
            fr = v._frames
            if len(fr) == 2 and not v._conds and hr.seq_over(fr[0], "faces") and fr[1].kind == "seq" \
                    and q.same(fr[1].dom, ast.Subscript(value=fr[0].dom, slice=sx.N(fr[0].var), ctx=ast.Load())):
                want = ast.Subscript(value=fr[1].dom, slice=sx.N(fr[1].var), ctx=ast.Load()) if k == "_elem" else sx.N(fr[0].var)
                if q.same(v.elt, want):
                    good.add(k)
        if good == {"_elem", "_adj"}:
            ctx.ok("C01-G1", site, "corner arrays rebuilt as a whole from every vertex of every face")
        else:
            ctx.undecided("C01-G1", site, "generation of the face corners not recognised (no append to self.face_corners, no whole-array rebuild)", "")
        return
    for e, b in apps:
        esite = ctx.site(MDATA, e.fn, e.node)
        fr = e.frames
        partial = [g for g in fr if g.kind == "range" and isinstance(g.dom, ast.Tuple) and any(
            isinstance(n, ast.Call) and isinstance(n.func, ast.Name) and n.func.id == "len" and n.args and q.field(n.args[0]) == "faces" for n in ast.walk(g.dom))]
        if partial:
            ctx.fail("C01-G1", esite, "face corners are appended for a sub-range of the faces only, on top of the corners that already exist",
                     "the existing corners are trusted without being compared with the faces they belong to: after a face was rewritten with another "
                     "number of vertices the corner container no longer matches the face list")
            continue
        ok = len(fr) == 2 and hr.seq_over(fr[0], "faces") and fr[1].kind == "seq" and \
            q.same(fr[1].dom, ast.Subscript(value=fr[0].dom, slice=sx.N(fr[0].var), ctx=ast.Load())) and len(e.args) == 2 \
            and q.same(e.args[0], ast.Subscript(value=fr[1].dom, slice=sx.N(fr[1].var), ctx=ast.Load())) and q.same(e.args[1], sx.N(fr[0].var))
        resets = {s_.key for s_ in x.effects if s_.kind == "setattr" and q.field(s_.base) == "face_corners" and s_.seq < e.seq
                  and q._empty_container(s_.value) and set(q.cond_srcs(s_.conds)) <= set(q.cond_srcs(e.conds))}
        if not ok or not {"_elem", "_adj"} <= resets:
            ctx.undecided("C01-G1", esite, "generation of the face corners not recognised as `empty the container, then one corner per vertex of every face`", "")
        else:
            ctx.ok("C01-G1", esite, "corners regenerated from scratch for every vertex of every face")



# ----------------------------------------------------------------------- generic families (msa/rules/generic.py)
_run_specific = run


def run(ctx):
    _run_specific(ctx)
    from ..rules import generic
    generic.apply(ctx, "C01", stale_modules=())


def _generic_rule_texts():
    from ..rules import generic
    return generic.rule_texts("C01", stale=False)


RULES.update(_generic_rule_texts())
