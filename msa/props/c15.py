"""C15 - border and feature extraction are exact (structural clauses)."""
from __future__ import annotations
import ast, math
from fractions import Fraction
from .. import au, sym, order
from ..core import AnalysisError
from ..rules import c151718 as H
from ..rules import hj_scope
from ..rules.c151718 import Unrecognised

FEAT = "processing.features"
BORD = "processing.border"
DET = "FeatureEdgeDetector"
SOURCES = ("_add_hard_edges_to_features", "_add_sharp_angles_to_features", "_add_border_to_features")

EXPLANATION = (
    "Static conformance of the feature detector and of the border extraction, read on a normal form of each function (private "
    "helpers, closures and generators inlined; comprehensions, conditional expressions and tuple assignments expanded; local "
    "names resolved to what they denote).  The condition under which each feature source flags an edge is rebuilt (domain of the "
    "loop, enclosing tests, earlier skip tests, the condition of the call in run(), constants and default options folded) and "
    "compared with the specified predicate under every ordering of the dot product against the thresholds and every truth "
    "assignment of the boolean atoms; sources only ever write True on a freshly cleared attribute; both endpoints of a feature "
    "edge reach the derived containers; offsets / component counter / visited book-keeping of the border extraction; skeleton and "
    "orientation of the border walk; the extraction never mutates a container of the mesh.  A construct that is not recognised "
    "ends `undecided`; only a recognised construct that contradicts a clause is reported.  Structural necessary conditions only.")

RULES = {
    "C15-O1": "an edge is flagged by the sharp-angle source iff it is interior, only_border is off and dot(N1,N2) < cos(60deg) = 0.5; "
              "by the hard-edge source iff it is a declared hard edge, interior (not on the border), only_border is off and "
              "dot(N1,N2) < 0.8; N1,N2 are the normals of the two faces adjacent to that very edge; each source ranges over its whole domain",
    "C15-M1": "each feature source only ever stores True into the feature attribute and hands it back on every exit; the two "
              "non-border sources flag nothing under only_border; the border source flags every border edge unconditionally; run() "
              "resets the containers, invokes all three sources exactly once on the same freshly created / cleared edge attribute",
    "C15-P1": "both endpoints of every feature edge enter feature_vertices and get their degree incremented by exactly one; "
              "local_feat_edges[v] holds the positions, in vertex_to_edges(v), of the flagged edges; the vertex flag is set for every feature vertex",
    "C15-B1": "extract_boundary_of_surface: the new index stored for a vertex is the running offset read before its increment, one "
              "vertex appended and one increment per visited vertex, one component step per extracted cycle, both endpoints of every "
              "edge remapped; visited book-keeping of both cycle collectors: a cycle is extracted from every not yet visited border "
              "vertex and all its vertices are marked",
    "C15-A1": "the border extraction functions only read the mesh: no container of the mesh (boundary_vertices, edges, ...) is popped, "
              "appended to, sorted, cleared or assigned into, directly or through a local alias",
    "C15-W1": "border walk orientation: the first step leaves through the head of the sorted neighbour list and the choice loop scans forward "
              "with first match (or tail / backward; never an arbitrary element of an unordered set), so that the chosen neighbour is joined by a border edge; skeleton: next vertex = first neighbour that is on the border and differs from the previous vertex, "
              "(previous, current) advance together, the walk stops on return to the start, each step records the vertex and the "
              "edge (previous, current), the closing edge is appended",
    "C15-G1": "quantities the detector derives from the vertex positions are recomputed on every run: an attribute the detector reuses when "
              "present (has_attribute / get_attribute) is never created persistent by the detector itself (persistent=False at the call)",
    "C15-K1": "corner order = round(angle * corner_order / (2 pi)) of the summed corner angles of the vertex over its incident faces, the "
              "angles being computed by corner_angles on this run",
}


def run(ctx):
    G = H.guarded
    calls = G(ctx, "C15-M1", FEAT, f"{DET}.run", m1_run) or {}
    G(ctx, "C15-O1", FEAT, DET, o1_m1_sources, calls)
    G(ctx, "C15-P1", FEAT, f"{DET}.run", p1_derived)
    G(ctx, "C15-B1", BORD, "extract_boundary_of_surface", b1_boundary)
    G(ctx, "C15-A1", BORD, "extract_border_cycle_all", a1_readonly)
    G(ctx, "C15-W1", BORD, "extract_border_cycle", w1_walk)
    G(ctx, "C15-K1", FEAT, f"{DET}._flag_corners", k1_corners)
    G(ctx, "C15-G1", FEAT, f"{DET}.run", g1_geometry_cache)


def _name(x):
    return isinstance(x, ast.Name)


def _src(x):
    return au.src(x)


# =========================================================================== run(): the three sources on one fresh attribute
def _strip_sources(e):
    while isinstance(e, ast.Call) and isinstance(e.func, ast.Attribute) and au.is_self_attr(e.func) and e.func.attr in SOURCES:
        kw = {k.arg: k.value for k in e.keywords}
        if len(e.args) >= 2:
            e = e.args[1]
        elif "feature_attr" in kw:
            e = kw["feature_attr"]
        else:
            break
    return e


def _attr_identity(root):
    """(container, name) of an expression whose every alternative is X.<container>.get_attribute(name) / create_attribute(name, ..)"""
    ids = set()
    for _, leaf in hj_scope.ifexp_leaves(root):
        if isinstance(leaf, ast.Call) and au.call_tail(leaf) in ("get_attribute", "create_attribute") and leaf.args \
                and isinstance(leaf.func, ast.Attribute) and isinstance(leaf.func.value, ast.Attribute) and isinstance(au.const(leaf.args[0]), str):
            ids.add((au.src(leaf.func.value.value), leaf.func.value.attr, au.const(leaf.args[0])))
        else:
            return None
    return ids.pop() if len(ids) == 1 else None


def _call_condition(ctx, S, node, mesh, stop):
    """abstracted condition (over only_border / has_hard / some_border) under which `node` of run() executes; None = not recognised"""
    def atom(x, boolean):
        if au.is_self_attr(x, "only_border"):
            return H.name("only_border")
        if isinstance(x, ast.Call) and au.call_tail(x) == "has_attribute" and len(x.args) == 1 and au.const(x.args[0]) == "hard_edges" \
                and isinstance(x.func, ast.Attribute) and au.src(x.func.value) == f"{mesh}.edges":
            return H.name("has_hard")
        if boolean and au.src(x) == f"{mesh}.boundary_edges":
            return H.name("some_border")
        if isinstance(x, ast.Compare) and len(x.ops) == 1 and au.src(x.left) == f"len({mesh}.boundary_edges)" and au.const(x.comparators[0]) == 0:
            if isinstance(x.ops[0], (ast.Gt, ast.NotEq)):
                return H.name("some_border")
            if isinstance(x.ops[0], ast.Eq):
                return ast.UnaryOp(op=ast.Not(), operand=H.name("some_border"))
        return None
    ab = H.Abs(atom)
    code = ab.boolean(H.conj(S.conds(node, stop=stop)))
    return None if ab.unknown else code


def m1_run(ctx):
    repo = ctx.repo
    fn0 = repo.func(FEAT, f"{DET}.run")
    site = ctx.site(FEAT, fn0)
    fn, S, nz = H.norm_fn(ctx, FEAT, f"{DET}.run", keep=SOURCES + ("clear", "log", "warn"), public_methods=True)
    mesh = (au.params(fn, skip_self=True) or ["mesh"])[0]
    calls = {s: [] for s in SOURCES}
    for c in au.calls(fn):
        if isinstance(c.func, ast.Attribute) and au.is_self_attr(c.func) and c.func.attr in SOURCES:
            calls[c.func.attr].append(c)
    out = {}
    roots = {}
    fnames = set()
    src_stmts = {}
    for s in SOURCES:
        cs = calls[s]
        if len(cs) != 1:
            mcls_ = repo.module(FEAT).classes[DET]
            referenced = any((isinstance(n, ast.Attribute) and n.attr == s) or (isinstance(n, ast.Constant) and n.value == s)
                             for f_ in mcls_.body if not (isinstance(f_, ast.FunctionDef) and f_.name == s) for n in ast.walk(f_))
            if len(cs) == 0 and referenced:
                ctx.undecided("C15-M1", site, f"run: the way {s} is invoked is not recognised", "")
            else:
                ctx.fail("C15-M1", site, f"run invokes {s} {len(cs)} time(s)", "each of the three feature sources contributes its edges exactly once")
            out[s] = None
            continue
        c = cs[0]
        st = au.enclosing_stmt(c)
        csite = ctx.site(FEAT, fn0, c)
        if H.loop_ancestors(c, stop=fn):
            ctx.undecided("C15-M1", csite, f"run invokes {s} inside a loop", "")
            out[s] = None
            continue
        kw = {k.arg: k.value for k in c.keywords}
        a_mesh = c.args[0] if c.args else kw.get("mesh")
        a_attr = c.args[1] if len(c.args) > 1 else kw.get("feature_attr")
        if a_mesh is None or a_attr is None or not H.is_name(S.canon(a_mesh, c), mesh):
            ctx.undecided("C15-M1", csite, f"run: arguments of {s} not recognised as (mesh, feature attribute)", "")
            out[s] = None
            continue
        root = _strip_sources(S.canon(a_attr, c))
        roots[s] = root
        if isinstance(a_attr, ast.Name):
            fnames.add(a_attr.id)
        rebinds = isinstance(st, ast.Assign) and st.value is c
        if rebinds:
            for t in st.targets:
                fnames.update(au.assigned_names(t))
        src_stmts[id(st)] = s
        cond = _call_condition(ctx, S, c, mesh, fn)
        out[s] = {"cond": cond, "rebinds": rebinds, "site": csite}
        if cond is None:
            ctx.undecided("C15-M1", csite, f"run invokes {s} under a condition that is not recognised", "")
        else:
            ctx.ok("C15-M1", csite, f"run: {s} invoked once (its condition enters the flag condition of the source)")
    # ---- one attribute: mesh.edges "feature"
    idents = {s: _attr_identity(r) for s, r in roots.items()}
    if roots:
        if any(i is None for i in idents.values()):
            ctx.undecided("C15-M1", site, "run: the attribute handed to the sources is not recognised as a get/create of a mesh attribute", "")
        else:
            bad = {s: i for s, i in idents.items() if i != (mesh, "edges", "feature")}
            ctx.check(not bad, "C15-M1", site, "run: a source does not work on the edge attribute \"feature\" of the mesh",
                      f"{ {s: i[1:] for s, i in bad.items()} }: the flags are published as mesh.edges['feature'] and turned into feature_edges",
                      note="run: all sources fill mesh.edges['feature']")
    # ---- must facts at the sources
    nf = set()
    for s in SOURCES:
        try:
            sfn, sS, _ = H.norm_fn(ctx, FEAT, f"{DET}.{s}")
        except AnalysisError:
            raise
        for c in au.calls(sfn):
            if au.call_tail(c) == "dot":
                for n in ast.walk(sS.canon(c, c)):
                    if isinstance(n, ast.Subscript) and au.is_self_attr(n.value):
                        nf.add(n.value.attr)
    nf = sorted(nf)
    CONT = ("feature_vertices", "feature_edges", "feature_degrees", "local_feat_edges")
    viol = []

    def gen_kill(node):
        g, k = set(), set()
        if isinstance(node, (ast.Assign, ast.AnnAssign)) and getattr(node, "value", None) is not None:
            v = node.value
            for t in au.assign_targets(node):
                if isinstance(t, ast.Name) and t.id in fnames and id(node) not in src_stmts:
                    if isinstance(v, ast.Call) and au.call_tail(v) == "create_attribute":
                        g.update(("fresh", "known", "nostale"))
                    elif isinstance(v, ast.Call) and au.call_tail(v) == "get_attribute":
                        g.add("known"); k.update(("fresh", "nostale"))
                    elif isinstance(v, ast.Name) and v.id in fnames:
                        pass
                    else:
                        k.update(("fresh", "known", "nostale"))
                for f in nf:
                    if au.is_self_attr(t, f):
                        (g if not (isinstance(v, ast.Constant) and v.value is None) else k).add("normals:" + f)
                for cn in CONT:
                    if au.is_self_attr(t, cn):
                        (g if H.is_empty_container(v) else k).add("reset:" + cn)
        if isinstance(node, ast.Expr) and isinstance(node.value, ast.Call):
            c = node.value
            if isinstance(c.func, ast.Attribute) and c.func.attr == "clear" and not c.args:
                if isinstance(c.func.value, ast.Name) and c.func.value.id in fnames:
                    g.update(("fresh", "nostale"))
                if H.is_name(c.func.value, "self"):
                    g.add("cleared")
                for cn in CONT:
                    if au.is_self_attr(c.func.value, cn):
                        g.add("reset:" + cn)
        return g, k

    def observe(state, node):
        if id(node) in src_stmts:
            viol.append((src_stmts[id(node)], node, state))

    H.must_flow(fn.body, gen_kill, observe=observe)
    seen = set()
    for s, node, state in viol:
        nsite = ctx.site(FEAT, fn0, node)
        if "fresh" not in seen:
            seen.add("fresh")
            root = roots.get(s)
            verdicts = []
            clears = {au.src(S.canon(c.func.value, c)) for c in au.calls(fn) if au.call_tail(c) == "clear" and isinstance(c.func, ast.Attribute) and not c.args}
            for _, leaf in (hj_scope.ifexp_leaves(root) if root is not None else []):
                if isinstance(leaf, ast.Call) and au.call_tail(leaf) == "create_attribute":
                    verdicts.append("ok")
                elif isinstance(leaf, ast.Call) and au.call_tail(leaf) == "get_attribute":
                    verdicts.append("ok" if au.src(leaf) in clears else "stale")
                else:
                    verdicts.append("?")
            if verdicts and all(v == "ok" for v in verdicts):
                ctx.ok("C15-M1", nsite, "run: the attribute handed to the sources is created, or fetched and cleared")
            elif "stale" in verdicts:
                ctx.fail("C15-M1", nsite, "the edge attribute 'feature' may be reused without being cleared",
                         "flags of a previous run / of the input file survive: the detector no longer flags *exactly* the specified edges")
            else:
                ctx.undecided("C15-M1", nsite, "run: creation / clearing of the feature attribute before the sources is not recognised", "")
        ok_clear = "cleared" in state or all("reset:" + cn in state for cn in CONT)
        if ok_clear:
            ctx.ok("C15-M1", nsite, f"run: containers reset when {s} runs")
        elif "cleared" not in seen:
            seen.add("cleared")
            mcls = repo.module(FEAT).classes[DET]
            wrappers = [f.name for f in mcls.body if isinstance(f, ast.FunctionDef) and f.name != "run"
                        and any(au.is_self_attr(c.func, "run") for c in au.calls(f) if isinstance(c.func, ast.Attribute))
                        and any(au.is_self_attr(c.func, "clear") for c in au.calls(f) if isinstance(c.func, ast.Attribute))]
            if wrappers:
                ctx.undecided("C15-M1", nsite, "run: the containers are reset by a caller of run(), not by run() itself", f"{wrappers}")
            else:
                ctx.fail("C15-M1", nsite, "self.clear() does not dominate the detection",
                         "feature_edges / feature_vertices / degrees of a previous run leak into this one")
        for f in nf:
            if "normals:" + f in state:
                ctx.ok("C15-M1", nsite, f"run: self.{f} set when {s} runs")
            elif "normals:" + f not in seen:
                seen.add("normals:" + f)
                ctx.fail("C15-M1", nsite, f"self.{f} may be unset when the sources run",
                         "the thresholds are applied to the face normals computed for this mesh")
    # ---- clear() resets all containers
    clr0 = repo.func(FEAT, f"{DET}.clear")
    clr, cS, _ = H.norm_fn(ctx, FEAT, f"{DET}.clear")
    reset = set()
    for st in au.stmts(clr.body):
        if isinstance(st, ast.Assign):
            for t in st.targets:
                if au.is_self_attr(t) and H.is_empty_container(cS.canon(st.value, st)) and any(st is x for x in clr.body):
                    reset.add(t.attr)
        if isinstance(st, ast.Expr) and isinstance(st.value, ast.Call) and au.call_tail(st.value) == "clear" \
                and isinstance(st.value.func, ast.Attribute) and au.is_self_attr(st.value.func.value) and any(st is x for x in clr.body):
            reset.add(st.value.func.value.attr)
    need = set(CONT)
    plain = all(isinstance(st, (ast.Assign, ast.Pass)) or (isinstance(st, ast.Expr) and (isinstance(st.value, ast.Constant) or (
        isinstance(st.value, ast.Call) and au.call_tail(st.value) in ("clear", "log")))) for st in clr.body)
    if not need <= reset and not plain:
        ctx.undecided("C15-M1", ctx.site(FEAT, clr0), "clear(): the way the feature containers are reset is not recognised", "")
    else:
      ctx.check(need <= reset, "C15-M1", ctx.site(FEAT, clr0), "clear() does not reset the four feature containers",
              f"not reset: {sorted(need - reset)}; a second run accumulates on top of the first: degrees are doubled, stale feature edges remain",
              note="clear resets the four containers")
    # ---- only_border comes from the constructor argument
    ini0 = repo.func(FEAT, f"{DET}.__init__")
    ini, iS, _ = H.norm_fn(ctx, FEAT, f"{DET}.__init__")
    ob = [st for st in au.stmts(ini.body) if isinstance(st, ast.Assign) and any(au.is_self_attr(t, "only_border") for t in st.targets)]
    if len(ob) != 1 or "only_border" not in au.params(ini):
        ctx.undecided("C15-M1", ctx.site(FEAT, ini0), "__init__: the store of the option only_border is not recognised", "")
    else:
        v = iS.canon(ob[0].value, ob[0])
        if isinstance(v, ast.Call) and au.call_tail(v) == "bool" and len(v.args) == 1:
            v = v.args[0]
        if isinstance(v, ast.Constant):
            ctx.fail("C15-M1", ctx.site(FEAT, ini0), "self.only_border is not the constructor argument only_border", "'only the border when so configured'")
        elif H.is_name(v, "only_border"):
            ctx.ok("C15-M1", ctx.site(FEAT, ini0), "only_border stored from the argument")
        elif isinstance(v, ast.Name) and v.id in au.params(ini):
            ctx.fail("C15-M1", ctx.site(FEAT, ini0), "self.only_border is not the constructor argument only_border",
                     "it is taken from another constructor argument: 'only the border when so configured'")
        else:
            ctx.undecided("C15-M1", ctx.site(FEAT, ini0), "__init__: the value stored in self.only_border is not recognised", "")
    return out


# =========================================================================== the three sources
SPEC = {
    "_add_sharp_angles_to_features": ("not only_border and not n1 and not n2 and dot < 0.5",
                                      "interior edge, only_border off, dot(N1,N2) < cos(60deg) = 0.5"),
    "_add_hard_edges_to_features": ("not only_border and hard and not n1 and not n2 and dot < 0.8",
                                    "declared hard edge, not on the border, only_border off, dot(N1,N2) < 0.8"),
    "_add_border_to_features": ("n1 or n2", "edge on the border, whatever the options"),
}
# an edge can only be declared hard when the attribute exists; an edge on the border implies a non-empty border
AXIOM = "(has_hard or not hard) and (some_border or not (n1 or n2))"


class Source:
    """Facts about one `_add_*_to_features(self, mesh, feature_attr)` method, read on its normal form."""

    def __init__(self, ctx, name):
        self.ctx, self.name = ctx, name
        self.fn0 = ctx.repo.func(FEAT, f"{DET}.{name}")
        self.site = ctx.site(FEAT, self.fn0)
        self.fn, self.S, self.nz = H.norm_fn(ctx, FEAT, f"{DET}.{name}")
        ps = au.params(self.fn, skip_self=True)
        self.ok_sig = len(ps) >= 2
        self.mesh, self.attr = (ps + [None, None])[:2]
        self.stores = []
        if self.ok_sig:
            for st, tgt, val in H.subscript_stores(self.fn, lambda x: True):
                if H.is_name(self.S.canon(tgt.value, st), self.attr):
                    self.stores.append((st, tgt, val))

    def edge_of(self, st, tgt):
        """how the key of a store relates to an edge: dict(e, loop, domain kind, E0, E1)   or raises Unrecognised / returns ('bad', text)"""
        key = tgt.slice
        mesh = self.mesh
        kc = self.S.canon(key, st)
        if not isinstance(key, ast.Name) or not isinstance(kc, ast.Name):
            if (isinstance(kc, ast.Call) and au.call_tail(kc) == "direct_face") or \
                    (isinstance(kc, ast.Subscript) and isinstance(kc.value, ast.Call) and au.call_tail(kc.value) in ("edge_to_faces", "direct_face")
                     and isinstance(au.const(kc.slice), int)):
                return ("bad", "the flagged index is a face of the edge, not the edge")
            raise Unrecognised(f"{self.name}: the index that is flagged is not a loop variable")
        e = kc.id
        for lp in H.for_ancestors(st, stop=self.fn):
            elem, idx, seq, start = H.loop_elem(lp)
            seqc = self.S.canon(seq, lp)
            s = au.src(seqc)
            if idx == e:
                if au.const(start) != 0:
                    return ("bad", "the flagged index is an enumeration index that does not start at 0")
                if s == f"{mesh}.edges":
                    return {"e": e, "loop": lp, "kind": "all"}
                return ("bad", f"the flagged index enumerates `{s}`, it is not an edge index")
            if H.is_name(elem, e) and idx is None:
                if s == f"{mesh}.id_edges" or H.is_range_len(seqc, f"{mesh}.edges"):
                    return {"e": e, "loop": lp, "kind": "all"}
                if s == f"{mesh}.boundary_edges":
                    return {"e": e, "loop": lp, "kind": "border"}
                if s == f"{mesh}.interior_edges":
                    return {"e": e, "loop": lp, "kind": "interior"}
                if isinstance(seqc, ast.Call) and au.call_tail(seqc) == "get_attribute" and len(seqc.args) == 1 \
                        and au.const(seqc.args[0]) == "hard_edges" and au.src(seqc.func.value) == f"{mesh}.edges":
                    return {"e": e, "loop": lp, "kind": "hard"}
                raise Unrecognised(f"{self.name}: the set of edges the loop ranges over is not recognised")
        raise Unrecognised(f"{self.name}: the loop that provides the flagged index is not recognised")

    def abstract(self, st, info, call_cond):
        mesh, e = self.mesh, info["e"]
        E0, E1 = f"{mesh}.edges[{e}][0]", f"{mesh}.edges[{e}][1]"
        F1 = f"{mesh}.connectivity.direct_face({E0}, {E1})"
        F2 = f"{mesh}.connectivity.direct_face({E1}, {E0})"
        normals = []

        def face_of(x):
            """'1' / '2' when x is <self.N>[F1] / [F2]"""
            if isinstance(x, ast.Subscript) and au.is_self_attr(x.value):
                s = au.src(x.slice)
                if s in (F1, F2):
                    normals.append(x.value.attr)
                    return "1" if s == F1 else "2"
            return None

        def atom(x, boolean):
            if au.is_self_attr(x, "only_border"):
                return H.name("only_border")
            s = au.src(x)
            if isinstance(x, ast.Call) and au.call_tail(x) in ("abs", "fabs", "absolute") and len(x.args) == 1 and not x.keywords \
                    and H.is_name(atom(x.args[0], False), "dot"):
                # |N1 . N2|: the sign of the dot product is lost before the comparison
                self.rectified.append(x)
                return H.name("dot")
            if isinstance(x, ast.Call):
                t = au.call_tail(x)
                if t == "has_attribute" and len(x.args) == 1 and au.const(x.args[0]) == "hard_edges" \
                        and isinstance(x.func, ast.Attribute) and au.src(x.func.value) == f"{mesh}.edges":
                    return H.name("has_hard")
                if t == "is_edge_on_border" and isinstance(x.func, ast.Attribute) and H.is_name(x.func.value, mesh) and len(x.args) == 2 \
                        and {au.src(a) for a in x.args} == {E0, E1}:
                    # an existing edge is on the border iff one of its two sides has no face (C01-O1)
                    return ast.BoolOp(op=ast.Or(), values=[H.name("n1"), H.name("n2")])
                if t == "dot" and not x.keywords:
                    ops = list(x.args) if len(x.args) == 2 else ([x.func.value, x.args[0]] if len(x.args) == 1 and isinstance(x.func, ast.Attribute) else None)
                    if ops:
                        a, b = face_of(ops[0]), face_of(ops[1])
                        if a and b and a != b and len(set(normals[-2:])) == 1:
                            return H.name("dot")
                        if a and b and a == b:
                            return ast.Constant(value=1)      # a unit normal dotted with itself
            if isinstance(x, ast.Compare) and len(x.ops) == 1 and isinstance(x.ops[0], (ast.Is, ast.IsNot)) \
                    and isinstance(x.comparators[0], ast.Constant) and x.comparators[0].value is None and au.src(x.left) in (F1, F2):
                n = H.name("n1" if au.src(x.left) == F1 else "n2")
                return n if isinstance(x.ops[0], ast.Is) else ast.UnaryOp(op=ast.Not(), operand=n)
            if isinstance(x, ast.Compare) and len(x.ops) == 1 and isinstance(x.ops[0], (ast.In, ast.NotIn)) and H.is_name(x.left, e):
                c = au.src(x.comparators[0])
                r = None
                if c == f"{mesh}.boundary_edges":
                    r = ast.BoolOp(op=ast.Or(), values=[H.name("n1"), H.name("n2")])
                elif c == f"{mesh}.interior_edges":
                    r = ast.UnaryOp(op=ast.Not(), operand=ast.BoolOp(op=ast.Or(), values=[H.name("n1"), H.name("n2")]))
                if r is not None:
                    return r if isinstance(x.ops[0], ast.In) else ast.UnaryOp(op=ast.Not(), operand=r)
            # emptiness of the border
            if boolean and s == f"{mesh}.boundary_edges":
                return H.name("some_border")
            if isinstance(x, ast.Compare) and len(x.ops) == 1 and au.src(x.left) == f"len({mesh}.boundary_edges)" and au.const(x.comparators[0]) == 0:
                if isinstance(x.ops[0], (ast.Gt, ast.NotEq)):
                    return H.name("some_border")
                if isinstance(x.ops[0], ast.Eq):
                    return ast.UnaryOp(op=ast.Not(), operand=H.name("some_border"))
            # emptiness test of the very container the loop ranges over: known inside the loop
            _, _, seq, _ = H.loop_elem(info["loop"])
            dom = au.src(self.S.canon(seq, info["loop"]))
            if isinstance(x, ast.Compare) and len(x.ops) == 1 and au.src(x.left) == f"len({dom})" and au.const(x.comparators[0]) == 0:
                if isinstance(x.ops[0], ast.Eq):
                    return ast.Constant(value=False)
                if isinstance(x.ops[0], (ast.Gt, ast.NotEq)):
                    return ast.Constant(value=True)
            if boolean and s == dom:
                return ast.Constant(value=True)
            return None

        self.rectified = []
        ab = H.Abs(atom, self.ctx.repo, FEAT, DET)
        conds = self.S.conds(st, stop=self.fn)
        code = ab.boolean(H.conj(conds))
        in_dom = {"all": ast.Constant(value=True),
                  "border": ast.BoolOp(op=ast.Or(), values=[H.name("n1"), H.name("n2")]),
                  "interior": ast.UnaryOp(op=ast.Not(), operand=ast.BoolOp(op=ast.Or(), values=[H.name("n1"), H.name("n2")])),
                  "hard": H.name("hard")}[info["kind"]]
        parts = [in_dom, code] + ([call_cond] if call_cond is not None else [])
        return ast.BoolOp(op=ast.And(), values=parts), ab.unknown, (normals[-1] if normals else None), conds


def _truth_operands(test):
    if isinstance(test, ast.UnaryOp) and isinstance(test.op, ast.Not):
        return _truth_operands(test.operand)
    if isinstance(test, ast.BoolOp):
        return [x for v in test.values for x in _truth_operands(v)]
    return [test]


def o1_m1_sources(ctx, calls):
    for name in SOURCES:
        S = Source(ctx, name)
        rule_o = "C15-M1" if name == "_add_border_to_features" else "C15-O1"
        call = calls.get(name)
        if not S.ok_sig:
            ctx.undecided("C15-M1", S.site, f"{name}: parameters (mesh, feature attribute) not recognised", "")
            continue
        if not S.stores:
            touched = any(isinstance(n, ast.Name) and n.id == S.attr and not isinstance(au.parent(n), ast.Return) for n in au.walk(S.fn.body))
            if touched:
                ctx.undecided("C15-M1", S.site, f"{name}: no store `feature_attr[e] = ...` recognised", "the attribute is used in a way the rule does not read")
            else:
                ctx.fail("C15-M1", S.site, f"{name} never writes into the feature attribute",
                         "the source no longer flags anything: its class of feature edges is lost")
            continue
        # ---- M1: only True is ever written, nothing is removed
        for st, tgt, val in S.stores:
            ssite = ctx.site(FEAT, S.fn0, st)
            v = S.S.canon(val, st) if val is not None else None
            if isinstance(st, ast.Assign) and au.const(v) is True:
                ctx.ok("C15-M1", ssite, f"{name}: stores True")
                continue
            pos = [au.norm(t) for t, p in S.S.conds(st, stop=S.fn) if p]
            if isinstance(st, ast.Assign) and v is not None and au.norm(v) in pos:
                ctx.ok("C15-M1", ssite, f"{name}: stores a value that is true on this path")
                continue
            what = "False" if au.const(v) is False else ("a computed value" if v is not None else "an augmented value")
            ctx.fail("C15-M1", ssite, f"{name} stores something else than True into the feature attribute",
                     f"stores {what}: a source that writes False / a computed value un-flags edges found by the sources run before it")
        bad_use = []
        for n in au.walk(S.fn):
            if isinstance(n, ast.Call) and isinstance(n.func, ast.Attribute) and n.func.attr in ("clear", "pop", "remove", "popitem", "fill", "empty") \
                    and H.is_name(S.S.canon(n.func.value, n), S.attr):
                bad_use.append(n.func.attr)
            if isinstance(n, ast.Delete) and any(isinstance(t, ast.Subscript) and H.is_name(S.S.canon(t.value, n), S.attr) for t in n.targets):
                bad_use.append("del")
            if isinstance(n, (ast.Assign, ast.AugAssign, ast.AnnAssign)) and any(H.is_name(t, S.attr) for t in au.assign_targets(n)):
                bad_use.append("rebinding")
        ctx.check(not bad_use, "C15-M1", S.site, f"{name} removes flags / rebinds the feature attribute ({', '.join(sorted(set(bad_use)))})",
                  "flags written by the other sources are lost", note=f"{name}: attribute only receives stores")
        # ---- every exit hands the attribute back (when run rebinds its variable to the result)
        if call is None or call["rebinds"]:
            rets = [n for n in au.walk(S.fn) if isinstance(n, ast.Return)]
            bad_ret = [r for r in rets if r.value is None or not H.is_name(S.S.canon(r.value, r), S.attr)]
            none_ret = [r for r in bad_ret if r.value is None or (isinstance(r.value, ast.Constant) and r.value.value is None)]
            falls = not H.terminates(S.fn.body)
            if falls or none_ret:
                ctx.fail("C15-M1", S.site, f"{name} does not return the feature attribute on every exit",
                         "run() rebinds its attribute variable to the result of each source: a bare return makes the next source fail / lose the flags")
            elif bad_ret:
                ctx.undecided("C15-M1", S.site, f"{name}: a returned value is not recognised as the feature attribute", "")
            else:
                ctx.ok("C15-M1", S.site, f"{name}: {len(rets)} exits return the attribute")
        # ---- flag condition
        spec, text = SPEC[name]
        for st, tgt, val in S.stores:
            ssite = ctx.site(FEAT, S.fn0, st)
            try:
                info = S.edge_of(st, tgt)
            except Unrecognised as u:
                H.undecided(ctx, rule_o, ssite, u)
                continue
            if isinstance(info, tuple):
                ctx.fail(rule_o, ssite, f"{name}: {info[1]}", "the flag must be set on the edge whose two adjacent faces are compared")
                continue
            if call is None or call["cond"] is None:
                # the call in run() is missing / unreadable: reported there
                continue
            code, unknown, nfield, conds = S.abstract(st, info, call["cond"])
            if S.rectified:
                ctx.fail(rule_o, ssite, f"{name}: the dot product of the two face normals is rectified (absolute value) before it is compared with the threshold",
                         f"`{au.src(S.rectified[0])[:80]}`: {text}; with |N1.N2| an edge whose normals are more than 90 degrees apart "
                         "(dot product below minus the threshold: the sharpest creases) is no longer a feature")
                continue
            truthy = None
            for t, p in conds:
                for op in _truth_operands(t):
                    cands = [op]
                    if isinstance(op, ast.Call) and au.call_tail(op) in ("all", "any") and len(op.args) == 1:
                        a = op.args[0]
                        cands = list(a.elts) if isinstance(a, (ast.Tuple, ast.List)) else [a]
                    for l in cands:
                        if isinstance(l, ast.Call) and au.call_tail(l) in ("direct_face", "face_id", "edge_id") and len(l.args) <= 2:
                            truthy = l
                        if isinstance(l, ast.Call) and au.call_tail(l) == "edge_to_faces" and l is not op:
                            truthy = l
            if truthy is not None:
                ctx.fail(rule_o, ssite, f"{name}: a face index is tested for truth",
                         f"`{au.src(truthy)[:70]}` is a face index or None: face 0 is falsy, so the edges adjacent to face 0 are treated as border edges")
                continue
            if unknown:
                ctx.undecided(rule_o, ssite, f"{name}: a condition on the flag is not recognised",
                              f"flag must be set iff {text}; unrecognised: {unknown}")
                continue
            try:
                wit, n = H.compare_under(code, spec, AXIOM)
            except order.Unsupported as ex:
                ctx.undecided(rule_o, ssite, f"{name}: flag condition is not a comparison predicate", str(ex))
                continue
            if name == "_add_border_to_features":
                ctx.check(wit is None, "C15-M1", ssite, "border edge flagged only conditionally / not every border edge is flagged",
                          f"border edges are features whatever the options; differs when {H.fmt_env(wit) if wit else ''}",
                          note=f"border source flags exactly the border edges ({n} assignments)")
                continue
            ctx.check(wit is None, "C15-O1", ssite, f"{name}: flag condition differs from the specification",
                      f"flag must be set iff {text}; the code differs for {H.fmt_env(wit) if wit else ''} "
                      f"(n1/n2 = side 1/2 of the edge has no face)",
                      note=f"{name}: {n} orderings/assignments agree with `{spec}`")
            w2, n2 = H.compare_under(ast.BoolOp(op=ast.And(), values=[code, H.name("only_border")]), "False", AXIOM)
            ctx.check(w2 is None, "C15-M1", ssite, f"{name} flags edges although only_border is set",
                      f"with only_border=True only border edges are features; flagged when {H.fmt_env(w2) if w2 else ''}",
                      note=f"{name}: silent under only_border")


# =========================================================================== derived containers
def _top_pos(fn, node):
    t = H.top_stmt_in(fn.body, node)
    return None if t is None else H.block_pos(t)


def p1_derived(ctx):
    fn0 = ctx.repo.func(FEAT, f"{DET}.run")
    site = ctx.site(FEAT, fn0)
    fn, S, nz = H.norm_fn(ctx, FEAT, f"{DET}.run", keep=SOURCES + ("clear", "log", "warn", "_flag_corners", "_compute_feature_graph", "_compute_corner_point_cloud"),
                          public_methods=True)
    mesh = (au.params(fn, skip_self=True) or ["mesh"])[0]

    def is_feature_attr(e, at):
        """e denotes the edge attribute filled by the sources"""
        r = _strip_sources(S.canon(e, at))
        return _attr_identity(r) == (mesh, "edges", "feature")

    def domain_kind(lp):
        """'F' (the flagged edges of the attribute) | 'FE' (self.feature_edges) | 'FV' (self.feature_vertices) | None"""
        elem, idx, seq, start = H.loop_elem(lp)
        sc = S.canon(seq, lp)
        if idx is not None and isinstance(elem, (ast.Tuple, ast.List)) and au.src(sc) == f"{mesh}.edges" and au.const(start) == 0:
            return "ALL", idx
        if idx is not None or not isinstance(elem, ast.Name):
            return None, None
        if au.src(sc) in (f"{mesh}.id_edges", f"{mesh}.boundary_edges", f"{mesh}.interior_edges") or H.is_range_len(sc, f"{mesh}.edges"):
            return "ALL", elem.id
        if au.is_self_attr(S.canon(seq, lp), "feature_edges"):
            return "FE", elem.id
        if au.is_self_attr(S.canon(seq, lp), "feature_vertices"):
            return "FV", elem.id
        if is_feature_attr(seq, lp):
            return "F", elem.id
        return None, None

    def flagged_guard_only(node, lp, e, need=False):
        """the path condition of node inside lp is empty or only `feature[e]` (true for every key, sources only store True);
        with need=True the guard `feature[e]` must be present (loop over a superset of the flagged edges)"""
        n = 0
        for t0, p0, at in H.path_condition(node, stop=lp):
            t1, p1 = au.strip_not(t0, p0)
            if not (isinstance(t1, ast.Subscript) and H.is_name(t1.slice, e) and is_feature_attr(t1.value, at) and p1):
                return False
            n += 1
        return n > 0 or not need

    def edge_domain(node, lp):
        """'F' / 'FE' when node runs once per flagged edge, 'ALL' when it runs for edges that are not flagged, None: not recognised"""
        kind, e = domain_kind(lp) if lp is not None else (None, None)
        if kind == "ALL":
            if flagged_guard_only(node, lp, e, need=True):
                return "F", e
            return ("ALL", e) if not H.path_condition(node, stop=lp) else (None, e)
        if kind in ("F", "FE") and flagged_guard_only(node, lp, e):
            return kind, e
        return None, e

    def endpoints_of(arg, at, e, lps):
        """set of endpoint indices {'0', '1'} of edge e that `arg` stands for ('0' / '1' / both for the whole pair or its loop variable)"""
        a = au.src(S.canon(arg, at))
        if a in (f"{mesh}.edges[{e}][0]", f"{mesh}.edges[{e}][1]"):
            return {a[-2]}
        if a == f"{mesh}.edges[{e}]":
            return {"0", "1"}
        if isinstance(arg, ast.Name):
            for l in lps:
                if H.is_name(l.target, arg.id) and au.src(S.canon(l.iter, l)) == f"{mesh}.edges[{e}]" and not H.path_condition(at, stop=l):
                    return {"0", "1"}
        return None

    def edge_loop(node):
        """(outermost loop over edges, inner loops) of node"""
        lps = H.for_ancestors(node, stop=fn)
        for i, l in enumerate(lps):
            if domain_kind(l)[0] in ("F", "FE", "ALL"):
                return l, lps[:i]
        return (lps[0] if lps else None), []

    # ---- (a) set containers
    events = {"feature_edges": [], "feature_vertices": []}
    for c in au.calls(fn):
        if au.call_tail(c) in ("add", "update") and isinstance(c.func, ast.Attribute) and len(c.args) == 1:
            r = S.canon(c.func.value, c)
            for cn in events:
                if au.is_self_attr(r, cn):
                    events[cn].append((c, edge_loop(c)[0]))
    fe_fill = None
    if not events["feature_edges"]:
        ctx.undecided("C15-P1", site, "run: the statement filling self.feature_edges is not recognised", "")
    else:
        oks = []
        for c, lp in events["feature_edges"]:
            if au.call_tail(c) == "update" and not H.for_ancestors(c, stop=fn) and is_feature_attr(c.args[0], c) and not H.inner_conds(S, c, fn):
                oks.append(au.enclosing_stmt(c))       # iterating the attribute yields its keys: the flagged edges
                continue
            kind, e = edge_domain(c, lp)
            if kind == "F" and H.is_name(c.args[0], e) and au.call_tail(c) == "add":
                oks.append(lp)
        if len(oks) == 1 and len(events["feature_edges"]) == 1:
            fe_fill = oks[0]
            ctx.ok("C15-P1", ctx.site(FEAT, fn0, oks[0]), "every flagged edge enters feature_edges")
        else:
            ctx.undecided("C15-P1", site, "run: feature_edges is not filled by one `add(e)` per key of the feature attribute", "")
    if not events["feature_vertices"]:
        ctx.undecided("C15-P1", site, "run: the statements filling self.feature_vertices are not recognised", "")
    else:
        got, unknown, per_loop, all_edges = set(), [], {}, []
        for c, lp in events["feature_vertices"]:
            kind, e = edge_domain(c, lp) if not edge_loop(c)[1] else (edge_domain(edge_loop(c)[1][-1], lp) if lp is not None else (None, None))
            a = au.src(c.args[0])
            ends = endpoints_of(c.args[0], c, e, edge_loop(c)[1]) if e else None
            if au.call_tail(c) == "update" and ends != {"0", "1"}:
                ends = None
            if kind == "ALL" and ends:
                all_edges.append(c)
            elif kind in ("F", "FE") and ends:
                if kind == "FE" and (fe_fill is None or not (_top_pos(fn, fe_fill) is not None and _top_pos(fn, lp) is not None and _top_pos(fn, fe_fill) < _top_pos(fn, lp))):
                    unknown.append(a)
                    continue
                per_loop.setdefault(id(lp), set()).update(ends)
                got.update(ends)
            else:
                unknown.append(a)
        vsite = ctx.site(FEAT, fn0, events["feature_vertices"][0][0])
        if all_edges:
            ctx.fail("C15-P1", vsite, "feature_vertices receives the endpoints of edges that are not flagged",
                     "the insertion runs for every edge of the mesh, not only for the feature edges")
        elif unknown:
            ctx.undecided("C15-P1", vsite, "run: an insertion into feature_vertices is not recognised as an endpoint of a flagged edge", "")
        elif got == {"0", "1"} and all(v == {"0", "1"} for v in per_loop.values()):
            ctx.ok("C15-P1", vsite, "both endpoints enter feature_vertices")
        else:
            ctx.fail("C15-P1", vsite, "feature_vertices does not receive both endpoints of every flagged edge",
                     f"only endpoint(s) {sorted(got)} of mesh.edges[e] are inserted: both endpoints of every feature edge are feature vertices")
    # ---- (b) degrees
    incs = []
    for st in au.stmts(fn.body):
        inc = au.increment(st)
        if inc is None:
            continue
        tgt = st.target if isinstance(st, ast.AugAssign) else st.targets[0]
        if isinstance(tgt, ast.Subscript) and au.is_self_attr(S.canon(tgt.value, st), "feature_degrees"):
            incs.append((st, tgt, inc))
    others = [st for st, tgt, val in H.subscript_stores(fn, lambda b: True)
              if au.is_self_attr(S.canon(tgt.value, st), "feature_degrees") and all(st is not x[0] for x in incs)]
    if not incs or others:
        ctx.undecided("C15-P1", site, "run: the update of self.feature_degrees is not a per-edge increment", "")
    else:
        per, unknown, bad_k, all_edges = {}, [], [], []
        for st, tgt, (tsrc, sign, amount) in incs:
            lp, inner = edge_loop(st)
            kind, e = edge_domain(st, lp) if not inner else (edge_domain(inner[-1], lp) if lp is not None else (None, None))
            a = au.src(tgt.slice)
            k = au.const(S.canon(amount, st))
            ends = endpoints_of(tgt.slice, st, e, inner) if e else None
            if kind == "ALL" and ends:
                all_edges.append(st)
            elif kind in ("F", "FE") and ends:
                if kind == "FE" and (fe_fill is None or not (_top_pos(fn, fe_fill) < _top_pos(fn, lp))):
                    unknown.append(a)
                    continue
                if sign != 1 or k != 1:
                    bad_k.append(au.src(st))
                per.setdefault(id(lp), []).extend(sorted(ends))
            else:
                unknown.append(a)
        dsite = ctx.site(FEAT, fn0, incs[0][0])
        if all_edges:
            ctx.fail("C15-P1", dsite, "feature_degrees is incremented for edges that are not flagged",
                     "the loop ranges over every edge of the mesh: the degree of a vertex is the number of *feature* edges it belongs to")
        elif unknown:
            ctx.undecided("C15-P1", dsite, "run: an update of feature_degrees is not recognised as the endpoint of a feature edge", "")
        elif len(per) != 1:
            ctx.undecided("C15-P1", dsite, "run: feature_degrees is updated in several loops", "")
        else:
            ends = sorted(list(per.values())[0])
            ctx.check(ends == ["0", "1"] and not bad_k, "C15-P1", dsite,
                      "feature_degrees is not incremented by one for each of the two endpoints of every feature edge",
                      f"each feature edge adds exactly one to the degree of each of its two endpoints, once; found endpoints {ends}, "
                      f"amounts other than +1: {bad_k}", note="degree += 1 for both endpoints")
    # ---- (c) local feature edges
    _local_feat_edges(ctx, fn0, fn, S, mesh, is_feature_attr, domain_kind)
    # ---- (d) vertex flag
    flagged = None
    for st, tgt, val in H.subscript_stores(fn, lambda b: True):
        r = S.canon(tgt.value, st)
        if _attr_identity(r) == (mesh, "vertices", "feature"):
            lps = H.for_ancestors(st, stop=fn)
            kind, v = domain_kind(lps[0]) if len(lps) == 1 else (None, None)
            if kind == "FV" and H.is_name(tgt.slice, v) and not S.conds(st, stop=lps[0]):
                c = au.const(S.canon(val, st)) if val is not None else None
                flagged = (st, c)
    if flagged is None:
        holders = [n for st in au.stmts(fn.body) if isinstance(st, ast.Assign) and isinstance(st.value, ast.Call)
                   and au.call_tail(st.value) in ("get_attribute", "create_attribute") and _attr_identity(S.canon(st.value, st)) == (mesh, "vertices", "feature")
                   for t in st.targets for n in au.assigned_names(t)]
        used = [n for n in au.walk(fn) if isinstance(n, ast.Name) and n.id in holders and isinstance(n.ctx, ast.Load)
                and not (isinstance(au.parent(n), ast.Attribute) and au.parent(n).attr == "clear")]
        if holders and not used:
            ctx.fail("C15-P1", site, "vertex attribute 'feature' is created / cleared but never written",
                     "the published vertex flag must agree with feature_vertices")
        else:
            ctx.undecided("C15-P1", site, "run: the store of the vertex attribute 'feature' over self.feature_vertices is not recognised", "")
    else:
        ctx.check(flagged[1] is True, "C15-P1", ctx.site(FEAT, fn0, flagged[0]), "vertex attribute 'feature' is not set to True for every v in self.feature_vertices",
                  "the published vertex flag must agree with feature_vertices", note="vertex flag set for every feature vertex")


def _local_feat_edges(ctx, fn0, fn, S, mesh, is_feature_attr, domain_kind):
    site = ctx.site(FEAT, fn0)
    # appends whose receiver is self.local_feat_edges[v] or a local list later stored there
    apps = []
    for c in au.calls(fn):
        if au.call_tail(c) == "append" and isinstance(c.func, ast.Attribute) and len(c.args) == 1:
            recv = c.func.value
            rc = S.canon(recv, c)
            if isinstance(rc, ast.Subscript) and au.is_self_attr(rc.value, "local_feat_edges"):
                apps.append((c, "direct", recv))
            elif isinstance(recv, ast.Name):
                for st, tgt, val in H.subscript_stores(fn, lambda b: True):
                    if au.is_self_attr(S.canon(tgt.value, st), "local_feat_edges") and H.is_name(val, recv.id):
                        apps.append((c, "local", tgt))
    if len(apps) != 1:
        ctx.undecided("C15-P1", site, "run: the statement collecting local_feat_edges[v] is not recognised", "")
        return
    c, how, holder = apps[0]
    lps = H.for_ancestors(c, stop=fn)
    if len(lps) != 2:
        ctx.undecided("C15-P1", site, "run: local_feat_edges is not filled by a loop over the edges around each feature vertex", "")
        return
    inner, outer = lps
    kind, v = domain_kind(outer)
    asite = ctx.site(FEAT, fn0, outer)
    if kind != "FV":
        ctx.undecided("C15-P1", asite, "run: local_feat_edges is not filled in a loop over self.feature_vertices", "")
        return
    key = holder.slice if isinstance(holder, ast.Subscript) else None
    if key is None or not H.is_name(S.canon(key, c, keep=(v,)), v):
        ctx.undecided("C15-P1", asite, "run: local_feat_edges is not keyed by the feature vertex of the loop", "")
        return
    elem, idx, seq, start = H.loop_elem(inner)
    seqc = S.canon(seq, inner, keep=(v,))
    if not (isinstance(seqc, ast.Call) and len(seqc.args) == 1 and H.is_name(seqc.args[0], v) and au.call_tail(seqc) in ("vertex_to_edges", "vertex_to_vertices", "vertex_to_faces")):
        ctx.undecided("C15-P1", asite, "run: the inner loop of local_feat_edges does not range over a neighbourhood of the vertex", "")
        return
    if au.call_tail(seqc) != "vertex_to_edges":
        ctx.fail("C15-P1", asite, "local_feat_edges[v] is not the list of positions i of flagged edges in enumerate(vertex_to_edges(v))",
                 f"the inner loop ranges over {au.call_tail(seqc)}(v): documented as local indices in the order of mesh.connectivity.vertex_to_edges")
        return
    if idx is None or not isinstance(elem, ast.Name):
        ctx.undecided("C15-P1", asite, "run: positions in vertex_to_edges(v) are not produced by enumerate", "")
        return
    ev = elem.id
    # condition: the edge is flagged
    conds = H.path_condition(c, stop=inner)
    cond_ok = None
    if len(conds) == 1:
        t, pol, at = conds[0]
        t, pol = au.strip_not(t, pol)
        flagged = None
        if isinstance(t, ast.Subscript) and H.is_name(t.slice, ev) and is_feature_attr(t.value, at):
            flagged = True
        elif isinstance(t, ast.Subscript) and H.is_name(t.slice, idx) and is_feature_attr(t.value, at):
            ctx.fail("C15-P1", asite, "local_feat_edges[v] is not the list of positions i of flagged edges in enumerate(vertex_to_edges(v))",
                     "the feature attribute is read at the local position i instead of the edge vertex_to_edges(v)[i]")
            return
        elif isinstance(t, ast.Compare) and len(t.ops) == 1 and isinstance(t.ops[0], (ast.In, ast.NotIn)) and H.is_name(t.left, ev) \
                and (au.is_self_attr(S.canon(t.comparators[0], at), "feature_edges") or is_feature_attr(t.comparators[0], at)):
            flagged = isinstance(t.ops[0], ast.In)
        if flagged is not None:
            cond_ok = (flagged == pol)
    if cond_ok is None:
        ctx.undecided("C15-P1", asite, "run: the condition under which a position enters local_feat_edges[v] is not recognised", "")
        return
    # initialisation: empty list per vertex before the inner loop
    init_ok = False
    for s in outer.body:
        if s is H.top_stmt_in(outer.body, inner):
            break
        if isinstance(s, ast.Assign) and len(s.targets) == 1 and H.is_empty_container(s.value) == "list":
            t = s.targets[0]
            if how == "direct" and isinstance(t, ast.Subscript) and au.is_self_attr(S.canon(t.value, s), "local_feat_edges") and H.is_name(t.slice, v):
                init_ok = True
            if how == "local" and isinstance(c.func.value, ast.Name) and H.is_name(t, c.func.value.id):
                init_ok = True
    problems = []
    if au.const(start) != 0:
        problems.append(f"enumerate starts at {au.src(start)}")
    if not H.is_name(c.args[0], idx):
        problems.append(f"collects `{au.src(c.args[0])}` instead of the position")
    if not cond_ok:
        problems.append("collects the edges that are not flagged")
    if not init_ok:
        if problems:
            pass
        else:
            ctx.undecided("C15-P1", asite, "run: the per-vertex reset of local_feat_edges[v] to an empty list is not recognised", "")
            return
    ctx.check(not problems, "C15-P1", asite, "local_feat_edges[v] is not the list of positions i of flagged edges in enumerate(vertex_to_edges(v))",
              "documented as local indices in the order of mesh.connectivity.vertex_to_edges, for every feature vertex, starting from an empty list; found: "
              + "; ".join(problems), note="local_feat_edges[v] = [i for i, ev in enumerate(vertex_to_edges(v)) if feature[ev]]")


# =========================================================================== border extraction: cycle collectors
def _collector(ctx, name):
    """Visited book-keeping common to extract_border_cycle_all / extract_boundary_of_surface, on the normal form (a shared
    generator / helper is inlined).  Returns the facts dict or None (after reporting)."""
    fn0 = ctx.repo.func(BORD, name)
    site = ctx.site(BORD, fn0)
    fn, S, nz = H.norm_fn(ctx, BORD, name, keep=("extract_border_cycle",))
    mesh = (au.params(fn) or ["mesh"])[0]
    calls = [c for c in au.calls(fn) if au.call_tail(c) == "extract_border_cycle"]
    if len(calls) != 1:
        ctx.undecided("C15-B1", site, f"{name}: the extraction of one cycle per border loop (call of extract_border_cycle) is not recognised",
                      f"{len(calls)} call(s) after inlining {sorted(set(nz.inlined))}")
        return None
    call = calls[0]
    st = au.enclosing_stmt(call)
    csite = ctx.site(BORD, fn0, call)
    loops = H.loop_ancestors(call, stop=fn)
    outer = loops[0] if loops else None
    if len(loops) != 1 or not isinstance(outer, ast.For) or not isinstance(outer.target, ast.Name) \
            or au.src(S.canon(outer.iter, outer)) != f"{mesh}.boundary_vertices":
        ctx.undecided("C15-B1", csite, f"{name}: cycles are not extracted in one `for` loop over mesh.boundary_vertices", "")
        return None
    v = outer.target.id
    kw = {k.arg: k.value for k in call.keywords}
    a0 = call.args[0] if call.args else kw.get("mesh")
    a1 = call.args[1] if len(call.args) > 1 else kw.get("starting_point")
    if a0 is None or a1 is None or not H.is_name(S.canon(a0, call), mesh) or not H.is_name(S.canon(a1, call, keep=(v,)), v):
        if a1 is None and a0 is not None:
            ctx.fail("C15-B1", csite, f"{name}: extract_border_cycle is called without the border vertex of the loop as starting point",
                     "every call then returns the loop of the first border vertex: the other loops are never extracted")
        else:
            ctx.undecided("C15-B1", csite, f"{name}: arguments of extract_border_cycle not recognised as (mesh, loop vertex)", "")
        return None
    ctx.ok("C15-B1", csite, f"{name}: candidates = mesh.boundary_vertices, extraction starts at the loop vertex")
    # ---- guard: not visited(v)
    vis = {"k": None, "form": None}

    def atom(x, boolean):
        if isinstance(x, ast.Subscript) and H.is_name(x.slice, v) and isinstance(x.value, (ast.Name, ast.Attribute)) and boolean:
            k = au.src(x.value)
            if vis["k"] in (None, k):
                vis["k"], vis["form"] = k, "flag"
                return H.name("visited")
        if isinstance(x, ast.Compare) and len(x.ops) == 1 and isinstance(x.ops[0], (ast.In, ast.NotIn)) and H.is_name(x.left, v) \
                and isinstance(x.comparators[0], (ast.Name, ast.Attribute)):
            k = au.src(x.comparators[0])
            if vis["k"] in (None, k):
                vis["k"], vis["form"] = k, "member"
                n = H.name("visited")
                return n if isinstance(x.ops[0], ast.In) else ast.UnaryOp(op=ast.Not(), operand=n)
        return None
    raw = H.path_condition(call, stop=outer)
    if not raw:
        ctx.fail("C15-B1", csite, f"{name}: extract_border_cycle(mesh, v) is not guarded by `not visited[v]` for the loop vertex v",
                 "a loop must be extracted once: from its first unvisited vertex, and from no vertex of an already extracted loop")
        return None
    ab = H.Abs(atom)
    code = ab.boolean(H.conj([(t, p) for t, p, _ in raw]))
    if not ab.unknown and vis["k"] is None:
        ctx.fail("C15-B1", csite, f"{name}: extract_border_cycle(mesh, v) is not guarded by `not visited[v]` for the loop vertex v",
                 "a loop must be extracted once: from its first unvisited vertex, and from no vertex of an already extracted loop")
        return None
    if ab.unknown:
        ctx.undecided("C15-B1", csite, f"{name}: the condition guarding the extraction is not recognised as a visited test of the loop vertex", "")
        return None
    wit, n = H.compare(code, "not visited")
    K, form = vis["k"], vis["form"]
    remaining = False
    if wit is not None and H.compare(code, "visited")[0] is None and "." not in K:
        # the container may hold the vertices that are still to be visited: then the vertices of a cycle are removed from it
        blk0, _ = au.enclosing_block(st)
        removed = inserted = False
        for s2 in au.stmts(blk0[H.block_pos(st) + 1:]):
            for c2 in au.calls(s2) if isinstance(s2, ast.Expr) else []:
                if isinstance(c2.func, ast.Attribute) and H.is_name(c2.func.value, K):
                    if c2.func.attr in ("difference_update", "remove", "discard", "pop"):
                        removed = True
                    if c2.func.attr in ("add", "update", "append", "extend"):
                        inserted = True
            if isinstance(s2, ast.AugAssign) and H.is_name(s2.target, K):
                removed = removed or isinstance(s2.op, ast.Sub)
                inserted = inserted or isinstance(s2.op, (ast.BitOr, ast.Add))
            if isinstance(s2, ast.Assign) and isinstance(s2.targets[0], ast.Subscript) and H.is_name(s2.targets[0].value, K):
                removed = removed or au.const(s2.value) is False
                inserted = inserted or au.const(s2.value) is True
            if isinstance(s2, ast.Delete) and any(isinstance(t, ast.Subscript) and H.is_name(t.value, K) for t in s2.targets):
                removed = True
        if inserted and not removed:
            ctx.fail("C15-B1", csite, f"{name}: extract_border_cycle(mesh, v) is not guarded by exactly `not visited[v]` for the loop vertex v",
                     "the extraction only runs for vertices that are already recorded as visited")
        else:
            ctx.undecided("C15-B1", csite, f"{name}: the book-keeping of the border vertices still to be visited is not recognised", "")
        return None
    if not ctx.check(wit is None, "C15-B1", csite, f"{name}: extract_border_cycle(mesh, v) is not guarded by exactly `not visited[v]` for the loop vertex v",
                     "a loop must be extracted once: from its first unvisited vertex, and from no vertex of an already extracted loop",
                     note=f"{name}: extraction guarded by not visited[v]"):
        return None
    # ---- result of the call
    cyc = {}
    if isinstance(st, ast.Assign) and st.value is call and len(st.targets) == 1:
        t = st.targets[0]
        if isinstance(t, (ast.Tuple, ast.List)) and len(t.elts) == 2 and all(isinstance(x, ast.Name) for x in t.elts):
            cyc = {"v": t.elts[0].id, "e": t.elts[1].id}
        elif isinstance(t, ast.Name):
            cyc = {"pair": t.id}
    elif isinstance(st, ast.Assign) and len(st.targets) == 1 and isinstance(st.targets[0], ast.Name) and isinstance(st.value, ast.Subscript) \
            and st.value.value is call and au.const(st.value.slice) in (0, 1):
        cyc = {"v" if au.const(st.value.slice) == 0 else "e": st.targets[0].id}
    if not cyc:
        ctx.undecided("C15-B1", csite, f"{name}: the result of extract_border_cycle is not bound to local names", "")
        return None
    cv_src = f"extract_border_cycle({mesh}, {v})[0]"
    ce_src = f"extract_border_cycle({mesh}, {v})[1]"

    def denotes(e, at, which):
        c = S.canon(e, at, keep=(v,))
        s = au.src(c)
        return s.replace("starting_point=", "") == (cv_src if which == "v" else ce_src) or \
            (isinstance(c, ast.Subscript) and isinstance(c.value, ast.Call) and au.call_tail(c.value) == "extract_border_cycle"
             and au.const(c.slice) == (0 if which == "v" else 1))
    # ---- marking of the vertices of the cycle
    blk, _ = au.enclosing_block(st)
    after = blk[H.block_pos(st) + 1:]
    marked, bad_mark = False, None
    for s in au.stmts(after):
        if isinstance(s, ast.For) and isinstance(H.loop_elem(s)[0], ast.Name) and denotes(H.loop_elem(s)[2], s, "v"):
            x = H.loop_elem(s)[0].id
            for s2 in au.stmts(s.body):
                if isinstance(s2, ast.Assign) and len(s2.targets) == 1 and isinstance(s2.targets[0], ast.Subscript) \
                        and au.src(s2.targets[0].value) == K and H.is_name(s2.targets[0].slice, x) and not H.path_condition(s2, stop=s):
                    val_ = au.const(s2.value)
                    if form == "member" or val_ is True or (isinstance(val_, (int, float)) and not isinstance(val_, bool) and val_ != 0):
                        marked = True
                    elif val_ is False or (isinstance(val_, (int, float)) and val_ == 0):
                        bad_mark = s2
                if isinstance(s2, ast.Expr) and isinstance(s2.value, ast.Call) and au.call_tail(s2.value) in ("add", "append") \
                        and au.src(s2.value.func.value) == K and len(s2.value.args) == 1 and H.is_name(s2.value.args[0], x) \
                        and not H.path_condition(s2, stop=s) and form == "member":
                    marked = True
        if isinstance(s, ast.Expr) and isinstance(s.value, ast.Call) and au.call_tail(s.value) in ("update", "extend") \
                and isinstance(s.value.func, ast.Attribute) and au.src(s.value.func.value) == K and len(s.value.args) == 1 and form == "member":
            a = s.value.args[0]
            if isinstance(a, ast.Call) and au.call_tail(a) in ("set", "list", "tuple") and len(a.args) == 1:
                a = a.args[0]
            if denotes(a, s, "v"):
                marked = True
        if isinstance(s, ast.AugAssign) and isinstance(s.op, (ast.BitOr, ast.Add)) and au.src(s.target) == K and form == "member":
            a = s.value
            if isinstance(a, ast.Call) and au.call_tail(a) in ("set", "list", "tuple") and len(a.args) == 1:
                a = a.args[0]
            if denotes(a, s, "v"):
                marked = True
    msite = ctx.site(BORD, fn0, st)
    only_start = [s for s in after if isinstance(s, ast.Assign) and len(s.targets) == 1 and isinstance(s.targets[0], ast.Subscript)
                  and au.src(s.targets[0].value) == K and H.is_name(s.targets[0].slice, v)] + \
                 [s for s in after if isinstance(s, ast.Expr) and isinstance(s.value, ast.Call) and au.call_tail(s.value) in ("add", "append")
                  and au.src(s.value.func.value) == K and len(s.value.args) == 1 and H.is_name(s.value.args[0], v)]
    all_writes = [n for n in au.walk(outer) if (isinstance(n, ast.Subscript) and isinstance(n.ctx, ast.Store) and au.src(n.value) == K)
                  or (isinstance(n, ast.Call) and isinstance(n.func, ast.Attribute) and au.src(n.func.value) == K
                      and n.func.attr in ("add", "append", "update", "extend", "__setitem__", "setdefault"))
                  or (isinstance(n, ast.AugAssign) and au.src(n.target) == K)]
    if not marked and only_start and bad_mark is None and len(all_writes) == len(only_start):
        ctx.fail("C15-B1", ctx.site(BORD, fn0, only_start[0]), f"{name}: only the starting vertex of an extracted cycle is marked visited",
                 "an unmarked vertex of the loop starts the same loop again: cycles are returned more than once")
    elif marked:
        ctx.ok("C15-B1", msite, f"{name}: every vertex of the cycle is marked")
    elif bad_mark is not None:
        ctx.fail("C15-B1", ctx.site(BORD, fn0, bad_mark), f"{name}: the vertices of an extracted cycle are not all marked visited in the guarded block",
                 "an unmarked vertex of the loop starts the same loop again: cycles are returned more than once")
    else:
        # is the visited container ever written after its creation?
        kname = K.split(".")[0]
        writes = [n for n in au.walk(outer) if (isinstance(n, ast.Subscript) and isinstance(n.ctx, ast.Store) and au.src(n.value) == K)
                  or (isinstance(n, ast.Call) and isinstance(n.func, ast.Attribute) and au.src(n.func.value) == K
                      and n.func.attr in ("add", "append", "update", "extend", "__setitem__", "setdefault"))
                  or (isinstance(n, ast.AugAssign) and au.src(n.target) == K)]
        if not writes:
            ctx.fail("C15-B1", msite, f"{name}: the vertices of an extracted cycle are not all marked visited in the guarded block",
                     "the visited container is never updated inside the loop: an unmarked vertex of the loop starts the same loop again")
        else:
            ctx.undecided("C15-B1", msite, f"{name}: the marking of the vertices of an extracted cycle is not recognised", "")
    # ---- initial state of the visited container
    if "." not in K:
        d = S.value(K, outer)
        ok_init = None
        if d is not None:
            if H.is_empty_container(d):
                ok_init = True
            elif isinstance(d, ast.Call) and au.call_tail(d) in ("dict", "fromkeys"):
                consts = [n.value for n in ast.walk(d) if isinstance(n, ast.Constant) and isinstance(n.value, bool)]
                if au.call_tail(d) == "fromkeys" and len(d.args) == 1:
                    consts = [False] if form == "member" else []
                ok_init = (bool(consts) and all(c is False for c in consts)) if consts else None
                if form == "member" and consts:
                    ok_init = None
        inits = [s for s in au.stmts(fn.body) if isinstance(s, ast.Assign) and isinstance(s.targets[0], ast.Subscript)
                 and au.src(s.targets[0].value) == K and not any(s is x for x in au.stmts(outer.body))]
        if ok_init and any(au.const(s.value) is not False for s in inits):
            ok_init = None
        if ok_init is None:
            ctx.undecided("C15-B1", site, f"{name}: the initial state of the visited container is not recognised", "")
        else:
            ctx.check(ok_init, "C15-B1", site, f"{name}: the visited container does not start with every border vertex unvisited",
                      "a vertex that starts out visited is never used as a starting point: its loop is lost", note=f"{name}: visited starts empty / all False")
    return {"fn0": fn0, "fn": fn, "S": S, "outer": outer, "block": blk, "stmt": st, "mesh": mesh, "v": v, "denotes": denotes, "cyc": cyc, "site": site}


def _same_block_or_after(blk, node):
    t = H.top_stmt_in(blk, node)
    return t is not None


def b1_boundary(ctx):
    # ---- extract_border_cycle_all
    info = _collector(ctx, "extract_border_cycle_all")
    if info:
        fn0, fn, S, blk, st = info["fn0"], info["fn"], info["S"], info["block"], info["stmt"]
        site = info["site"]
        rets = [r for r in au.walk(fn) if isinstance(r, ast.Return)]
        R = rets[0].value.id if len(rets) == 1 and isinstance(rets[0].value, ast.Name) and any(rets[0] is x for x in fn.body) else None
        if R is None:
            ctx.undecided("C15-B1", site, "extract_border_cycle_all: the returned list is not recognised", "")
        else:
            apps = [c for c in au.calls(fn) if au.call_tail(c) == "append" and isinstance(c.func, ast.Attribute) and H.is_name(c.func.value, R)]
            d = S.value(R, info["outer"])
            if len(apps) != 1 or d is None or H.is_empty_container(d) != "list":
                ctx.undecided("C15-B1", site, "extract_border_cycle_all: the filling of the returned list is not recognised", "")
            else:
                a = apps[0]
                in_block = H.top_stmt_in(blk, a) is not None and H.block_pos(H.top_stmt_in(blk, a)) > H.block_pos(st) \
                    and not H.loop_ancestors(a, stop=info["outer"]) and not [1 for t, p, at in H.path_condition(a, stop=info["outer"])
                                                                            if not any(t is t2 for t2, _, _ in H.path_condition(st, stop=info["outer"]))]
                is_v, is_e = info["denotes"](a.args[0], a, "v"), info["denotes"](a.args[0], a, "e")
                outside = any(au.enclosing_stmt(a) is z for z in info["outer"].body) and not any(au.enclosing_stmt(a) is z for z in blk) \
                    and isinstance(a.args[0], ast.Name) and a.args[0].id in info["cyc"].values()
                if outside:
                    ctx.fail("C15-B1", ctx.site(BORD, fn0, a), "extract_border_cycle_all: each extracted cycle is not appended exactly once to the returned list",
                             "the append is outside the `not visited` block: it runs once per border vertex, the same cycle is returned many times")
                elif is_e:
                    ctx.fail("C15-B1", ctx.site(BORD, fn0, a), "extract_border_cycle_all: the edge list of a cycle is appended instead of its vertex list", "")
                elif is_v and in_block:
                    ctx.ok("C15-B1", ctx.site(BORD, fn0, a), "one append per extracted cycle, list returned")
                elif is_v and H.loop_ancestors(a, stop=info["outer"]):
                    ctx.fail("C15-B1", ctx.site(BORD, fn0, a), "extract_border_cycle_all: each extracted cycle is not appended exactly once to the returned list",
                             "the cycle is appended inside an inner loop: the number of cycles returned must equal the number of border loops")
                else:
                    ctx.undecided("C15-B1", ctx.site(BORD, fn0, a), "extract_border_cycle_all: the element appended to the returned list is not recognised", "")
    # ---- extract_boundary_of_surface
    info = _collector(ctx, "extract_boundary_of_surface")
    if info:
        _boundary_polyline(ctx, info)


def _boundary_polyline(ctx, info):
    fn0, fn, S, blk, st, outer, mesh, denotes = (info[k] for k in ("fn0", "fn", "S", "block", "stmt", "outer", "mesh", "denotes"))
    site = info["site"]
    name = "extract_boundary_of_surface"
    # ---- what is returned
    rets = [r for r in au.walk(fn) if isinstance(r, ast.Return)]
    if len(rets) != 1 or not (isinstance(rets[0].value, ast.Tuple) and len(rets[0].value.elts) == 2 and all(isinstance(x, ast.Name) for x in rets[0].value.elts)):
        ctx.undecided("C15-B1", site, f"{name}: the exit returning (polyline, index map) is not recognised", "")
        return
    bound, M = (x.id for x in rets[0].value.elts)
    bdef = S.value(bound, outer)
    if not (isinstance(bdef, ast.Call) and not bdef.args and not bdef.keywords):
        ctx.undecided("C15-B1", site, f"{name}: the creation of the (empty) polyline is not recognised", "")
        return
    ctx.ok("C15-B1", site, "polyline starts empty")
    after = blk[H.block_pos(st) + 1:]
    # ---- the loop over the vertices of the cycle
    vloops = []
    for s in au.stmts(after):
        if isinstance(s, ast.For):
            elem, idx, seq, start = H.loop_elem(s)
            if isinstance(elem, ast.Name) and denotes(seq, s, "v") and any(
                    au.call_tail(c) == "append" and isinstance(c.func, ast.Attribute) and au.src(S.canon(c.func.value, c, keep=(bound,))) == f"{bound}.vertices"
                    for c in au.calls(s)):
                vloops.append((s, elem.id, idx, start))
    if len(vloops) != 1 or H.path_condition(vloops[0][0], stop=outer) != H.path_condition(st, stop=outer) and \
            [au.norm(t) for t, p, a in H.path_condition(vloops[0][0], stop=outer)] != [au.norm(t) for t, p, a in H.path_condition(st, stop=outer)]:
        ctx.undecided("C15-B1", site, f"{name}: the loop over the vertices of an extracted cycle is not recognised", "")
        return
    vl, x, vidx, vstart = vloops[0]
    vsite = ctx.site(BORD, fn0, vl)
    direct = [s for s in vl.body]

    def uncond(s):
        return any(s is q for q in direct)
    # vertex append
    vapps = [c for c in au.calls(vl) if au.call_tail(c) == "append" and isinstance(c.func, ast.Attribute)
             and au.src(S.canon(c.func.value, c, keep=(bound,))) == f"{bound}.vertices"]
    all_vapps = [c for c in au.calls(fn) if au.call_tail(c) == "append" and isinstance(c.func, ast.Attribute)
                 and au.src(S.canon(c.func.value, c, keep=(bound,))) == f"{bound}.vertices"]
    if len(vapps) != 1 or len(all_vapps) != 1 or not uncond(au.enclosing_stmt(vapps[0])):
        ctx.undecided("C15-B1", vsite, f"{name}: the statement appending the position of each visited vertex to the polyline is not recognised", "")
        return
    vapp = au.enclosing_stmt(vapps[0])
    pos_c = S.canon(vapps[0].args[0], vapps[0], keep=(x,))
    reads = [au.src(n) for n in ast.walk(pos_c) if isinstance(n, ast.Subscript) and au.src(n.value) == f"{mesh}.vertices"]
    if au.src(pos_c) == f"{mesh}.vertices[{x}]" or (reads == [f"{mesh}.vertices[{x}]"] and isinstance(pos_c, ast.Call) and len(pos_c.args) == 1):
        ctx.ok("C15-B1", ctx.site(BORD, fn0, vapp), "one vertex appended per visited vertex")
    elif reads and all(r != f"{mesh}.vertices[{x}]" for r in reads) and isinstance(pos_c, ast.Subscript):
        ctx.fail("C15-B1", ctx.site(BORD, fn0, vapp), f"{name}: the vertex appended to the polyline is not mesh.vertices[v] of the visited vertex",
                 f"found `{au.src(pos_c)[:60]}`: vertex k of the polyline must be the k-th visited border vertex")
    else:
        ctx.undecided("C15-B1", ctx.site(BORD, fn0, vapp), f"{name}: the position appended to the polyline is not recognised", "")
    # ---- index map
    mstores = [s for s in au.stmts(vl.body) if isinstance(s, ast.Assign) and len(s.targets) == 1 and isinstance(s.targets[0], ast.Subscript)
               and H.is_name(s.targets[0].value, M) and H.is_name(s.targets[0].slice, x)]
    other_m = [s for s, t, v in H.subscript_stores(fn, lambda b: H.is_name(b, M)) if all(s is not q for q in mstores)]
    off = None
    if len(mstores) != 1 or not uncond(mstores[0]) or other_m:
        ctx.undecided("C15-B1", vsite, f"{name}: the store of the new index of a visited vertex into the index map is not recognised", "")
    else:
        ms = mstores[0]
        val = ms.value
        valc = S.canon(val, ms, keep=(x, bound) + ((vidx,) if vidx else ()))
        msite = ctx.site(BORD, fn0, ms)
        pos = {id(s): i for i, s in enumerate(direct)}
        if au.src(valc) == f"len({bound}.vertices)":
            ctx.check(pos[id(ms)] < pos[id(vapp)], "C15-B1", msite, f"{name}: the index map reads len(polyline vertices) after the vertex has been appended",
                      "the map would point to the next vertex (off by one)", note="fresh index read before the append")
        elif isinstance(valc, ast.Constant) and isinstance(val, ast.Name) and not any(au.increment(q) is not None and au.increment(q)[0] == val.id for q in au.stmts(fn.body)):
            ctx.fail("C15-B1", msite, f"{name}: the running offset stored in the index map is never advanced",
                     "every border vertex is mapped to the same index: the offset must equal the number of vertices already appended to the polyline")
        elif isinstance(valc, ast.Name) and vidx and valc.id == vidx and au.src(S.canon(vstart, vl, keep=(bound,))) == f"len({bound}.vertices)":
            # enumerate(cycle, start=len(polyline vertices)): the start is read once before the loop, one vertex is appended per iteration
            ctx.ok("C15-B1", msite, "index = enumerate position starting at the number of vertices already in the polyline")
        elif isinstance(valc, ast.Name) and vidx and valc.id == vidx and au.const(S.canon(vstart, vl, keep=(bound,))) is None:
            ctx.undecided("C15-B1", msite, f"{name}: the start of the enumeration that numbers the visited vertices is not recognised", "")
        elif isinstance(valc, ast.Name) and vidx and valc.id == vidx:
            ctx.fail("C15-B1", msite, f"{name}: the index stored in the index map is the position inside the cycle, without the offset of the cycle",
                     "the numbering restarts at 0 for every border loop: with two or more loops several border vertices share one polyline index")
        elif isinstance(valc, ast.Name):
            off = valc.id
            incs = [(q, au.increment(q)) for q in au.stmts(fn.body) if au.increment(q) is not None and au.increment(q)[0] == off]
            writes = [q for q in au.stmts(fn.body) if any(off in au.assigned_names(t) for t in au.assign_targets(q))]
            init = S.value(off, outer)
            if not incs and len(writes) == 1 and init is not None and au.const(init) is not None:
                ctx.fail("C15-B1", msite, f"{name}: the running offset stored in the index map is never advanced",
                         "every border vertex is mapped to the same index: the offset must equal the number of vertices already appended to the polyline")
            elif len(incs) != 1 or len(writes) != 2 or init is None:
                ctx.undecided("C15-B1", msite, f"{name}: the running offset stored in the index map is not a counter with one initialisation and one increment", "")
            else:
                q, (_, sign, amount) = incs[0]
                k = au.const(S.canon(amount, q))
                in_vl = uncond(q)
                problems = []
                if au.const(init) != 0:
                    problems.append(f"starts at {au.src(init)}")
                if sign != 1 or k != 1:
                    problems.append(f"advanced by {'-' if sign < 0 else ''}{au.src(amount)}")
                if not in_vl:
                    problems.append("not advanced once per visited vertex" if any(q is z for z in au.stmts(outer.body)) else "advanced outside the loops")
                ctx.check(not problems, "C15-B1", vsite, f"{name}: the running offset is not `0, then += 1 once per visited vertex`",
                          "the offset must equal the number of vertices already appended to the polyline (indices 0..n-1): " + ", ".join(problems),
                          note="offset: 0 then +1 per vertex")
                if in_vl and not problems:
                    ctx.check(pos[id(ms)] < pos[id(q)], "C15-B1", msite, f"{name}: the index map reads the offset after it has been advanced",
                              "the map would point to the next vertex (off by one)", note="offset read before increment")
        else:
            # offset + position in the cycle, offset advanced by the length of the cycle once per cycle
            ok3 = False
            if vidx and au.const(vstart) == 0 and isinstance(valc, ast.BinOp) and isinstance(valc.op, ast.Add):
                ns = [valc.left, valc.right]
                o = [n for n in ns if isinstance(n, ast.Name) and n.id != vidx]
                if len(o) == 1 and any(H.is_name(n, vidx) for n in ns):
                    off = o[0].id
                    incs = [(q, au.increment(q)) for q in au.stmts(fn.body) if au.increment(q) is not None and au.increment(q)[0] == off]
                    if len(incs) == 1 and au.const(S.value(off, outer)) == 0:
                        q, (_, sign, amount) = incs[0]
                        a = S.canon(amount, q)
                        is_len = isinstance(a, ast.Call) and au.call_tail(a) == "len" and len(a.args) == 1 and denotes(a.args[0], q, "v")
                        in_blk = any(q is z for z in blk) and H.block_pos(q) > H.block_pos(vl) if any(vl is z for z in blk) else False
                        if sign == 1 and is_len and in_blk:
                            ok3 = True
            if ok3:
                ctx.ok("C15-B1", msite, "index = offset of the cycle + position in the cycle")
            else:
                ctx.undecided("C15-B1", msite, f"{name}: the value stored in the index map is not a recognised running index", "")
    # ---- component counter
    cstores = []
    for s in au.stmts(vl.body):
        if isinstance(s, ast.Assign) and len(s.targets) == 1 and isinstance(s.targets[0], ast.Subscript) and H.is_name(s.targets[0].slice, x):
            r = S.canon(s.targets[0].value, s, keep=(bound,))
            if isinstance(r, ast.Call) and au.call_tail(r) == "create_attribute" and r.args and au.const(r.args[0]) == "component":
                cstores.append(s)
    if len(cstores) != 1 or not uncond(cstores[0]):
        ctx.undecided("C15-B1", vsite, f"{name}: the store of the component number of a visited vertex is not recognised", "")
    else:
        cs = cstores[0]
        cv = S.canon(cs.value, cs)
        cs_site = ctx.site(BORD, fn0, cs)
        if isinstance(cv, ast.Constant) and isinstance(cs.value, ast.Name):
            ctx.fail("C15-B1", cs_site, f"{name}: the component counter is never advanced",
                     "the number of components equals the number of border loops")
        elif not isinstance(cv, ast.Name):
            ctx.undecided("C15-B1", cs_site, f"{name}: the component number is not a counter variable", "")
        else:
            cn = cv.id
            incs = [(q, au.increment(q)) for q in au.stmts(fn.body) if au.increment(q) is not None and au.increment(q)[0] == cn]
            init = S.value(cn, outer)
            if not incs:
                if au.const(init) is not None:
                    ctx.fail("C15-B1", cs_site, f"{name}: the component counter is never advanced",
                             "the number of components equals the number of border loops")
                else:
                    ctx.undecided("C15-B1", cs_site, f"{name}: the component number is not a recognised counter", "")
            elif len(incs) > 1:
                ctx.undecided("C15-B1", cs_site, f"{name}: the component counter is advanced at several places", "")
            else:
                q, (_, sign, amount) = incs[0]
                k = au.const(S.canon(amount, q))
                per_cycle = any(q is z for z in blk)
                in_vertex_loop = any(q is z for z in au.stmts(vl.body))
                if per_cycle and sign == 1 and k == 1:
                    ctx.ok("C15-B1", cs_site, "component counter: +1 per cycle")
                elif in_vertex_loop or not any(q is z for z in au.stmts(outer.body)) or any(q is z for z in outer.body) or k != 1 or sign != 1:
                    ctx.fail("C15-B1", cs_site, f"{name}: the component counter is not advanced by one exactly once per extracted cycle",
                             "the number of components equals the number of border loops; a per-vertex or unconditional step mislabels them")
                else:
                    ctx.undecided("C15-B1", cs_site, f"{name}: the place where the component counter is advanced is not recognised", "")
    # ---- edges
    eapps = [c for c in au.calls(fn) if au.call_tail(c) == "append" and isinstance(c.func, ast.Attribute)
             and au.src(S.canon(c.func.value, c, keep=(bound,))) == f"{bound}.edges" and len(c.args) == 1]
    if len(eapps) != 1:
        ctx.undecided("C15-B1", site, f"{name}: the statement adding the edges of a cycle to the polyline is not recognised", "")
        return
    ea = eapps[0]
    esite = ctx.site(BORD, fn0, ea)
    lps = H.for_ancestors(ea, stop=outer)
    gathered = False
    if len(lps) == 1:
        elem, idx, seq, start = H.loop_elem(lps[0])
        if idx is None and isinstance(elem, ast.Name) and denotes(seq, lps[0], "e") and not H.path_condition(ea, stop=lps[0]) \
                and any(lps[0] is z for z in blk):
            if au.src(S.canon(ea.args[0], ea, keep=(elem.id,))) == f"{mesh}.edges[{elem.id}]":
                gathered = True
    if not gathered and len(lps) == 1 and denotes(H.loop_elem(lps[0])[2], lps[0], "v") \
            and isinstance(H.loop_elem(lps[0])[0], ast.Name) and au.src(S.canon(ea.args[0], ea, keep=(H.loop_elem(lps[0])[0].id,))) == f"{mesh}.edges[{H.loop_elem(lps[0])[0].id}]":
        ctx.fail("C15-B1", esite, f"{name}: the polyline receives mesh.edges[v] for the *vertices* of the extracted cycle",
                 "the border polyline consists of exactly the border edges: the edge list of the cycle must be used")
        return
    if gathered:
        ctx.ok("C15-B1", esite, "edges of each cycle gathered")
        remaps = []
        pos_outer = H.block_pos(H.top_stmt_in(fn.body, outer))
        for s in fn.body[pos_outer + 1:]:
            if isinstance(s, ast.For):
                elem, idx, seq, start = H.loop_elem(s)
                sq = S.canon(seq, s, keep=(bound,))
                if au.src(sq) == f"{bound}.edges":
                    remaps.append((s, elem, idx, start))
                elif idx is None and isinstance(elem, ast.Name) and H.is_range_len(sq, f"{bound}.edges"):
                    remaps.append((s, elem, elem.id, ast.Constant(value=0)))
        if len(remaps) != 1 or remaps[0][2] is None or au.const(remaps[0][3]) != 0:
            ctx.undecided("C15-B1", site, f"{name}: the pass that rewrites the polyline edges with the new vertex indices is not recognised", "")
        else:
            rl, elem, k, _ = remaps[0]
            sts = [s for s in rl.body if isinstance(s, ast.Assign) and len(s.targets) == 1 and au.src(S.canon(s.targets[0], s, keep=(k, bound))) == f"{bound}.edges[{k}]"]
            if len(sts) != 1:
                ctx.undecided("C15-B1", ctx.site(BORD, fn0, rl), f"{name}: the store rewriting a polyline edge is not recognised", "")
            else:
                val = S.canon(sts[0].value, sts[0], keep=(k, bound, M))
                elts = None
                if isinstance(val, ast.Call) and au.call_tail(val) in ("keyify", "tuple", "sorted", "list") and val.args:
                    elts = val.args
                    if len(elts) == 1 and isinstance(elts[0], (ast.Tuple, ast.List)):
                        elts = elts[0].elts
                elif isinstance(val, (ast.Tuple, ast.List)):
                    elts = val.elts
                want = sorted([f"{M}[{bound}.edges[{k}][0]]", f"{M}[{bound}.edges[{k}][1]]"])
                if elts is None or len(elts) != 2:
                    ctx.undecided("C15-B1", ctx.site(BORD, fn0, sts[0]), f"{name}: the value rewriting a polyline edge is not a pair", "")
                else:
                    got = sorted(au.src(q) for q in elts)
                    if all(g in want for g in got) or got == want:
                        ctx.check(got == want, "C15-B1", ctx.site(BORD, fn0, sts[0]),
                                  f"{name}: edges are not rewritten as (map[A], map[B]) for both endpoints after all cycles are collected",
                                  f"found {got}: polyline edges must index polyline vertices", note="both endpoints of every edge remapped")
                    else:
                        raw = [q for q in got if not q.startswith(f"{M}[")]
                        if raw and all(q in (f"{bound}.edges[{k}][0]", f"{bound}.edges[{k}][1]") for q in raw):
                            ctx.fail("C15-B1", ctx.site(BORD, fn0, sts[0]),
                                     f"{name}: edges are not rewritten as (map[A], map[B]) for both endpoints after all cycles are collected",
                                     f"found {got}: an endpoint keeps its index in the surface mesh")
                        else:
                            ctx.undecided("C15-B1", ctx.site(BORD, fn0, sts[0]), f"{name}: the endpoints of a rewritten polyline edge are not recognised", "")
    else:
        # edges written directly with the new indices: a wrap-around modulo the cycle length must not include the running offset
        carried = {au.increment(q)[0] for q in au.stmts(outer.body) if au.increment(q) is not None}
        bad = bad_global = None
        val = S.canon(ea.args[0], ea, keep=tuple(carried) + (bound,))
        for n in ast.walk(val):
            if isinstance(n, ast.BinOp) and isinstance(n.op, ast.Mod):
                r = n.right
                is_len = isinstance(r, ast.Call) and au.call_tail(r) == "len" and len(r.args) == 1 and \
                    (isinstance(r.args[0], ast.Subscript) and isinstance(r.args[0].value, ast.Call) and au.call_tail(r.args[0].value) == "extract_border_cycle")
                if is_len and any(isinstance(z, ast.Name) and z.id in carried and z.id != (vidx or "") for z in ast.walk(n.left)):
                    bad = n
                if isinstance(r, ast.Name) and r.id in carried and r.id == off:
                    bad_global = n
                # modulus = (vertices collected so far) + ...: `len(polyline.vertices)` or the running offset is an additive term of the modulus
                terms, todo = [], [r]
                while todo:
                    z = todo.pop()
                    if isinstance(z, ast.BinOp) and isinstance(z.op, ast.Add):
                        todo += [z.left, z.right]
                    else:
                        terms.append(z)
                if len(terms) > 1 and any(au.src(z) == f"len({bound}.vertices)" or (isinstance(z, ast.Name) and z.id in carried and z.id == off) for z in terms):
                    bad_global = n
        if bad_global is not None:
            ctx.fail("C15-B1", esite, f"{name}: a polyline edge index wraps around modulo the running vertex offset, not modulo the length of the cycle",
                     f"`{au.src(bad_global)}`: the running offset counts the vertices of all cycles collected so far, so for every cycle but the first the closing "
                     "edge links the last vertex of the cycle to polyline vertex 0 instead of the first vertex of its own cycle")
        elif bad is not None:
            ctx.fail("C15-B1", esite, f"{name}: a polyline edge index wraps around modulo the cycle length with the running offset inside the modulo",
                     f"`{au.src(bad)}`: for every cycle but the first the closing edge (and all others) point to vertices of earlier cycles; "
                     "the wrap-around applies to the position in the cycle, the offset is added afterwards")
        else:
            ctx.undecided("C15-B1", esite, f"{name}: the edges added to the polyline are not `mesh.edges[e]` for the edges of the extracted cycle", "")
    ctx.ok("C15-B1", site, "returns (polyline, map)")


# =========================================================================== C15-A1: the extraction only reads the mesh
MUTATORS = {"pop", "remove", "append", "extend", "insert", "clear", "sort", "reverse", "popitem", "update", "add", "discard", "setdefault", "__setitem__", "__delitem__"}


def a1_readonly(ctx):
    m = ctx.repo.module(BORD)
    n_sites = 0
    for qual, fn in m.funcs.items():
        if "<locals>" in qual or "volume" in fn.name:
            continue
        ps = au.params(fn)
        if not ps:
            continue
        mesh = ps[0]
        S = hj_scope.Scope(fn)
        site = ctx.site(BORD, fn)

        def container_of(e, at):
            """'<mesh>.<attr>' when e denotes a container owned by the mesh argument (not a copy)"""
            c = S.canon(e, at)
            ch = au.chain(c)
            if ch and len(ch) >= 2 and ch[0] == mesh and ch[1] not in ("connectivity",):
                return ".".join(ch)
            if isinstance(c, ast.Call) and not c.keywords:
                fc = au.chain(c.func)
                if fc and len(fc) == 3 and fc[0] == mesh and fc[1] == "connectivity" and fc[2].startswith(("vertex_to_", "face_to_", "edge_to_", "corner_to_")):
                    return ".".join(fc) + "(...)"       # the adjacency list cached by the connectivity, not a copy
            return None
        found = []
        for n in au.walk(fn):
            if isinstance(n, ast.Call) and isinstance(n.func, ast.Attribute) and n.func.attr in MUTATORS:
                k = container_of(n.func.value, n)
                if k:
                    found.append((n, f"{k}.{n.func.attr}(...)"))
            elif isinstance(n, (ast.Assign, ast.AugAssign)):
                for t in au.assign_targets(n):
                    for x in ([t] if not isinstance(t, (ast.Tuple, ast.List)) else t.elts):
                        if isinstance(x, ast.Subscript):
                            k = container_of(x.value, n)
                            if k:
                                found.append((n, f"{k}[...] = ..."))
                        elif isinstance(n, ast.AugAssign) and isinstance(x, (ast.Name, ast.Attribute)):
                            k = container_of(x, n) if isinstance(x, ast.Attribute) else (container_of(x, n) if S.value(x.id, n) is not None else None)
                            if k and isinstance(n.op, (ast.Add, ast.BitOr, ast.Sub, ast.Mult)):
                                found.append((n, f"{k} {type(n.op).__name__}= ..."))
            elif isinstance(n, ast.Delete):
                for t in n.targets:
                    if isinstance(t, ast.Subscript):
                        k = container_of(t.value, n)
                        if k:
                            found.append((n, f"del {k}[...]"))
        n_sites += 1
        if found:
            for node, what in found:
                shown = what.replace(mesh + ".", "<mesh>.")
                ctx.fail("C15-A1", ctx.site(BORD, fn, node), f"{fn.name} modifies a container of the mesh in place: {shown}",
                         "the container is the one cached inside the mesh (not a copy): after the call the mesh has lost / gained border vertices or edges, "
                         "every later border query on the same mesh returns a wrong result")
        else:
            ctx.ok("C15-A1", site, f"{fn.name}: mesh containers only read")


# =========================================================================== the walk
def _unwrap_collection(e):
    """X of set(X) / frozenset(X) / list(X) / tuple(X): the same elements as far as membership goes"""
    while isinstance(e, ast.Call) and isinstance(e.func, ast.Name) and e.func.id in ("set", "frozenset", "list", "tuple") and len(e.args) == 1 and not e.keywords:
        e = e.args[0]
    return e


def w1_walk(ctx):
    fn0 = ctx.repo.func(BORD, "extract_border_cycle")
    site = ctx.site(BORD, fn0)
    try:
        F = H.walk_facts(ctx)
    except H.Contradiction as c:
        ctx.fail("C15-W1", ctx.site(BORD, fn0, c.node) if c.node is not None else site, c.construct, c.what)
        H.check_sort_contract(ctx, "C15-W1")
        return
    except Unrecognised as u:
        H.undecided(ctx, "C15-W1", site, u)
        H.check_sort_contract(ctx, "C15-W1")
        return
    fn, S, wl, lp = F["fn"], F["S"], F["wl"], F["lp"]
    mesh, start, cur, prev, cand = F["mesh"], F["start"], F["cur"], F["prev"], F["cand"]
    ssite = ctx.site(BORD, fn0, F["step"])
    # ---- the step: (previous, current) <- (current, chosen)
    np_ = F["new_prev"]
    if H.is_name(np_, cur):
        ctx.ok("C15-W1", ssite, "step advances (previous, current) together")
    elif isinstance(np_, ast.Name):
        ctx.fail("C15-W1", ssite, "extract_border_cycle: the step is not (previous, current) <- (current, chosen neighbour)",
                 "after the step the previous vertex must be the vertex just left, otherwise the walk may turn back")
    else:
        ctx.undecided("C15-W1", ssite, "extract_border_cycle: the new value of the previous vertex is not recognised", "")
    # ---- candidates
    dom = F["domain"]
    if isinstance(dom, ast.Call) and au.call_tail(dom) == "vertex_to_vertices" and len(dom.args) == 1 and isinstance(dom.args[0], ast.Name):
        ctx.check(dom.args[0].id == cur, "C15-W1", ctx.site(BORD, fn0, lp), "extract_border_cycle: the next vertex is not chosen among vertex_to_vertices(current)",
                  f"the candidates are the neighbours of `{dom.args[0].id}`: the walk moves along edges of the mesh", note="candidates = neighbours of the current vertex")
    else:
        ctx.undecided("C15-W1", ctx.site(BORD, fn0, lp), "extract_border_cycle: the set of candidates for the next vertex is not recognised", "")
    # ---- the choice condition
    def atom(x, boolean):
        if isinstance(x, ast.Call) and au.call_tail(x) == "is_vertex_on_border" and len(x.args) == 1 and H.is_name(x.args[0], cand):
            return H.name("border")
        if isinstance(x, ast.Compare) and len(x.ops) == 1 and isinstance(x.ops[0], (ast.Eq, ast.NotEq)):
            names = {au.src(x.left), au.src(x.comparators[0])}
            if names == {cand, prev}:
                n = H.name("same_as_previous")
                return n if isinstance(x.ops[0], ast.Eq) else ast.UnaryOp(op=ast.Not(), operand=n)
            if names == {cand, cur}:
                n = H.name("same_as_current")
                return n if isinstance(x.ops[0], ast.Eq) else ast.UnaryOp(op=ast.Not(), operand=n)
        if isinstance(x, ast.Compare) and len(x.ops) == 1 and isinstance(x.ops[0], (ast.In, ast.NotIn)) and H.is_name(x.left, cand) \
                and au.src(_unwrap_collection(x.comparators[0])) == f"{mesh}.boundary_vertices":
            n = H.name("border")
            return n if isinstance(x.ops[0], ast.In) else ast.UnaryOp(op=ast.Not(), operand=n)
        return None
    ab = H.Abs(atom)
    code = ab.boolean(H.conj(S.conds(F["hit"], stop=lp, keep=(cand, prev, cur))))
    hsite = ctx.site(BORD, fn0, F["hit"])
    if ab.unknown:
        ctx.undecided("C15-W1", hsite, "extract_border_cycle: a condition on the choice of the next vertex is not recognised", f"{ab.unknown}")
    else:
        try:
            wit, n = H.compare(code, "border and not same_as_previous")
            ctx.check(wit is None, "C15-W1", hsite,
                      "extract_border_cycle: a neighbour is chosen under a condition other than `on the border and != previous vertex`",
                      f"differs for {H.fmt_env(wit) if wit else ''}: the walk would leave the border or turn back",
                      note=f"choice guard: {n} assignments agree")
        except order.Unsupported as ex:
            ctx.undecided("C15-W1", hsite, "extract_border_cycle: the choice condition is not a boolean combination of tests", str(ex))
    if F["layout"] == "in-loop":
        ctx.check(bool(F["break"]), "C15-W1", ssite, "extract_border_cycle: no `break` after the step",
                  "after the step `previous` has changed, so later neighbours are tested against the wrong vertex and the walk can turn back",
                  note="first admissible neighbour wins (break)")
    else:
        ctx.check(bool(F["break"]), "C15-W1", hsite, "extract_border_cycle: the search does not stop at the first admissible neighbour",
                  "without a break the last admissible neighbour is taken: only the first one in scan order is joined by a border edge",
                  note="first admissible neighbour wins (break)")
        if F["guard"] == "is-not-none":
            ctx.ok("C15-W1", ssite, "step only when a neighbour was found")
        elif F["guard"] == "truthy":
            ctx.fail("C15-W1", ssite, "extract_border_cycle: the result of the search is tested for truth instead of `is not None`",
                     "vertex 0 is a valid vertex and is falsy: the walk stalls when the next border vertex is vertex 0")
        else:
            ctx.undecided("C15-W1", ssite, "extract_border_cycle: the test that a next vertex was found is not recognised", "")
    # ---- the walk continues iff current != start (and the safety cap)
    def watom(x, boolean):
        if isinstance(x, ast.Compare) and len(x.ops) == 1 and isinstance(x.ops[0], (ast.Eq, ast.NotEq)) \
                and {au.src(x.left), au.src(x.comparators[0])} == {cur, start}:
            n = H.name("back_at_start")
            return n if isinstance(x.ops[0], ast.Eq) else ast.UnaryOp(op=ast.Not(), operand=n)
        if isinstance(x, ast.Compare) and len(x.ops) == 1 and isinstance(x.ops[0], (ast.Eq, ast.NotEq)) \
                and {au.src(x.left), au.src(x.comparators[0])} == {prev, start}:
            n = H.name("previous_at_start")
            return n if isinstance(x.ops[0], ast.Eq) else ast.UnaryOp(op=ast.Not(), operand=n)
        if isinstance(x, ast.Compare) and len(x.ops) == 1 and isinstance(x.ops[0], (ast.Lt, ast.LtE, ast.Gt, ast.GtE)):
            sides = [x.left, x.comparators[0]]
            for a, b, lt in ((sides[0], sides[1], isinstance(x.ops[0], (ast.Lt, ast.LtE))), (sides[1], sides[0], isinstance(x.ops[0], (ast.Gt, ast.GtE)))):
                if isinstance(a, ast.Name) and H.increments_in(wl, a.id) and a.id not in au.names(b):
                    n = H.name("under_cap")
                    return n if lt else ast.UnaryOp(op=ast.Not(), operand=n)
        return None
    ab = H.Abs(watom)
    vst = au.enclosing_stmt(F["vrec"])
    raw = H.path_condition(vst, stop=wl)
    code = ab.boolean(H.conj([(t, p) for t, p, _ in raw]))
    wsite = ctx.site(BORD, fn0, wl)
    if ab.unknown:
        ctx.undecided("C15-W1", wsite, "extract_border_cycle: a condition of the walk loop is not recognised", f"{ab.unknown}")
    else:
        try:
            wit, n = H.compare(code, "not back_at_start and under_cap")
            if wit is not None:
                wit, n = H.compare(code, "not back_at_start")
            ctx.check(wit is None, "C15-W1", wsite, "extract_border_cycle: the walk does not run `while current != starting_point`",
                      f"differs for {H.fmt_env(wit) if wit else ''}: the cycle must close exactly at the starting vertex",
                      note="walk stops on return to the start")
        except order.Unsupported as ex:
            ctx.undecided("C15-W1", wsite, "extract_border_cycle: the loop condition is not a boolean combination of tests", str(ex))
    # ---- records come before the move, on the same path
    est = au.enclosing_stmt(F["erec"])
    tv, te, tl = (H.top_stmt_in(wl.body, z) for z in (vst, est, lp))
    same_path = [au.norm(t) + str(p) for t, p, _ in H.path_condition(est, stop=wl)] == [au.norm(t) + str(p) for t, p, _ in raw]
    e0 = S.canon(ast.Name(id=F["el"], ctx=ast.Load()), wl, keep=(start,))
    edges_start_empty = isinstance(e0, ast.List) and not e0.elts
    if tv is None or te is None or tl is None or not same_path or not edges_start_empty:
        ctx.undecided("C15-W1", wsite, "extract_border_cycle: the place where a step records its vertex and edge is not recognised", "")
    else:
        ctx.check(H.block_pos(tv) < H.block_pos(tl) and H.block_pos(te) < H.block_pos(tl), "C15-W1", wsite,
                  "extract_border_cycle: a step does not record the current vertex and the edge (previous, current) before moving on",
                  "vertex list and edge list must describe the same closed walk", note="each step records vertex and edge")
    # ---- closing edge
    wtop = H.top_stmt_in(fn.body, wl)
    closing = False
    if wtop is not None:
        for s in fn.body[H.block_pos(wtop) + 1:]:
            for c in au.calls(s):
                if au.call_tail(c) == "append" and isinstance(c.func, ast.Attribute) and H.is_name(c.func.value, F["el"]) and len(c.args) == 1:
                    ec = S.canon(c.args[0], c)
                    if isinstance(ec, ast.Call) and au.call_tail(ec) == "edge_id" and {au.src(a) for a in ec.args} == {prev, cur} and any(s is z for z in fn.body):
                        closing = True
    later_appends = [c for s in (fn.body[H.block_pos(wtop) + 1:] if wtop is not None else []) for c in au.calls(s)
                     if au.call_tail(c) in ("append", "extend", "insert") and isinstance(c.func, ast.Attribute) and H.is_name(c.func.value, F["el"])]
    if closing:
        ctx.ok("C15-W1", site, "closing edge appended")
    elif wtop is not None and not later_appends and any(F["ret"] is z for z in fn.body) and edges_start_empty \
            and tv is not None and te is not None and tl is not None and H.block_pos(te) < H.block_pos(tl):
        ctx.fail("C15-W1", site, "extract_border_cycle: closing edge (previous, current) not appended after the walk",
                 "the edge list only receives the edge of each step: a loop with n vertices has n edges")
    else:
        ctx.undecided("C15-W1", site, "extract_border_cycle: the statement appending the closing edge (previous, current) after the walk is not recognised", "")
    # ---- initial state
    v0 = S.canon(ast.Name(id=F["vl"], ctx=ast.Load()), wl, keep=(start,))
    p0 = S.canon(ast.Name(id=prev, ctx=ast.Load()), wl, keep=(start,))
    first = H.walk_first(F)
    if isinstance(v0, ast.List) and len(v0.elts) == 1 and H.is_name(v0.elts[0], start) and H.is_name(p0, start) and first is not None:
        ctx.ok("C15-W1", site, "walk initialised at the starting vertex")
    else:
        ctx.undecided("C15-W1", site, "extract_border_cycle: the initial state vertices=[start], previous=start, current=a neighbour of start is not recognised", "")
    H.check_walk_orientation(ctx, "C15-W1")
    H.check_sort_contract(ctx, "C15-W1")


# =========================================================================== corner orders
def k1_corners(ctx):
    fn0 = ctx.repo.func(FEAT, f"{DET}._flag_corners")
    site = ctx.site(FEAT, fn0)
    fn, S, nz = H.norm_fn(ctx, FEAT, f"{DET}._flag_corners")
    mesh = (au.params(fn, skip_self=True) or ["mesh"])[0]
    stores = [(s, t, v) for s, t, v in H.subscript_stores(fn, lambda x: True) if au.is_self_attr(t.value, "corners")]
    loops = []
    for s, t, v in stores:
        for lp in H.for_ancestors(s, stop=fn):
            elem, idx, seq, start = H.loop_elem(lp)
            if idx is None and isinstance(elem, ast.Name) and au.is_self_attr(S.canon(seq, lp), "feature_vertices") and all(lp is not z for z in loops):
                loops.append(lp)
    if len(loops) != 1:
        ctx.undecided("C15-K1", site, "_flag_corners: the loop over self.feature_vertices that stores self.corners[v] is not recognised", "")
        return
    lp = loops[0]
    v = lp.target.id
    lsite = ctx.site(FEAT, fn0, lp)
    # the rounded value(s)
    leaves = []
    for s, t, val in stores:
        if not H.is_name(t.slice, v) or val is None:
            ctx.undecided("C15-K1", ctx.site(FEAT, fn0, s), "_flag_corners: a store into self.corners is not keyed by the feature vertex", "")
            return
        for cs, leaf in hj_scope.ifexp_leaves(S.canon(val, s, keep=(v,))):
            leaves.append((s, leaf))
    def unwrap(l):
        while isinstance(l, ast.Call) and au.call_tail(l) in ("int", "float") and len(l.args) == 1 and isinstance(l.args[0], ast.Call) \
                and au.call_tail(l.args[0]) in ("round", "rint", "around", "int"):
            l = l.args[0]
        return l
    leaves = [(s, unwrap(l)) for s, l in leaves]
    rounds = [(s, l) for s, l in leaves if isinstance(l, ast.Call) and au.call_tail(l) in ("round", "int", "rint", "around", "floor", "ceil", "trunc") and l.args]
    if len(rounds) != 1:
        ctx.undecided("C15-K1", lsite, "_flag_corners: the store `self.corners[v] = round(...)` is not recognised", "")
        return
    s, call = rounds[0]
    if au.call_tail(call) not in ("round", "rint", "around"):
        ctx.fail("C15-K1", ctx.site(FEAT, fn0, s), "_flag_corners: corner order is not round(angle * corner_order / (2*pi))",
                 f"the quotient is truncated by `{au.call_tail(call)}` instead of rounded to the nearest integer")
        return
    # accumulator: a name that is += angles[corner(v, T)] for T in vertex_to_faces(v)
    acc = None
    acc_ok = False
    angle_defs = None
    for q in au.stmts(lp.body):
        inc = au.increment(q)
        if inc is None or inc[1] != 1:
            continue
        tgt = q.target if isinstance(q, ast.AugAssign) else q.targets[0]
        if not isinstance(tgt, ast.Name):
            continue
        ils = H.for_ancestors(q, stop=lp)
        if len(ils) != 1:
            continue
        elem, idx, seq, start = H.loop_elem(ils[0])
        seqc = S.canon(seq, ils[0], keep=(v,))
        if not (idx is None and isinstance(elem, ast.Name) and isinstance(seqc, ast.Call) and au.call_tail(seqc) in ("vertex_to_faces", "vertex_to_corners")
                and len(seqc.args) == 1 and H.is_name(seqc.args[0], v)):
            continue
        T = elem.id
        if isinstance(seqc, ast.Call) and au.call_tail(seqc) == "vertex_to_corners":
            # the corners of v, one per incident face: angles[c] for c in vertex_to_corners(v)
            val = S.canon(inc[2], q, keep=(v, T))
            if isinstance(val, ast.Subscript) and H.is_name(val.slice, T) and not H.path_condition(q, stop=ils[0]):
                acc = tgt.id
                angle_defs = [leaf for cs, leaf in hj_scope.ifexp_leaves(val.value)]
                init = S.value(acc, ils[0], keep=(v,))
                acc_ok = init is not None and au.const(init) in (0, 0.0) and any(ils[0] is z for z in lp.body)
            continue
        val = S.canon(inc[2], q, keep=(v, T))
        if isinstance(val, ast.Subscript) and isinstance(val.slice, ast.Call) and au.call_tail(val.slice) == "vertex_to_corner_in_face" \
                and [au.src(a) for a in val.slice.args] == [T, v]:
            ctx.fail("C15-K1", ctx.site(FEAT, fn0, q), "_flag_corners: vertex_to_corner_in_face is called with (face, vertex) instead of (vertex, face)",
                     "the corner looked up is not the corner of the feature vertex in the incident face")
            return
        if isinstance(val, ast.Subscript) and isinstance(val.slice, ast.Call) and au.call_tail(val.slice) == "vertex_to_corner_in_face" \
                and [au.src(a) for a in val.slice.args] == [v, T] and not H.path_condition(q, stop=ils[0]):
            acc = tgt.id
            angle_defs = [leaf for cs, leaf in hj_scope.ifexp_leaves(val.value)]
            init = S.value(acc, ils[0], keep=(v,))
            acc_ok = init is not None and au.const(init) in (0, 0.0) and any(ils[0] is z for z in lp.body)
            if init is None and not any(isinstance(z, ast.Assign) and any(H.is_name(t, acc) for t in z.targets) for z in au.stmts(lp.body)) \
                    and au.const(S.value(acc, lp)) in (0, 0.0) and S.value(acc, lp) is not None:
                ctx.fail("C15-K1", ctx.site(FEAT, fn0, lp), "_flag_corners: the sum of the corner angles is initialised once before the loop over the feature vertices",
                         "the angle of a vertex then includes the angles of all vertices visited before it")
                return
    if acc is None:
        # same accumulation written as  a = sum(angles[corner(v, T)] for T in vertex_to_faces(v))  [start 0], once per feature vertex
        for q in lp.body:
            if not (isinstance(q, ast.Assign) and len(q.targets) == 1 and isinstance(q.targets[0], ast.Name)):
                continue
            c = q.value
            if not (isinstance(c, ast.Call) and au.call_tail(c) == "sum" and isinstance(c.func, ast.Name) and not c.keywords and 1 <= len(c.args) <= 2
                    and isinstance(c.args[0], (ast.GeneratorExp, ast.ListComp)) and len(c.args[0].generators) == 1
                    and (len(c.args) == 1 or au.const(c.args[1]) in (0, 0.0) and au.const(c.args[1]) is not None)):
                continue
            g = c.args[0].generators[0]
            if g.ifs or g.is_async or not isinstance(g.target, ast.Name):
                continue
            T = g.target.id
            seqc = S.canon(g.iter, q, keep=(v,))
            if not (isinstance(seqc, ast.Call) and au.call_tail(seqc) in ("vertex_to_faces", "vertex_to_corners") and len(seqc.args) == 1 and H.is_name(seqc.args[0], v)):
                continue
            val = S.canon(c.args[0].elt, q, keep=(v, T))
            if not isinstance(val, ast.Subscript):
                continue
            if au.call_tail(seqc) == "vertex_to_corners":
                good = H.is_name(val.slice, T)
            else:
                good = isinstance(val.slice, ast.Call) and au.call_tail(val.slice) == "vertex_to_corner_in_face" and [au.src(a) for a in val.slice.args] == [v, T]
                if isinstance(val.slice, ast.Call) and au.call_tail(val.slice) == "vertex_to_corner_in_face" and [au.src(a) for a in val.slice.args] == [T, v]:
                    ctx.fail("C15-K1", ctx.site(FEAT, fn0, q), "_flag_corners: vertex_to_corner_in_face is called with (face, vertex) instead of (vertex, face)",
                             "the corner looked up is not the corner of the feature vertex in the incident face")
                    return
            if good and sum(1 for z in au.stmts(fn.body) if any(q.targets[0].id in au.assigned_names(t) for t in au.assign_targets(z))) == 1:
                acc = q.targets[0].id
                angle_defs = [leaf for cs, leaf in hj_scope.ifexp_leaves(val.value)]
                acc_ok = True
                break
    if acc is None:
        ctx.undecided("C15-K1", lsite, "_flag_corners: the accumulation of the corner angles around a feature vertex is not recognised", "")
        return
    stale = [d for d in angle_defs if isinstance(d, ast.Call) and au.call_tail(d) == "get_attribute"]
    fresh = [d for d in angle_defs if isinstance(d, ast.Call) and au.call_tail(d) == "corner_angles" and d.args and H.is_name(d.args[0], mesh)]
    if stale:
        ctx.fail("C15-K1", lsite, "_flag_corners: the corner angles are read back from an attribute stored on the mesh instead of being computed on this run",
                 "corner_angles stores a persistent 'angles' attribute by default and nothing invalidates it when vertices move: the corner orders are "
                 "then derived from the angles of an older geometry while the feature edges follow the current one")
    elif len(fresh) == len(angle_defs) and acc_ok:
        ctx.ok("C15-K1", lsite, "angle = sum of the corner angles at v, computed by corner_angles")
    else:
        ctx.undecided("C15-K1", lsite, "_flag_corners: the origin of the summed angles / the initial value of the sum is not recognised", "")
    arg = S.canon(call.args[0], s, keep=(v, acc))
    arg = hj_scope.fold_defaults(arg, ctx.repo, FEAT, DET) if False else arg
    p = _poly_tau(arg)
    if acc not in p.atoms():
        # the rounded leaf was resolved through the name of the sum: resolve it again keeping that name
        again = [unwrap(leaf) for s2, t2, v2 in stores if s2 is s for cs, leaf in hj_scope.ifexp_leaves(S.canon(v2, s2, keep=(v, acc)))]
        again = [l for l in again if isinstance(l, ast.Call) and au.call_tail(l) in ("round", "rint", "around") and l.args]
        if len(again) == 1:
            arg = again[0].args[0]
            p = _poly_tau(arg)
    want = sym.Poly({tuple(sorted((acc, "<self.corner_order>"))): Fraction(1 / (2 * math.pi)).limit_denominator(10 ** 9)})
    if acc not in p.atoms():
        ctx.undecided("C15-K1", ctx.site(FEAT, fn0, s), "_flag_corners: the rounded quantity does not involve the summed angle", "")
        return
    if H.approx_eq(p, want, 1e-7):
        ctx.ok("C15-K1", ctx.site(FEAT, fn0, s), "corners[v] = round(angle * corner_order / 2pi)")
    elif len(p.t) == 1 and set(p.atoms()) <= {acc, "<self.corner_order>"}:
        ctx.fail("C15-K1", ctx.site(FEAT, fn0, s), "_flag_corners: corner order is not round(angle * corner_order / (2*pi))",
                 f"an angle of k * 2pi/corner_order must get order k; found `{au.src(call.args[0])}`")
    else:
        # e.g. a quotient by a pre-computed quantum: try numerically with the default corner order
        ok_num = None
        try:
            co = hj_scope.fold(hj_scope.attr_default(ctx.repo, FEAT, DET, "corner_order"))
            env = {a: (1.0 if a == acc else float(co)) for a in p.atoms() if a in (acc, "<self.corner_order>")}
            if co and set(env) == set(p.atoms()):
                ok_num = abs(float(p.eval(env)) - co / (2 * math.pi)) < 1e-9
        except Exception:
            ok_num = None
        if ok_num:
            ctx.ok("C15-K1", ctx.site(FEAT, fn0, s), "corners[v] = round(angle * corner_order / 2pi) (numerically, default corner order)")
        else:
            ctx.undecided("C15-K1", ctx.site(FEAT, fn0, s), "_flag_corners: the quantity that is rounded is not recognised as angle * corner_order / (2*pi)", "")


def _poly_tau(e):
    """H.poly with tau folded"""
    class T(ast.NodeTransformer):
        def visit_Name(self, n):
            return ast.Constant(value=math.tau) if n.id == "tau" else n

        def visit_Attribute(self, n):
            self.generic_visit(n)
            c = au.chain(n)
            return ast.Constant(value=math.tau) if c and c[-1] == "tau" and c[0] in ("math", "np", "numpy") else n
    return H.poly(T().visit(sym.clone(e)))
# =========================================================================== geometry caches
def g1_geometry_cache(ctx):
    repo = ctx.repo
    cls = repo.cls(FEAT, DET)
    fns = [st for st in cls.body if isinstance(st, ast.FunctionDef)]
    reused = H.reused_attributes(fns)
    n = 0
    for fn in fns:
        for c in au.calls(fn):
            facts = H.persistent_call_facts(repo, FEAT, c)
            if facts is None:
                continue
            n += 1
            key = (facts["container"], facts["name"])
            clash = facts["persistent"] is not False and (key in reused or facts["name"] is None or facts["container"] is None
                                                           and any(nm == facts["name"] for _, nm in reused))
            ctx.check(not clash, "C15-G1", ctx.site(FEAT, fn, c),
                      f"{fn.name}: `{au.call_tail(c)}` stores its result on the mesh under a name the detector reuses when present",
                      f"{facts['callee']} is called with persistent={facts['persistent']} and creates mesh.{facts['container']}[{facts['name']!r}], which "
                      "the detector reads back through has_attribute/get_attribute on its next run: detect, move the vertices, detect again "
                      "applies the thresholds to the normals / angles of the old geometry",
                      note=f"{fn.name}: {au.call_tail(c)} not persisted under a reused name (persistent={facts['persistent']})")
    if n == 0:
        ctx.undecided("C15-G1", ctx.site(FEAT, repo.func(FEAT, f"{DET}.run")), "FeatureEdgeDetector: computation of the face normals / corner angles not recognised",
                      "no call of a mouette.attributes function with a `persistent` parameter is found in the detector")



# ----------------------------------------------------------------------- generic families (msa/rules/generic.py)
_run_specific = run


def run(ctx):
    _run_specific(ctx)
    from ..rules import generic
    generic.apply(ctx, "C15", stale_modules=())


def _generic_rule_texts():
    from ..rules import generic
    return generic.rule_texts("C15", stale=False)


RULES.update(_generic_rule_texts())
