"""C15 - border and feature extraction are exact (structural clauses)."""
from __future__ import annotations
import ast, math
from .. import au, sym, order
from ..core import AnalysisError
from ..rules import c151718 as H

FEAT = "processing.features"
BORD = "processing.border"
DET = "FeatureEdgeDetector"

EXPLANATION = (
    "Static conformance of the feature detector and of the border extraction: the condition under which each of the "
    "three feature sources flags an edge is rebuilt from the source (enclosing tests and preceding skip-tests, local "
    "constants folded) and compared with the specified predicate under every ordering of the dot product against the "
    "thresholds and every truth assignment of the boolean atoms (R-ORDER); sources only ever write True, honour "
    "only_border, are all invoked unconditionally on a freshly cleared attribute (R-MUST); both endpoints of a feature "
    "edge reach the derived containers (R-PAIR); running offsets, component counter and visited book-keeping of the "
    "border extraction (R-OFFSET); skeleton of the border walk.  Structural necessary conditions only: the walk "
    "itself (that it follows border edges on every manifold surface) is not decided.")

RULES = {
    "C15-O1": "an edge is flagged by the sharp-angle source iff it is interior, only_border is off and dot(N1,N2) < cos(60deg) = 0.5; "
              "by the hard-edge source iff it is a declared hard edge, interior (not on the border), only_border is off and "
              "dot(N1,N2) < 0.8; N1,N2 are the normals of the two faces adjacent to that very edge; each source ranges over its whole domain",
    "C15-M1": "each feature source only ever stores True into the feature attribute and hands it back on every exit; the two "
              "non-border sources flag nothing under only_border; the border source flags every border edge unconditionally; run() "
              "resets the containers, invokes all three sources unconditionally on the same freshly created / cleared edge attribute",
    "C15-P1": "both endpoints of every feature edge enter feature_vertices and get their degree incremented by exactly one; "
              "local_feat_edges[v] holds the positions, in vertex_to_edges(v), of the flagged edges; the vertex flag is set for every feature vertex",
    "C15-B1": "extract_boundary_of_surface: the new index stored for a vertex is the running offset read before its increment, one "
              "vertex appended and one increment per visited vertex, one component step per extracted cycle, both endpoints of every "
              "edge remapped; visited book-keeping of both cycle collectors: a cycle is extracted from every not yet visited border "
              "vertex and all its vertices are marked",
    "C15-W1": "border walk orientation: the first step leaves through the head of the sorted neighbour list and the choice loop scans forward "
              "with first match (or tail / backward), so that the chosen neighbour is joined by a border edge; skeleton: next vertex = first neighbour that is on the border and differs from the previous vertex, "
              "(previous, current) advance together, the walk stops on return to the start, each step records the vertex and the "
              "edge (previous, current), the closing edge is appended",
    "C15-G1": "quantities the detector derives from the vertex positions are recomputed on every run: an attribute the detector reuses when "
              "present (has_attribute / get_attribute) is never created persistent by the detector itself (persistent=False at the call)",
    "C15-K1": "corner order = round(angle * corner_order / (2 pi)) of the summed corner angles of the vertex over its incident faces",
}


def run(ctx):
    o1_m1_sources(ctx)
    m1_run(ctx)
    p1_derived(ctx)
    b1_boundary(ctx)
    w1_walk(ctx)
    k1_corners(ctx)
    g1_geometry_cache(ctx)


# =========================================================================== sources
class Source:
    """Facts extracted from one `_add_*_to_features(self, mesh, feature_attr)` method."""

    def __init__(self, ctx, name):
        self.ctx, self.name = ctx, name
        self.fn = ctx.repo.func(FEAT, f"{DET}.{name}")
        self.site = ctx.site(FEAT, self.fn)
        ps = au.params(self.fn, skip_self=True)
        self.ok_sig = len(ps) >= 2
        self.mesh, self.attr = (ps + [None, None])[:2]
        self.b = sym.Bindings(self.fn)
        self.stores = H.subscript_stores(self.fn, lambda x: H.is_name(x, self.attr)) if self.ok_sig else []

    # -- the edge a store refers to: (index name, loop, (A, B) endpoint names, domain expr)
    def edge_of(self, st, tgt):
        idx = tgt.slice
        if not isinstance(idx, ast.Name):
            return None
        e = idx.id
        for lp in H.loop_ancestors(st, stop=self.fn):
            if not isinstance(lp, ast.For):
                continue
            t = lp.target
            if isinstance(t, ast.Tuple) and len(t.elts) == 2 and H.is_name(t.elts[0], e) \
                    and isinstance(lp.iter, ast.Call) and au.call_tail(lp.iter) == "enumerate" and len(lp.iter.args) == 1 \
                    and not lp.iter.keywords:
                ends = None
                if isinstance(t.elts[1], (ast.Tuple, ast.List)) and len(t.elts[1].elts) == 2 \
                        and all(isinstance(x, ast.Name) for x in t.elts[1].elts):
                    ends = tuple(x.id for x in t.elts[1].elts)
                return {"e": e, "loop": lp, "ends": ends, "domain": lp.iter.args[0], "enum": True}
            if H.is_name(t, e):
                ends = None
                for s in au.stmts(lp.body):
                    if isinstance(s, ast.Assign) and len(s.targets) == 1 and isinstance(s.targets[0], (ast.Tuple, ast.List)) \
                            and len(s.targets[0].elts) == 2 and all(isinstance(x, ast.Name) for x in s.targets[0].elts) \
                            and self.is_edge_row(s.value, e):
                        ends = tuple(x.id for x in s.targets[0].elts)
                return {"e": e, "loop": lp, "ends": ends, "domain": lp.iter, "enum": False}
        return None

    def is_edge_row(self, x, e):
        return isinstance(x, ast.Subscript) and au.src(x.value) == f"{self.mesh}.edges" and H.is_name(x.slice, e)

    def faces_of(self, info):
        """names (T1, T2) unpacked from edge_to_faces(A, B) of the store's edge, inside the loop"""
        if not info or not info["ends"]:
            return None
        for s in au.stmts(info["loop"].body):
            if isinstance(s, ast.Assign) and len(s.targets) == 1 and isinstance(s.targets[0], (ast.Tuple, ast.List)) \
                    and len(s.targets[0].elts) == 2 and all(isinstance(x, ast.Name) for x in s.targets[0].elts) \
                    and isinstance(s.value, ast.Call) and au.call_tail(s.value) == "edge_to_faces" \
                    and self.are_ends(s.value.args, info):
                a, b = (x.id for x in s.targets[0].elts)
                if a != b:
                    return a, b
        return None

    def are_ends(self, args, info):
        if len(args) == 2 and all(isinstance(a, ast.Name) for a in args):
            return {a.id for a in args} == set(info["ends"]) and len(set(info["ends"])) == 2
        if len(args) == 1 and isinstance(args[0], ast.Starred):
            return self.is_edge_row(args[0].value, info["e"])
        return False

    def condition(self, st):
        """resolved path condition of a store as [(expr, polarity)]"""
        out = []
        for t, pol, at in H.path_condition(st, stop=self.fn):
            out.append((self.b.resolve(t, at=at, keep=(self.mesh, self.attr)), pol))
        return out

    def abstract(self, st, info, faces):
        mesh = self.mesh
        normals_base = []

        def normal_index(x):
            if isinstance(x, ast.Subscript) and au.is_self_attr(x.value) and isinstance(x.slice, ast.Name) and faces \
                    and x.slice.id in faces:
                normals_base.append(x.value.attr)
                return x.slice.id
            return None

        def atom(x, boolean):
            if au.is_self_attr(x, "only_border"):
                return H.name("only_border")
            if isinstance(x, ast.Call):
                tail = au.call_tail(x)
                if tail == "has_attribute" and len(x.args) == 1 and au.const(x.args[0]) == "hard_edges" \
                        and isinstance(x.func, ast.Attribute) and au.src(x.func.value) == f"{mesh}.edges":
                    return H.name("hard")
                if tail == "is_edge_on_border" and info and info["ends"] and self.are_ends(x.args, info) and faces \
                        and isinstance(x.func, ast.Attribute) and H.is_name(x.func.value, mesh):
                    # an existing edge is on the border iff one of its two sides has no face (C01-O1)
                    return ast.BoolOp(op=ast.Or(), values=[H.name("n1"), H.name("n2")])
                if tail == "dot":
                    ops = None
                    if len(x.args) == 2 and not x.keywords:
                        ops = x.args
                    elif len(x.args) == 1 and isinstance(x.func, ast.Attribute):
                        ops = [x.func.value, x.args[0]]
                    if ops:
                        i1, i2 = normal_index(ops[0]), normal_index(ops[1])
                        if i1 and i2 and i1 != i2 and len(set(normals_base[-2:])) == 1:
                            return H.name("dot")
            if isinstance(x, ast.Compare) and len(x.ops) == 1 and isinstance(x.ops[0], (ast.Is, ast.IsNot)) \
                    and isinstance(x.comparators[0], ast.Constant) and x.comparators[0].value is None \
                    and isinstance(x.left, ast.Name) and faces and x.left.id in faces:
                n = H.name("n1" if x.left.id == faces[0] else "n2")
                return n if isinstance(x.ops[0], ast.Is) else ast.UnaryOp(op=ast.Not(), operand=n)
            # emptiness test of the very container the loop ranges over: known inside the loop
            if info is not None:
                dom = au.norm(info["domain"])
                if isinstance(x, ast.Compare) and len(x.ops) == 1 and isinstance(x.left, ast.Call) \
                        and au.call_tail(x.left) == "len" and len(x.left.args) == 1 and au.norm(x.left.args[0]) == dom \
                        and au.const(x.comparators[0]) == 0:
                    if isinstance(x.ops[0], ast.Eq):
                        return ast.Constant(value=False)
                    if isinstance(x.ops[0], (ast.Gt, ast.NotEq)):
                        return ast.Constant(value=True)
                if boolean and au.norm(x) == dom:
                    return ast.Constant(value=True)
            return None

        ab = H.Abstractor(atom)
        code = ab.boolean(H.conj(self.condition(st)))
        return code, ab.unknown, (normals_base[-1] if normals_base else None)


SPEC = {
    "_add_sharp_angles_to_features": ("not only_border and not n1 and not n2 and dot < 0.5",
                                      "interior edge, only_border off, dot(N1,N2) < cos(60deg) = 0.5"),
    "_add_hard_edges_to_features": ("not only_border and hard and not n1 and not n2 and dot < 0.8",
                                    "declared hard edge, not on the border, only_border off, dot(N1,N2) < 0.8"),
}


def o1_m1_sources(ctx):
    n_o1 = n_m1 = 0
    fl_o1, fl_m1 = H.Floor(ctx, "C15-O1"), H.Floor(ctx, "C15-M1")
    normals_fields = set()
    for name in ("_add_sharp_angles_to_features", "_add_hard_edges_to_features", "_add_border_to_features"):
        S = Source(ctx, name)
        if not S.ok_sig:
            ctx.fail("C15-M1", S.site, f"{name} does not take (mesh, feature_attr)", "run() hands the edge attribute to every source")
            continue
        if not S.stores:
            ctx.fail("C15-M1", S.site, f"{name}: store into the feature attribute not found",
                     "the source no longer flags anything: its class of feature edges is lost")
            continue
        # ---- M1: only True is ever written, nothing is removed
        for st, tgt, val in S.stores:
            n_m1 += 1
            ctx.check(isinstance(st, ast.Assign) and au.const(val) is True, "C15-M1", ctx.site(FEAT, S.fn, st),
                      f"{name} stores something else than True into the feature attribute",
                      "a source that writes False / a computed value un-flags edges found by the sources run before it",
                      note=f"{name}: stores True")
        bad_use = []
        for n in au.walk(S.fn):
            if isinstance(n, ast.Call) and isinstance(n.func, ast.Attribute) and H.is_name(n.func.value, S.attr) \
                    and n.func.attr in ("clear", "pop", "remove", "popitem", "update", "fill", "empty"):
                bad_use.append(n.func.attr)
            if isinstance(n, ast.Delete) and any(isinstance(t, ast.Subscript) and H.is_name(t.value, S.attr) for t in n.targets):
                bad_use.append("del")
            if isinstance(n, (ast.Assign, ast.AugAssign, ast.AnnAssign)) and any(
                    H.is_name(t, S.attr) for t in au.assign_targets(n)):
                bad_use.append("rebinding")
        n_m1 += 1
        ctx.check(not bad_use, "C15-M1", S.site, f"{name} removes flags / rebinds the feature attribute ({', '.join(sorted(set(bad_use)))})",
                  "flags written by the other sources are lost", note=f"{name}: attribute only receives stores")
        # every exit hands the attribute back (run rebinds its variable to the result)
        rets = [n for n in au.walk(S.fn) if isinstance(n, ast.Return)]
        bad_ret = [r for r in rets if not H.is_name(r.value, S.attr)]
        falls = not H.terminates(S.fn.body)
        n_m1 += 1
        ctx.check(not bad_ret and not falls and bool(rets), "C15-M1", S.site,
                  f"{name} does not return the feature attribute on every exit",
                  "run() rebinds its attribute variable to the result of each source: a bare return makes the next source fail / lose the flags",
                  note=f"{name}: {len(rets)} exits return the attribute")

        if name == "_add_border_to_features":
            for st, tgt, val in S.stores:
                info = S.edge_of(st, tgt)
                site = ctx.site(FEAT, S.fn, st)
                dom_ok = info is not None and au.src(info["domain"]) == f"{S.mesh}.boundary_edges" and not info["enum"]
                n_m1 += 1
                ctx.check(dom_ok, "C15-M1", site, "border source does not range over mesh.boundary_edges with the flagged index as loop variable",
                          "every border edge is a feature edge", note="border source ranges over mesh.boundary_edges")
                code, unknown, _ = S.abstract(st, info, None)
                try:
                    wit, n = H.compare(code, "True")
                except order.Unsupported as ex:
                    wit, n = {"unsupported": str(ex)}, 0
                n_m1 += 1
                ctx.check(wit is None, "C15-M1", site, "border edge flagged only conditionally",
                          f"border edges are features whatever the options; not flagged when {H.fmt_env(wit) if wit else ''} "
                          f"(conditions: {unknown})", note=f"border store unconditional ({n} assignments)")
            continue

        spec, text = SPEC[name]
        for st, tgt, val in S.stores:
            site = ctx.site(FEAT, S.fn, st)
            info = S.edge_of(st, tgt)
            faces = S.faces_of(info)
            if info is None or not info["ends"] or not faces:
                ctx.fail("C15-O1", site, f"{name}: the flagged index is not the edge whose endpoints are given to edge_to_faces",
                         "the dot product must compare the normals of the two faces adjacent to the edge that is flagged")
                n_o1 += 1
                continue
            code, unknown, nfield = S.abstract(st, info, faces)
            if nfield:
                normals_fields.add(nfield)
            # domain
            if name == "_add_sharp_angles_to_features":
                d = au.src(info["domain"])
                dom_ok = (info["enum"] and d == f"{S.mesh}.edges") or (not info["enum"] and d in (
                    f"{S.mesh}.id_edges", f"range(len({S.mesh}.edges))"))
                what = "every edge of the mesh is a candidate sharp edge"
            else:
                dcall = info["domain"]
                dom_ok = not info["enum"] and isinstance(dcall, ast.Call) and au.call_tail(dcall) == "get_attribute" \
                    and len(dcall.args) == 1 and au.const(dcall.args[0]) == "hard_edges" \
                    and au.src(dcall.func.value) == f"{S.mesh}.edges"
                what = "the candidates are the edges declared in the 'hard_edges' attribute"
            n_o1 += 1
            ctx.check(dom_ok, "C15-O1", site, f"{name} does not range over its whole candidate domain",
                      what + f"; found `{au.src(info['domain'])}`" + (" (enumerated)" if info["enum"] else ""),
                      note=f"{name}: candidate domain")
            n_o1 += 1
            if unknown:
                ctx.fail("C15-O1", site, f"{name}: unrecognised condition on the flag",
                         f"flag must be set iff {text}; the store is additionally conditioned by {unknown}")
                continue
            try:
                wit, n = H.compare(code, spec)
            except order.Unsupported as ex:
                ctx.fail("C15-O1", site, f"{name}: flag condition not a comparison predicate", str(ex))
                continue
            ctx.check(wit is None, "C15-O1", site, f"{name}: flag condition differs from the specification",
                      f"flag must be set iff {text}; code `{au.src(code)}` differs for {H.fmt_env(wit) if wit else ''} "
                      f"(n1/n2 = side 1/2 of the edge has no face)",
                      note=f"{name}: {n} orderings/assignments agree with `{spec}`")
            # M1: nothing flagged under only_border
            n_m1 += 1
            w2, n2 = H.compare(ast.BoolOp(op=ast.And(), values=[code, H.name("only_border")]), "False")
            ctx.check(w2 is None, "C15-M1", site, f"{name} flags edges although only_border is set",
                      f"with only_border=True only border edges are features; flagged when {H.fmt_env(w2) if w2 else ''}",
                      note=f"{name}: silent under only_border")
    fl_o1.require(4, "C15-O1 threshold / domain obligations")
    fl_m1.require(13, "C15-M1 source obligations")
    ctx._c15_normals_fields = normals_fields


# =========================================================================== run()
def m1_run(ctx):
    repo = ctx.repo
    fn = repo.func(FEAT, f"{DET}.run")
    site = ctx.site(FEAT, fn)
    fl = H.Floor(ctx, "C15-M1")
    ps = au.params(fn, skip_self=True)
    mesh = ps[0] if ps else "mesh"
    srcs = ("_add_hard_edges_to_features", "_add_sharp_angles_to_features", "_add_border_to_features")
    calls = {}
    for c in au.calls(fn):
        if isinstance(c.func, ast.Attribute) and au.is_self_attr(c.func) and c.func.attr in srcs:
            calls.setdefault(c.func.attr, []).append(c)
    # the consumer loop: for e in F: ... self.feature_edges.add(e)
    consumer = None
    for st in au.stmts(fn.body):
        if isinstance(st, ast.For) and isinstance(st.iter, ast.Name) and isinstance(st.target, ast.Name):
            if any(au.call_tail(c) == "add" and au.is_self_attr(c.func.value, "feature_edges") and c.args
                   and H.is_name(c.args[0], st.target.id) for c in au.calls(st) if isinstance(c.func, ast.Attribute)):
                consumer = st
    if consumer is None:
        ctx.fail("C15-M1", site, "run: loop `for e in <feature attribute>: self.feature_edges.add(e)` not found",
                 "the feature edge set is the set of flagged edges")
        return
    F = consumer.iter.id
    n = 0
    for s in srcs:
        cs = calls.get(s, [])
        n += 1
        if len(cs) != 1:
            ctx.fail("C15-M1", site, f"run invokes {s} {len(cs)} time(s)", "each of the three feature sources contributes its edges exactly once")
            continue
        c = cs[0]
        st = au.enclosing_stmt(c)
        cond = H.path_condition(c, stop=fn)
        args_ok = len(c.args) == 2 and H.is_name(c.args[0], mesh) and H.is_name(c.args[1], F) and not c.keywords
        form_ok = (isinstance(st, ast.Expr) and st.value is c) or (
            isinstance(st, ast.Assign) and st.value is c and len(st.targets) == 1 and H.is_name(st.targets[0], F))
        before = st.lineno < consumer.lineno and H.in_same_block(st, consumer)
        ctx.check(not cond and args_ok and form_ok and before, "C15-M1", ctx.site(FEAT, fn, c),
                  f"run does not invoke {s}(mesh, {F}) unconditionally before the containers are built",
                  "all three sources must run on the one edge attribute that is turned into feature_edges",
                  note=f"run: {s} unconditional on `{F}`")
    # must facts: containers cleared, attribute fresh, normals set
    nf = sorted(getattr(ctx, "_c15_normals_fields", set()) or {"fnormals"})
    viol = []
    src_stmts = {id(au.enclosing_stmt(cs[0])): s for s, cs in calls.items() if len(cs) == 1}

    def gen_kill(node):
        g, k = set(), set()
        if isinstance(node, (ast.Assign, ast.AnnAssign)):
            v = node.value
            for t in au.assign_targets(node):
                if H.is_name(t, F) and id(node) not in src_stmts:
                    if isinstance(v, ast.Call) and au.call_tail(v) == "create_attribute":
                        g.add("fresh")
                    else:
                        k.add("fresh")
                for f in nf:
                    if au.is_self_attr(t, f):
                        (g if not (isinstance(v, ast.Constant) and v.value is None) else k).add("normals:" + f)
        if isinstance(node, ast.Expr) and isinstance(node.value, ast.Call):
            c = node.value
            if isinstance(c.func, ast.Attribute) and c.func.attr == "clear":
                if H.is_name(c.func.value, F):
                    g.add("fresh")
                if H.is_name(c.func.value, "self"):
                    g.add("cleared")
        return g, k

    def observe(state, node):
        if id(node) in src_stmts:
            for need in ["fresh", "cleared"] + ["normals:" + f for f in nf]:
                if need not in state:
                    viol.append((need, src_stmts[id(node)], node))

    H.must_flow(fn.body, gen_kill, observe=observe)
    msgs = {"fresh": ("the edge attribute 'feature' may be reused without being cleared",
                      "flags of a previous run / of the input file survive: the detector no longer flags *exactly* the specified edges"),
            "cleared": ("self.clear() does not dominate the detection",
                        "feature_edges / feature_vertices / degrees of a previous run leak into this one")}
    seen = set()
    for need, s, node in viol:
        if need in seen:
            continue
        seen.add(need)
        if need.startswith("normals:"):
            ctx.fail("C15-M1", ctx.site(FEAT, fn, node), f"self.{need[8:]} may be unset when the sources run",
                     "the thresholds are applied to the face normals computed for this mesh")
        else:
            ctx.fail("C15-M1", ctx.site(FEAT, fn, node), msgs[need][0], msgs[need][1])
    for need in ["fresh", "cleared"] + ["normals:" + f for f in nf]:
        n += 1
        if need not in seen:
            ctx.ok("C15-M1", site, f"run: `{need}` holds on every path reaching the sources")
    # the attribute is the edge attribute "feature"
    defs = [st for st in au.stmts(fn.body) if isinstance(st, ast.Assign) and any(H.is_name(t, F) for t in st.targets)
            and id(st) not in src_stmts]
    okd = bool(defs) and all(isinstance(d.value, ast.Call) and au.call_tail(d.value) in ("get_attribute", "create_attribute")
                             and au.src(d.value.func.value) == f"{mesh}.edges" and d.value.args
                             and au.const(d.value.args[0]) == "feature" for d in defs)
    n += 1
    ctx.check(okd, "C15-M1", site, f"run: `{F}` is not the edge attribute \"feature\" of the mesh",
              "the flags are published as mesh.edges 'feature'", note="run: attribute is mesh.edges['feature']")
    # clear() resets all containers; only_border comes from the constructor argument
    clr = repo.func(FEAT, f"{DET}.clear")
    reset = {t.attr for st in clr.body if isinstance(st, (ast.Assign, ast.AnnAssign)) for t in au.assign_targets(st)
             if au.is_self_attr(t) and isinstance(st.value, ast.Call) and not st.value.args
             and au.call_tail(st.value) in ("set", "dict") or
             (au.is_self_attr(t) and isinstance(st.value, ast.Call) and au.call_tail(st.value) == "Attribute")}
    need = {"feature_vertices", "feature_edges", "feature_degrees", "local_feat_edges"}
    n += 1
    ctx.check(need <= reset, "C15-M1", ctx.site(FEAT, clr), "clear() does not reset the four feature containers",
              f"not reset: {sorted(need - reset)}; a second run accumulates on top of the first: degrees are doubled, stale feature edges remain",
              note="clear resets the four containers")
    ini = repo.func(FEAT, f"{DET}.__init__")
    ob = [st for st in au.stmts(ini.body) if isinstance(st, (ast.Assign, ast.AnnAssign))
          and any(au.is_self_attr(t, "only_border") for t in au.assign_targets(st))]
    n += 1
    ctx.check(len(ob) == 1 and H.is_name(ob[0].value, "only_border") and "only_border" in au.params(ini),
              "C15-M1", ctx.site(FEAT, ini), "self.only_border is not the constructor argument only_border",
              "'only the border when so configured'", note="only_border stored from the argument")
    fl.require(9, "C15-M1 run obligations")


# =========================================================================== derived containers
def _unpack_ends(body, mesh, e):
    """names (A, B) from `A, B = mesh.edges[e]` among the direct statements of body"""
    for s in body:
        if isinstance(s, ast.Assign) and len(s.targets) == 1 and isinstance(s.targets[0], (ast.Tuple, ast.List)) \
                and len(s.targets[0].elts) == 2 and all(isinstance(x, ast.Name) for x in s.targets[0].elts) \
                and isinstance(s.value, ast.Subscript) and au.src(s.value.value) == f"{mesh}.edges" and H.is_name(s.value.slice, e):
            return tuple(x.id for x in s.targets[0].elts), s
    return None, None


def p1_derived(ctx):
    fn = ctx.repo.func(FEAT, f"{DET}.run")
    site = ctx.site(FEAT, fn)
    mesh = (au.params(fn, skip_self=True) or ["mesh"])[0]
    n = 0
    fl = H.Floor(ctx, "C15-P1")
    # (a) set containers
    consumer = F = None
    for st in au.stmts(fn.body):
        if isinstance(st, ast.For) and isinstance(st.target, ast.Name):
            adds = [c for c in au.calls(st) if isinstance(c.func, ast.Attribute) and c.func.attr == "add"
                    and au.is_self_attr(c.func.value, "feature_edges")]
            if adds:
                consumer = st
    if consumer is None:
        ctx.fail("C15-P1", site, "run: loop filling self.feature_edges not found", "")
    else:
        e = consumer.target.id
        ends, ust = _unpack_ends(consumer.body, mesh, e)
        if isinstance(consumer.iter, ast.Name):
            F = consumer.iter.id
        vadds = [c for c in au.calls(consumer) if isinstance(c.func, ast.Attribute) and c.func.attr == "add"
                 and au.is_self_attr(c.func.value, "feature_vertices") and len(c.args) == 1]
        vupd = [c for c in au.calls(consumer) if isinstance(c.func, ast.Attribute) and c.func.attr == "update"
                and au.is_self_attr(c.func.value, "feature_vertices") and len(c.args) == 1
                and isinstance(c.args[0], (ast.Tuple, ast.List, ast.Set))]
        eadds = [c for c in au.calls(consumer) if isinstance(c.func, ast.Attribute) and c.func.attr == "add"
                 and au.is_self_attr(c.func.value, "feature_edges") and len(c.args) == 1]
        n += 1
        if not ends:
            ctx.fail("C15-P1", ctx.site(FEAT, fn, consumer), "endpoints of a feature edge are not unpacked from mesh.edges[e]",
                     "feature vertices are the endpoints of feature edges")
        else:
            added = sorted([au.src(c.args[0]) for c in vadds] + [au.src(x) for c in vupd for x in c.args[0].elts])
            uncond = all(au.enclosing_stmt(c) in consumer.body for c in vadds + vupd + eadds)
            ctx.check(added == sorted(ends) and len(set(ends)) == 2 and uncond and len(eadds) == 1 and H.is_name(eadds[0].args[0], e),
                      "C15-P1", ctx.site(FEAT, fn, consumer),
                      "feature_vertices does not receive exactly the two endpoints of every flagged edge",
                      f"both endpoints of every feature edge are feature vertices (and every flagged edge is a feature edge), unconditionally; "
                      f"found adds {added} for edge ({', '.join(ends)})",
                      note="both endpoints enter feature_vertices")
    # (b) degrees
    deg_loops = []
    for st in au.stmts(fn.body):
        if isinstance(st, ast.For) and H.subscript_stores(st.body, lambda b: au.is_self_attr(b, "feature_degrees")):
            deg_loops.append(st)
    n += 1
    if len(deg_loops) != 1:
        ctx.fail("C15-P1", site, f"run: {len(deg_loops)} loop(s) updating self.feature_degrees (expected one)",
                 "the degree of a vertex is the number of feature edges it belongs to")
    else:
        lp = deg_loops[0]
        it_ok = isinstance(lp.target, ast.Name) and (au.is_self_attr(lp.iter, "feature_edges") or (F and H.is_name(lp.iter, F)))
        ends, _ = _unpack_ends(lp.body, mesh, lp.target.id) if isinstance(lp.target, ast.Name) else (None, None)
        sts = H.subscript_stores(lp.body, lambda b: au.is_self_attr(b, "feature_degrees"))
        incs = []
        for st, tgt, val in sts:
            k = None
            if isinstance(st, ast.AugAssign) and isinstance(st.op, ast.Add):
                k = au.const(st.value)
            elif isinstance(st, ast.Assign) and val is not None:
                try:
                    p = sym.to_poly(val, atom_of=lambda x, _t=au.src(tgt): "D" if au.src(x) == _t else None, opaque=False)
                    if p.coeff("D") == sym.Poly.const(1) and p.without("D").is_const():
                        k = int(p.without("D").const_value())
                except sym.NotPoly:
                    k = None
            incs.append((au.src(tgt.slice), k, st in lp.body))
        ok = bool(ends) and it_ok and sorted(i[0] for i in incs) == sorted(ends) and len(set(ends)) == 2 \
            and all(k == 1 and top for _, k, top in incs)
        ctx.check(ok, "C15-P1", ctx.site(FEAT, fn, lp),
                  "feature_degrees is not incremented by one for each of the two endpoints of every feature edge",
                  f"each feature edge adds exactly one to the degree of each of its two endpoints, once (loop over the feature edge set); "
                  f"found updates {[(a, k) for a, k, _ in incs]} for edge {ends}",
                  note="degree += 1 for both endpoints")
    # (c) local feature edges
    lfe = [st for st in au.stmts(fn.body) if isinstance(st, ast.For) and isinstance(st.target, ast.Name)
           and any(isinstance(t, ast.Subscript) and au.is_self_attr(t.value, "local_feat_edges")
                   for s in st.body if isinstance(s, ast.Assign) for t in s.targets)]
    n += 1
    if len(lfe) != 1:
        ctx.fail("C15-P1", site, "run: loop initialising self.local_feat_edges[v] not found", "")
    else:
        lp = lfe[0]
        v = lp.target.id
        ok_iter = au.is_self_attr(lp.iter, "feature_vertices")
        # candidate forms: (enumerate call, target, appended element, [(cond, polarity)], starts empty)
        forms = []
        init_pos = [i for i, s in enumerate(lp.body) if isinstance(s, ast.Assign) and isinstance(s.targets[0], ast.Subscript)
                    and au.is_self_attr(s.targets[0].value, "local_feat_edges") and H.is_name(s.targets[0].slice, v)
                    and isinstance(s.value, (ast.List, ast.Call)) and not getattr(s.value, "elts", None)
                    and not getattr(s.value, "args", None)]
        for i, s in enumerate(lp.body):
            if isinstance(s, ast.Assign) and len(s.targets) == 1 and isinstance(s.targets[0], ast.Subscript) \
                    and au.is_self_attr(s.targets[0].value, "local_feat_edges") and H.is_name(s.targets[0].slice, v) \
                    and isinstance(s.value, ast.ListComp) and len(s.value.generators) == 1:
                g = s.value.generators[0]
                forms.append((g.iter, g.target, s.value.elt, [(t, True) for t in g.ifs], True))
            if isinstance(s, ast.For):
                apps = [c for c in au.calls(s) if isinstance(c.func, ast.Attribute) and c.func.attr == "append"
                        and isinstance(c.func.value, ast.Subscript) and au.is_self_attr(c.func.value.value, "local_feat_edges")]
                if len(apps) == 1 and len(apps[0].args) == 1 and H.is_name(apps[0].func.value.slice, v):
                    cond = [(t, pol) for t, pol, _ in H.path_condition(apps[0], stop=s)]
                    forms.append((s.iter, s.target, apps[0].args[0], cond, bool(init_pos) and init_pos[0] < i))
        ok = False
        detail = "no `for i, ev in enumerate(vertex_to_edges(v))` filling local_feat_edges[v]"
        for it, t, elt, cond, empty in forms:
            if not (isinstance(it, ast.Call) and au.call_tail(it) == "enumerate" and it.args):
                continue
            start = 0
            if len(it.args) > 1:
                start = au.const(it.args[1])
            for kw in it.keywords:
                if kw.arg == "start":
                    start = au.const(kw.value)
            src_call = it.args[0]
            if not (isinstance(t, ast.Tuple) and len(t.elts) == 2 and all(isinstance(x, ast.Name) for x in t.elts)):
                continue
            ki, ke = t.elts[0].id, t.elts[1].id
            c0 = cond[0] if len(cond) == 1 else None
            if c0 and isinstance(c0[0], ast.UnaryOp) and isinstance(c0[0].op, ast.Not):
                c0 = (c0[0].operand, not c0[1])
            cond_ok = c0 is not None and c0[1] is True and isinstance(c0[0], ast.Subscript) \
                and (F is None or H.is_name(c0[0].value, F)) and H.is_name(c0[0].slice, ke)
            ok = (start == 0 and isinstance(src_call, ast.Call) and au.call_tail(src_call) == "vertex_to_edges"
                  and len(src_call.args) == 1 and H.is_name(src_call.args[0], v)
                  and H.is_name(elt, ki) and cond_ok and empty and ok_iter and len(forms) == 1)
            detail = (f"collects `{au.src(elt)}` under `{' and '.join(('' if pl else 'not ') + au.src(c) for c, pl in cond)}` "
                      f"while enumerating `{au.src(it)}`" + ("" if empty else ", list not reset first"))
        ctx.check(ok, "C15-P1", ctx.site(FEAT, fn, lp), "local_feat_edges[v] is not the list of positions i of flagged edges in enumerate(vertex_to_edges(v))",
                  f"documented as local indices in the order of mesh.connectivity.vertex_to_edges, for every feature vertex, starting from an empty list; found: {detail}",
                  note="local_feat_edges[v] = [i for i, ev in enumerate(vertex_to_edges(v)) if feature[ev]]")
    # (d) vertex flag
    flagged = False
    for st in au.stmts(fn.body):
        if isinstance(st, ast.For) and isinstance(st.target, ast.Name) and au.is_self_attr(st.iter, "feature_vertices"):
            for s in st.body:
                if isinstance(s, ast.Assign) and isinstance(s.targets[0], ast.Subscript) and isinstance(s.targets[0].value, ast.Name) \
                        and H.is_name(s.targets[0].slice, st.target.id) and au.const(s.value) is True:
                    fv = s.targets[0].value.id
                    defs = [d for d in au.stmts(fn.body) if isinstance(d, ast.Assign) and any(H.is_name(t, fv) for t in d.targets)]
                    if defs and all(isinstance(d.value, ast.Call) and au.src(d.value.func.value) == f"{mesh}.vertices"
                                    and d.value.args and au.const(d.value.args[0]) == "feature" for d in defs):
                        flagged = True
    n += 1
    ctx.check(flagged, "C15-P1", site, "vertex attribute 'feature' is not set to True for every v in self.feature_vertices",
              "the published vertex flag must agree with feature_vertices", note="vertex flag set for every feature vertex")
    fl.require(4)


# =========================================================================== border extraction
def _cycle_collector(ctx, fn, want_edges):
    """Common visited book-keeping of extract_border_cycle_all / extract_boundary_of_surface.
    Returns dict(outer loop, guarded block, cycle vertex loop, names) or None (after reporting)."""
    site = ctx.site(BORD, fn)
    mesh = (au.params(fn) or ["mesh"])[0]
    calls = [c for c in au.calls(fn) if au.call_tail(c) == "extract_border_cycle"]
    if len(calls) != 1:
        ctx.fail("C15-B1", site, f"{fn.name}: {len(calls)} call(s) of extract_border_cycle (expected one, in the loop over border vertices)", "")
        return None
    call = calls[0]
    loops = [l for l in H.loop_ancestors(call, stop=fn) if isinstance(l, ast.For)]
    outer = loops[-1] if loops else None
    ok_outer = outer is not None and len(loops) == 1 and isinstance(outer.target, ast.Name) \
        and au.src(outer.iter) == f"{mesh}.boundary_vertices"
    ctx.check(ok_outer, "C15-B1", ctx.site(BORD, fn, call), f"{fn.name}: cycles are not extracted in one loop over mesh.boundary_vertices",
              "every border loop must be reached: each border vertex is a candidate starting point",
              note=f"{fn.name}: candidates = mesh.boundary_vertices")
    if not ok_outer:
        return None
    v = outer.target.id
    args_ok = len(call.args) == 2 and H.is_name(call.args[0], mesh) and H.is_name(call.args[1], v) and not call.keywords
    kw = {k.arg: k.value for k in call.keywords}
    if not args_ok and len(call.args) == 1 and H.is_name(call.args[0], mesh) and H.is_name(kw.get("starting_point"), v):
        args_ok = True
    cond = H.path_condition(call, stop=outer)
    vis = None
    if len(cond) == 1 and isinstance(cond[0][0], ast.Subscript) and isinstance(cond[0][0].value, ast.Name) \
            and H.is_name(cond[0][0].slice, v) and cond[0][1] is False:
        vis = cond[0][0].value.id
    elif len(cond) == 1 and cond[0][1] is True and isinstance(cond[0][0], ast.UnaryOp) and isinstance(cond[0][0].op, ast.Not) \
            and isinstance(cond[0][0].operand, ast.Subscript) and isinstance(cond[0][0].operand.value, ast.Name) \
            and H.is_name(cond[0][0].operand.slice, v):
        vis = cond[0][0].operand.value.id
    ctx.check(args_ok and vis is not None, "C15-B1", ctx.site(BORD, fn, call),
              f"{fn.name}: extract_border_cycle(mesh, v) is not guarded by exactly `not visited[v]` for the loop vertex v",
              "a loop must be extracted once: from its first unvisited vertex, and from no vertex of an already extracted loop",
              note=f"{fn.name}: extraction guarded by not visited[v]")
    if vis is None:
        return None
    st = au.enclosing_stmt(call)
    # result unpacking
    cyc_v = cyc_e = None
    if isinstance(st, ast.Assign) and st.value is call and len(st.targets) == 1:
        t = st.targets[0]
        if isinstance(t, (ast.Tuple, ast.List)) and len(t.elts) == 2 and all(isinstance(x, ast.Name) for x in t.elts):
            cyc_v, cyc_e = t.elts[0].id, t.elts[1].id
    if cyc_v is None:
        ctx.fail("C15-B1", ctx.site(BORD, fn, call), f"{fn.name}: result of extract_border_cycle is not unpacked as (vertices, edges)", "")
        return None
    blk, _ = au.enclosing_block(st)
    # marking loop in the same block
    mark = None
    for s in blk:
        if isinstance(s, ast.For) and H.is_name(s.iter, cyc_v) and isinstance(s.target, ast.Name):
            for s2 in s.body:
                if isinstance(s2, ast.Assign) and len(s2.targets) == 1 and isinstance(s2.targets[0], ast.Subscript) \
                        and H.is_name(s2.targets[0].value, vis) and H.is_name(s2.targets[0].slice, s.target.id) \
                        and au.const(s2.value) is True:
                    mark = s
    after = mark is not None and H.block_pos(mark) > H.block_pos(st)
    ctx.check(mark is not None and after, "C15-B1", ctx.site(BORD, fn, st),
              f"{fn.name}: the vertices of an extracted cycle are not all marked `{vis}[x] = True` in the guarded block",
              "an unmarked vertex of the loop starts the same loop again: cycles are returned more than once",
              note=f"{fn.name}: every vertex of the cycle is marked")
    # visited initialised to False
    inits = [s for s in fn.body if isinstance(s, ast.Assign) and any(H.is_name(t, vis) for t in s.targets)]
    ok_init = False
    if len(inits) == 1:
        val = inits[0].value
        if isinstance(val, ast.Call) and au.call_tail(val) == "Attribute" and val.args and H.is_name(val.args[0], "bool"):
            ok_init = True
        else:
            txt = [n for n in ast.walk(val) if isinstance(n, ast.Constant) and isinstance(n.value, bool)]
            ok_init = bool(txt) and all(n.value is False for n in txt) and f"{mesh}.boundary_vertices" in au.src(val)
    ctx.check(ok_init, "C15-B1", site, f"{fn.name}: `{vis}` is not initialised to False for every border vertex",
              "a vertex that starts out visited is never used as a starting point: its loop is lost",
              note=f"{fn.name}: visited starts all False")
    return {"outer": outer, "block": blk, "stmt": st, "mark": mark, "cyc_v": cyc_v, "cyc_e": cyc_e, "mesh": mesh, "vis": vis}


def b1_boundary(ctx):
    repo = ctx.repo
    fl = H.Floor(ctx, "C15-B1")
    # ---- extract_border_cycle_all
    fn = repo.func(BORD, "extract_border_cycle_all")
    site = ctx.site(BORD, fn)
    info = _cycle_collector(ctx, fn, False)
    if info:
        apps = [c for c in au.calls(fn) if isinstance(c.func, ast.Attribute) and c.func.attr == "append"
                and len(c.args) == 1 and H.is_name(c.args[0], info["cyc_v"])]
        ok = len(apps) == 1 and au.enclosing_stmt(apps[0]) in info["block"] and isinstance(apps[0].func.value, ast.Name)
        rets = [r for r in au.walk(fn) if isinstance(r, ast.Return)]
        ok = ok and len(rets) == 1 and H.is_name(rets[0].value, apps[0].func.value.id) and rets[0] in fn.body
        ctx.check(ok, "C15-B1", site, "extract_border_cycle_all: each extracted cycle is not appended exactly once to the returned list",
                  "the number of cycles returned equals the number of border loops", note="one append per extracted cycle, list returned")
    # ---- extract_boundary_of_surface
    fn = repo.func(BORD, "extract_boundary_of_surface")
    site = ctx.site(BORD, fn)
    info = _cycle_collector(ctx, fn, True)
    if info:
        mesh, mark = info["mesh"], info["mark"]
        if mark is None:
            return
        x = mark.target.id
        # map store: M[x] = off
        mstores = [(s, s.targets[0]) for s in mark.body if isinstance(s, ast.Assign) and len(s.targets) == 1
                   and isinstance(s.targets[0], ast.Subscript) and isinstance(s.targets[0].value, ast.Name)
                   and H.is_name(s.targets[0].slice, x) and isinstance(s.value, ast.Name)
                   and s.targets[0].value.id != info["vis"]]
        # the offset is the name that is incremented inside the vertex loop
        apps = [c for c in au.calls(fn) if isinstance(c.func, ast.Attribute) and c.func.attr == "append"
                and au.src(c.func.value).endswith(".vertices")]
        bound = au.src(apps[0].func.value)[:-len(".vertices")] if apps else None
        # accepted alternative (fresh-index idiom): map[v] = len(bound.vertices) read before the append of that vertex
        fresh = [(s, s.targets[0]) for s in mark.body if isinstance(s, ast.Assign) and len(s.targets) == 1
                 and isinstance(s.targets[0], ast.Subscript) and isinstance(s.targets[0].value, ast.Name)
                 and H.is_name(s.targets[0].slice, x) and bound and au.src(s.value) == f"len({bound}.vertices)"]
        off = None
        if len(fresh) == 1:
            mst, mt = fresh[0]
            mp = mt.value.id
            ok_app = len(apps) == 1 and au.enclosing_stmt(apps[0]) in mark.body and len(apps[0].args) == 1 \
                and au.src(apps[0].args[0]) == f"{mesh}.vertices[{x}]"
            ctx.check(ok_app, "C15-B1", ctx.site(BORD, fn, mark),
                      "extract_boundary_of_surface: not exactly one `bound.vertices.append(mesh.vertices[v])` per visited vertex",
                      "vertex k of the polyline must be the k-th visited border vertex", note="one vertex appended per visited vertex")
            ctx.check(ok_app and H.block_pos(mst) < H.block_pos(au.enclosing_stmt(apps[0])), "C15-B1", ctx.site(BORD, fn, mst),
                      f"extract_boundary_of_surface: `{mp}[v]` reads len(polyline vertices) after the vertex has been appended",
                      "the map would point to the next vertex (off by one)", note="fresh index read before the append")
        else:
            offs = [(s, t, s.value.id) for s, t in mstores if any(H.increments(q, s.value.id) is not None for q in au.stmts(mark.body))]
            if len(offs) != 1:
                ctx.fail("C15-B1", ctx.site(BORD, fn, mark), "extract_boundary_of_surface: store `map[v] = running offset` not found in the vertex loop",
                         "the index map must send each border vertex to its position in the polyline")
                return
            mst, mt, off = offs[0]
            mp = mt.value.id
            incs = [(q, H.increments(q, off)) for q in au.stmts(fn.body) if H.increments(q, off) is not None]
            writes = [q for q in au.stmts(fn.body) if any(off in au.assigned_names(t) for t in au.assign_targets(q))]
            init = [q for q in writes if q in fn.body and isinstance(q, ast.Assign) and au.const(q.value) == 0
                    and q.lineno < info["outer"].lineno]
            apps = [c for c in au.calls(fn) if isinstance(c.func, ast.Attribute) and c.func.attr == "append"
                    and au.src(c.func.value).endswith(".vertices")]
            bound = au.src(apps[0].func.value)[:-len(".vertices")] if apps else None
            ok_inc = len(incs) == 1 and incs[0][1] == 1 and incs[0][0] in mark.body and len(writes) == 2 and len(init) == 1
            ctx.check(ok_inc, "C15-B1", ctx.site(BORD, fn, mark),
                      f"extract_boundary_of_surface: running offset `{off}` is not `0, then += 1 once per visited vertex`",
                      "the offset must equal the number of vertices already appended to the polyline (indices 0..n-1)",
                      note=f"offset {off}: 0 then +1 per vertex")
            ok_app = len(apps) == 1 and au.enclosing_stmt(apps[0]) in mark.body and len(apps[0].args) == 1 \
                and au.src(apps[0].args[0]) == f"{mesh}.vertices[{x}]"
            ctx.check(ok_app, "C15-B1", ctx.site(BORD, fn, mark),
                      "extract_boundary_of_surface: not exactly one `bound.vertices.append(mesh.vertices[v])` per visited vertex",
                      "vertex k of the polyline must be the k-th visited border vertex", note="one vertex appended per visited vertex")
            ok_order = ok_inc and mst in mark.body and H.block_pos(mst) < H.block_pos(incs[0][0])
            ctx.check(ok_order, "C15-B1", ctx.site(BORD, fn, mst),
                      f"extract_boundary_of_surface: `{mp}[v]` reads the offset after it has been advanced",
                      "the map would point to the next vertex (off by one)", note="offset read before increment")
        # polyline starts empty
        bdef = [s for s in fn.body if isinstance(s, ast.Assign) and bound and any(H.is_name(t, bound) for t in s.targets)]
        ctx.check(len(bdef) == 1 and isinstance(bdef[0].value, ast.Call) and not bdef[0].value.args and not bdef[0].value.keywords,
                  "C15-B1", site, "extract_boundary_of_surface: the polyline does not start empty",
                  "offset 0 must be the index of the first appended vertex", note="polyline starts empty")
        # component counter: a name stored per vertex and incremented once per cycle
        cstores = [(s, s.value.id) for s in mark.body if isinstance(s, ast.Assign) and len(s.targets) == 1
                   and isinstance(s.targets[0], ast.Subscript) and isinstance(s.value, ast.Name) and s.value.id != off
                   and any(H.increments(q, s.value.id) is not None for q in au.stmts(fn.body))]
        if len(cstores) != 1:
            ctx.fail("C15-B1", ctx.site(BORD, fn, mark), "extract_boundary_of_surface: component counter store not found in the vertex loop",
                     "vertices of one loop share a component number")
        else:
            cn = cstores[0][1]
            cincs = [(q, H.increments(q, cn)) for q in au.stmts(fn.body) if H.increments(q, cn) is not None]
            cwrites = [q for q in au.stmts(fn.body) if any(cn in au.assigned_names(t) for t in au.assign_targets(q))]
            cinit = [q for q in cwrites if q in fn.body and isinstance(q, ast.Assign) and au.const(q.value) == 0]
            okc = len(cincs) == 1 and cincs[0][1] == 1 and cincs[0][0] in info["block"] and len(cwrites) == 2 and len(cinit) == 1
            ctx.check(okc, "C15-B1", ctx.site(BORD, fn, mark),
                      f"extract_boundary_of_surface: component counter `{cn}` is not advanced by one exactly once per extracted cycle",
                      "the number of components equals the number of border loops; a per-vertex or unconditional step mislabels them",
                      note=f"component counter {cn}: +1 per cycle")
        # edges: gathered from the cycle's edge list, then both endpoints remapped
        gathered = False
        for s in info["block"]:
            if isinstance(s, ast.AugAssign) and isinstance(s.op, ast.Add) and bound and au.src(s.target) == f"{bound}.edges":
                v = s.value
                if isinstance(v, ast.ListComp) and len(v.generators) == 1 and H.is_name(v.generators[0].iter, info["cyc_e"]) \
                        and not v.generators[0].ifs and isinstance(v.generators[0].target, ast.Name) \
                        and au.src(v.elt) == f"{mesh}.edges[{v.generators[0].target.id}]":
                    gathered = True
            for c in au.calls(s) if isinstance(s, ast.Expr) else []:
                if au.call_tail(c) in ("extend",) and bound and au.src(c.func.value) == f"{bound}.edges" and c.args:
                    v = c.args[0]
                    if isinstance(v, (ast.ListComp, ast.GeneratorExp)) and len(v.generators) == 1 and H.is_name(v.generators[0].iter, info["cyc_e"]) \
                            and not v.generators[0].ifs and isinstance(v.generators[0].target, ast.Name) \
                            and au.src(v.elt) == f"{mesh}.edges[{v.generators[0].target.id}]":
                        gathered = True
        ctx.check(gathered, "C15-B1", ctx.site(BORD, fn, info["stmt"]),
                  "extract_boundary_of_surface: the polyline does not receive mesh.edges[e] for every edge e of the extracted cycle",
                  "the border polyline consists of exactly the border edges", note="edges of each cycle gathered")
        remap = None
        for s in fn.body:
            if isinstance(s, ast.For) and isinstance(s.iter, ast.Call) and au.call_tail(s.iter) == "enumerate" and s.iter.args \
                    and bound and au.src(s.iter.args[0]) == f"{bound}.edges" and s.lineno > info["outer"].lineno:
                remap = s
        ok_remap = False
        if remap is not None and isinstance(remap.target, ast.Tuple) and len(remap.target.elts) == 2 \
                and isinstance(remap.target.elts[0], ast.Name) and isinstance(remap.target.elts[1], (ast.Tuple, ast.List)) \
                and len(remap.target.elts[1].elts) == 2 and all(isinstance(q, ast.Name) for q in remap.target.elts[1].elts):
            ei = remap.target.elts[0].id
            a, b = (q.id for q in remap.target.elts[1].elts)
            for s in remap.body:
                if isinstance(s, ast.Assign) and len(s.targets) == 1 and au.src(s.targets[0]) == f"{bound}.edges[{ei}]" and s in remap.body:
                    val = s.value
                    elts = val.args if isinstance(val, ast.Call) and au.call_tail(val) in ("keyify", "tuple", "sorted") else \
                        val.elts if isinstance(val, (ast.Tuple, ast.List)) else []
                    if len(elts) == 1 and isinstance(elts[0], (ast.Tuple, ast.List)):
                        elts = elts[0].elts
                    got = sorted(au.src(q) for q in elts)
                    ok_remap = got == sorted([f"{mp}[{a}]", f"{mp}[{b}]"]) and a != b
        ctx.check(ok_remap, "C15-B1", ctx.site(BORD, fn, remap or fn),
                  f"extract_boundary_of_surface: edges are not rewritten as ({mp}[A], {mp}[B]) for both endpoints after all cycles are collected",
                  "polyline edges must index polyline vertices", note="both endpoints of every edge remapped")
        rets = [r for r in au.walk(fn) if isinstance(r, ast.Return)]
        okr = len(rets) == 1 and isinstance(rets[0].value, ast.Tuple) and len(rets[0].value.elts) == 2 \
            and H.is_name(rets[0].value.elts[0], bound) and H.is_name(rets[0].value.elts[1], mp)
        ctx.check(okr, "C15-B1", site, "extract_boundary_of_surface does not return (polyline, index map)",
                  "callers need the map back to the surface", note="returns (polyline, map)")
    fl.require(16)


# =========================================================================== the walk
def w1_walk(ctx):
    fn = ctx.repo.func(BORD, "extract_border_cycle")
    site = ctx.site(BORD, fn)
    fl = H.Floor(ctx, "C15-W1")
    ps = au.params(fn)
    mesh, start = (ps + [None, None])[:2]
    whiles = [s for s in fn.body if isinstance(s, ast.While)]
    if len(whiles) != 1 or start is None:
        ctx.fail("C15-W1", site, "extract_border_cycle: the `while` walk over (mesh, starting_point) not found", "")
        return
    wl = whiles[0]
    # the step: tuple assignment (prev, cur) = (cur, v) inside a for over vertex_to_vertices(cur)
    step = None
    for s in au.stmts(wl.body):
        if isinstance(s, ast.Assign) and len(s.targets) == 1 and isinstance(s.targets[0], ast.Tuple) and len(s.targets[0].elts) == 2 \
                and all(isinstance(x, ast.Name) for x in s.targets[0].elts) and isinstance(s.value, ast.Tuple) and len(s.value.elts) == 2:
            step = s
    seq = None
    if step is None:
        # sequential form: prev = cur ; cur = v
        for s in au.stmts(wl.body):
            blk, _ = au.enclosing_block(s)
            i = H.block_pos(s)
            if isinstance(s, ast.Assign) and len(s.targets) == 1 and isinstance(s.targets[0], ast.Name) and isinstance(s.value, ast.Name) \
                    and blk and i + 1 < len(blk):
                s2 = blk[i + 1]
                if isinstance(s2, ast.Assign) and len(s2.targets) == 1 and H.is_name(s2.targets[0], s.value.id) \
                        and isinstance(s2.value, ast.Name) and s2.value.id not in (s.value.id, s.targets[0].id):
                    seq = (s, s2)
    if step is None and seq is None:
        ctx.fail("C15-W1", ctx.site(BORD, fn, wl), "extract_border_cycle: step `(previous, current) = (current, next)` not found",
                 "the walk must advance both the previous and the current vertex")
        return
    if step is not None:
        prev, cur = (x.id for x in step.targets[0].elts)
        ok_step = H.is_name(step.value.elts[0], cur) and isinstance(step.value.elts[1], ast.Name) \
            and step.value.elts[1].id not in (prev, cur)
        nxt = step.value.elts[1].id if isinstance(step.value.elts[1], ast.Name) else None
        step_st = step
    else:
        prev, cur, nxt = seq[0].targets[0].id, seq[0].value.id, seq[1].value.id
        ok_step = prev != cur
        step_st = seq[1]
    ctx.check(ok_step, "C15-W1", ctx.site(BORD, fn, step_st),
              "extract_border_cycle: the step is not (previous, current) <- (current, chosen neighbour)",
              "after the step the previous vertex must be the vertex just left, otherwise the walk may turn back",
              note="step advances (previous, current) together")
    loops = [l for l in H.loop_ancestors(step_st, stop=wl) if isinstance(l, ast.For)]
    lp = loops[0] if loops else None
    lit = lp.iter if lp is not None else None
    if isinstance(lit, ast.Call) and au.call_tail(lit) == "reversed" and len(lit.args) == 1:
        lit = lit.args[0]          # scan direction is judged by the orientation obligation below
    elif isinstance(lit, ast.Subscript) and isinstance(lit.slice, ast.Slice) and lit.slice.lower is None and lit.slice.upper is None:
        lit = lit.value
    ok_lp = lp is not None and H.is_name(lp.target, nxt) and isinstance(lit, ast.Call) \
        and au.call_tail(lit) == "vertex_to_vertices" and len(lit.args) == 1 and H.is_name(lit.args[0], cur)
    ctx.check(ok_lp, "C15-W1", ctx.site(BORD, fn, step_st),
              "extract_border_cycle: the next vertex is not chosen among vertex_to_vertices(current)",
              "the walk moves along edges of the mesh", note="candidates = neighbours of the current vertex")
    if not ok_lp:
        return

    # guard of the step
    def atom(x, boolean):
        if isinstance(x, ast.Call) and au.call_tail(x) == "is_vertex_on_border" and len(x.args) == 1 and H.is_name(x.args[0], nxt):
            return H.name("border")
        if isinstance(x, ast.Compare) and len(x.ops) == 1 and isinstance(x.ops[0], (ast.Eq, ast.NotEq)):
            names = {au.src(x.left), au.src(x.comparators[0])}
            if names == {nxt, prev}:
                n = H.name("same_as_previous")
                return n if isinstance(x.ops[0], ast.Eq) else ast.UnaryOp(op=ast.Not(), operand=n)
        return None
    ab = H.Abstractor(atom)
    code = ab.boolean(H.conj([(t, p) for t, p, _ in H.path_condition(step_st, stop=lp)]))
    try:
        wit, n = H.compare(code, "border and not same_as_previous") if not ab.unknown else ({"unrecognised": ab.unknown}, 0)
    except order.Unsupported as ex:
        wit, n = {"unsupported": str(ex)}, 0
    ctx.check(wit is None, "C15-W1", ctx.site(BORD, fn, step_st),
              "extract_border_cycle: a neighbour is chosen under a condition other than `on the border and != previous vertex`",
              f"differs for {H.fmt_env(wit) if isinstance(wit, dict) else wit}: the walk would leave the border or turn back",
              note=f"choice guard: {n} assignments agree")
    # first match wins: a break follows the step in its block
    blk, _ = au.enclosing_block(step_st)
    pos = H.block_pos(step_st)
    ok_brk = blk is not None and any(isinstance(s, ast.Break) for s in blk[pos + 1:])
    ctx.check(ok_brk, "C15-W1", ctx.site(BORD, fn, step_st), "extract_border_cycle: no `break` after the step",
              "after the step `previous` has changed, so later neighbours are tested against the wrong vertex and the walk can turn back",
              note="first admissible neighbour wins (break)")

    # while condition: continue iff current != start (and the safety cap)
    def watom(x, boolean):
        if isinstance(x, ast.Compare) and len(x.ops) == 1 and isinstance(x.ops[0], (ast.Eq, ast.NotEq)) \
                and {au.src(x.left), au.src(x.comparators[0])} == {cur, start}:
            n = H.name("back_at_start")
            return n if isinstance(x.ops[0], ast.Eq) else ast.UnaryOp(op=ast.Not(), operand=n)
        if isinstance(x, ast.Compare) and len(x.ops) == 1 and isinstance(x.ops[0], (ast.Lt, ast.LtE)) and isinstance(x.left, ast.Name) \
                and H.increments_in(wl, x.left.id):
            return H.name("under_cap")
        if isinstance(x, ast.Compare) and len(x.ops) == 1 and isinstance(x.ops[0], (ast.Gt, ast.GtE)) and isinstance(x.comparators[0], ast.Name) \
                and H.increments_in(wl, x.comparators[0].id):
            return H.name("under_cap")          # `cap > counter`
        return None
    ab = H.Abstractor(watom)
    code = ab.boolean(wl.test)
    try:
        wit, n = H.compare(code, "not back_at_start and under_cap") if not ab.unknown else ({"unrecognised": ab.unknown}, 0)
        if wit is not None and not ab.unknown:
            wit, n = H.compare(code, "not back_at_start")
    except order.Unsupported as ex:
        wit, n = {"unsupported": str(ex)}, 0
    ctx.check(wit is None, "C15-W1", ctx.site(BORD, fn, wl), "extract_border_cycle: the walk does not run `while current != starting_point`",
              f"differs for {H.fmt_env(wit) if isinstance(wit, dict) else wit}: the cycle must close exactly at the starting vertex",
              note="walk stops on return to the start")
    # records
    def appends(body, direct=True):
        out = []
        for s in body:
            if isinstance(s, ast.Expr) and isinstance(s.value, ast.Call) and isinstance(s.value.func, ast.Attribute) \
                    and s.value.func.attr == "append" and isinstance(s.value.func.value, ast.Name) and len(s.value.args) == 1:
                out.append((s.value.func.value.id, s.value.args[0], s))
        return out
    rets = [r for r in au.walk(fn) if isinstance(r, ast.Return) and isinstance(r.value, ast.Tuple) and len(r.value.elts) == 2
            and all(isinstance(x, ast.Name) for x in r.value.elts)]
    if len(rets) != 1:
        ctx.fail("C15-W1", site, "extract_border_cycle: `return vertices, edges` not found", "")
        return
    vl, el = (x.id for x in rets[0].value.elts)

    def is_edge(x, a, b):
        return isinstance(x, ast.Call) and au.call_tail(x) == "edge_id" and len(x.args) == 2 and \
            {au.src(x.args[0]), au.src(x.args[1])} == {a, b}
    inloop = appends(wl.body)
    vrec = [a for a in inloop if a[0] == vl]
    erec = [a for a in inloop if a[0] == el]
    lp_top = H.top_stmt_in(wl.body, lp)
    ok_rec = len(vrec) == 1 and len(erec) == 1 and H.is_name(vrec[0][1], cur) and is_edge(erec[0][1], prev, cur) \
        and lp_top is not None and H.block_pos(vrec[0][2]) < H.block_pos(lp_top) and H.block_pos(erec[0][2]) < H.block_pos(lp_top)
    ctx.check(ok_rec, "C15-W1", ctx.site(BORD, fn, wl),
              "extract_border_cycle: a step does not record the current vertex and the edge (previous, current) before moving on",
              "vertex list and edge list must describe the same closed walk", note="each step records vertex and edge")
    after = appends(fn.body[H.block_pos(wl) + 1:])
    ok_close = any(a[0] == el and is_edge(a[1], prev, cur) for a in after)
    ctx.check(ok_close, "C15-W1", site, "extract_border_cycle: closing edge (previous, current) not appended after the walk",
              "the edge list of a loop with n vertices has n edges", note="closing edge appended")
    init = [s for s in fn.body if isinstance(s, ast.Assign) and s.lineno < wl.lineno]
    b = sym.Bindings(fn)
    v0 = b.reaching(vl, wl)
    p0 = b.resolve(ast.Name(id=prev, ctx=ast.Load()), at=wl)
    c0 = b.resolve(ast.Name(id=cur, ctx=ast.Load()), at=wl, keep=(start,))
    ok_init = isinstance(v0, ast.List) and len(v0.elts) == 1 and H.is_name(v0.elts[0], start) and H.is_name(p0, start) \
        and isinstance(c0, ast.Subscript) and isinstance(c0.value, ast.Call) and au.call_tail(c0.value) == "vertex_to_vertices" \
        and len(c0.value.args) == 1 and H.is_name(c0.value.args[0], start)
    ctx.check(ok_init, "C15-W1", site, "extract_border_cycle: the walk does not start as vertices=[start], previous=start, current=a neighbour of start",
              "", note="walk initialised at the starting vertex")
    H.check_walk_orientation(ctx, "C15-W1", BORD, fn)
    H.check_sort_contract(ctx, "C15-W1")
    fl.require(8)


# =========================================================================== corner orders
def k1_corners(ctx):
    fn = ctx.repo.func(FEAT, f"{DET}._flag_corners")
    site = ctx.site(FEAT, fn)
    fl = H.Floor(ctx, "C15-K1")
    mesh = (au.params(fn, skip_self=True) or ["mesh"])[0]
    loops = [s for s in fn.body if isinstance(s, ast.For) and au.is_self_attr(s.iter, "feature_vertices") and isinstance(s.target, ast.Name)]
    if len(loops) != 1:
        ctx.fail("C15-K1", site, "_flag_corners: loop over self.feature_vertices not found", "")
        return
    lp = loops[0]
    v = lp.target.id
    # accumulation: acc += angles[c], c = vertex_to_corner_in_face(v, T), T in vertex_to_faces(v)
    b = sym.Bindings(fn)
    acc = None
    ok_acc = False
    for s in au.stmts(lp.body):
        if isinstance(s, ast.For) and isinstance(s.iter, ast.Call) and au.call_tail(s.iter) == "vertex_to_faces" \
                and len(s.iter.args) == 1 and H.is_name(s.iter.args[0], v) and isinstance(s.target, ast.Name):
            T = s.target.id
            for q in s.body:
                if isinstance(q, ast.AugAssign) and isinstance(q.op, ast.Add) and isinstance(q.target, ast.Name) and q in s.body:
                    val = b.resolve(q.value, at=q, keep=(v, T))
                    if isinstance(val, ast.Subscript) and isinstance(val.slice, ast.Call) and au.call_tail(val.slice) == "vertex_to_corner_in_face" \
                            and [au.src(a) for a in val.slice.args] == [v, T]:
                        angles = b.resolve(val.value, at=q)
                        if isinstance(angles, ast.Call) and au.call_tail(angles) == "corner_angles" and angles.args \
                                and H.is_name(angles.args[0], mesh):
                            acc = q.target.id
                            pos_loop = H.block_pos(s)
                            init = [z for z in lp.body[:pos_loop] if isinstance(z, ast.Assign) and any(H.is_name(t, acc) for t in z.targets)]
                            ok_acc = len(init) >= 1 and au.const(init[-1].value) in (0, 0.0) and s in lp.body
    ctx.check(ok_acc, "C15-K1", ctx.site(FEAT, fn, lp),
              "_flag_corners: the angle of a vertex is not the sum, from 0, of corner_angles[vertex_to_corner_in_face(v, T)] over vertex_to_faces(v)",
              "the corner order derives from the total angle around the feature vertex", note="angle = sum of the corner angles at v")
    if not ok_acc:
        return
    stores = [(s, t, val) for s, t, val in H.subscript_stores(lp.body, lambda x: au.is_self_attr(x, "corners"))]
    main = [(s, t, val) for s, t, val in stores if isinstance(val, ast.Call) and au.call_tail(val) == "round" and val.args]
    if len(main) != 1:
        ctx.fail("C15-K1", ctx.site(FEAT, fn, lp), "_flag_corners: store `self.corners[v] = round(...)` not found", "")
        return
    s, t, val = main[0]
    p = H.poly(val.args[0], env={})
    want = sym.Poly({tuple(sorted((acc, "<self.corner_order>"))): Fraction_of(1 / (2 * math.pi))})
    ok = H.is_name(t.slice, v) and H.approx_eq(p, want, 1e-7)
    ctx.check(ok, "C15-K1", ctx.site(FEAT, fn, s), "_flag_corners: corner order is not round(angle * corner_order / (2*pi))",
              f"an angle of k * 2pi/corner_order must get order k; found `{au.src(val.args[0])}`",
              note="corners[v] = round(angle * corner_order / 2pi)")
    fl.require(2)


def Fraction_of(x):
    from fractions import Fraction
    return Fraction(x).limit_denominator(10 ** 9)


# =========================================================================== geometry caches
def g1_geometry_cache(ctx):
    repo = ctx.repo
    cls = repo.cls(FEAT, DET)
    fns = [st for st in cls.body if isinstance(st, ast.FunctionDef)]
    reused = H.reused_attributes(fns)
    n = 0
    for fn in fns:
        for c in au.calls(fn):
            facts = H.persistent_call_facts(repo, FEAT, c)
            if facts is None:
                continue
            n += 1
            key = (facts["container"], facts["name"])
            clash = facts["persistent"] is not False and (key in reused or facts["name"] is None or facts["container"] is None
                                                           and any(nm == facts["name"] for _, nm in reused))
            ctx.check(not clash, "C15-G1", ctx.site(FEAT, fn, c),
                      f"{fn.name}: `{au.call_tail(c)}` stores its result on the mesh under a name the detector reuses when present",
                      f"{facts['callee']} is called with persistent={facts['persistent']} and creates mesh.{facts['container']}[{facts['name']!r}], which "
                      "the detector reads back through has_attribute/get_attribute on its next run: detect, move the vertices, detect again "
                      "applies the thresholds to the normals / angles of the old geometry",
                      note=f"{fn.name}: {au.call_tail(c)} not persisted under a reused name (persistent={facts['persistent']})")
    if n == 0:
        ctx.fail("C15-G1", ctx.site(FEAT, repo.func(FEAT, f"{DET}.run")), "FeatureEdgeDetector: computation of the face normals / corner angles not found",
                 "no call of a mouette.attributes function with a `persistent` parameter is left in the detector")
