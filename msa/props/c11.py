"""C11 - k-d tree queries are exact and construction always terminates (structural clauses)."""
from __future__ import annotations
import ast
from .. import au, sym, order
from ..core import AnalysisError
from ..rules import c1120_util as U

KD = "spatial.kdtree"
BOX = "geometry.aabb"
GEO = "geometry.geometry"
PQM = "utils.priority_queue"

EXPLANATION = (
    "Static skeleton obligations (R-SKEL) of the k-d tree: the construction work-list has a leaf-finalising path that "
    "does not require size <= max_leaf_size (termination on unsplittable sets), the node table stays indexed by node id "
    "(FIFO work-list, one append per popped element, fresh ids), the two children receive complementary masks of the "
    "same index array and boxes cut at the same axis/value on fresh copies of the parent's corners; in the k-NN query the "
    "child-skipping decision depends on k through assignment-only data dependence and is sound under every ordering, the "
    "candidate heap is a bounded max-heap popped n_found times and reversed; the radius query filters with d <= r and prunes "
    "only boxes with distance > r; the box distance is the clamped component-wise gap. Decides structural necessary "
    "conditions read from the AST only; numerics of distances and ties are not decided.")

RULES = {
    "C11-T1": "the construction work-list has a path that finalises a leaf under a condition other than size <= max_leaf_size, "
              "taken whenever one side of the split is empty (a set of identical points can never be split)",
    "C11-I1": "the node table is indexed by node id: ids are fresh per created leaf, the construction work-list is FIFO, every "
              "popped element appends exactly one entry carrying its own id, children are queued in creation order; is_leaf tests the Leaf class; "
              "queries start from the root id",
    "C11-K1": "the decision to skip a child in `query` depends on k (closure of the names of the guarding tests under assignments only), "
              "the pruning bound is finite only when k candidates are held, and a child whose box is closer than the bound is never skipped",
    "C11-S1": "both children of a visited inner node are considered, each paired with the distance of its own box to the query point; "
              "every point of a visited leaf is examined",
    "C11-P1": "the two children receive extract(mask, idx) and extract(~mask, idx) of the same idx and mask computed on the coordinates of idx "
              "along the split axis; children boxes are the parent's box cut at the same axis / split value, on the matching side; the root holds every point",
    "C11-O1": "leaf test is size <= max_leaf_size; radius filter keeps d <= r and prunes only box distance > r (same r); "
              "the heap is trimmed exactly while n_found > k",
    "C11-H1": "candidates are pushed with priority -distance (max-heap on distance) in lock-step with the counter, trimmed in lock-step, "
              "and the result pops the heap exactly n_found times, reads the payload field and reverses",
    "C11-Q1": "the candidate heap of `query` is the package PriorityQueue, used only through push / pop / get / front / empty; that queue keeps its "
              "list through heapq only (push = heappush of PriorityItem(payload, priority), pop = one heappop, front = data[0]) and orders items by "
              "`priority <` alone (strict, no tie-break on other fields) - C11-H1 relies on the front being the furthest candidate",
    "C11-A1": "every array that receives a subscript store in the constructor is a fresh copy (AABB keeps views of its corners)",
    "C11-D1": "AABB.distance is the norm of max(mini - pt, pt - maxi, 0) and uses the same default metric as the point distance",
}

ASSUMPTIONS = [
    "numpy semantics of np.extract / boolean masks / np.copy / np.maximum as documented",
    "collections.deque: append pushes right, popleft pops left; heapq is a min-heap",
]


# ===================================================================== helpers
class WorkList:
    def __init__(self, loop, q, pop_call, popped):
        self.loop, self.q, self.pop_call, self.popped = loop, q, pop_call, popped

    def pushes(self, node):
        return [c for c in au.calls(node) if isinstance(c.func, ast.Attribute) and isinstance(c.func.value, ast.Name)
                and c.func.value.id == self.q and c.func.attr in ("append", "appendleft", "extend", "extendleft", "insert")]

    def is_fifo(self):
        a = self.pop_call.func.attr
        pop_left = a == "popleft" or (a == "pop" and len(self.pop_call.args) == 1 and au.const(self.pop_call.args[0]) == 0)
        pop_right = a == "pop" and not self.pop_call.args
        sides = set()
        for c in self.pushes(self.loop):
            if c.func.attr in ("append", "extend"):
                sides.add("right")
            elif c.func.attr in ("appendleft", "extendleft"):
                sides.add("left")
            else:
                sides.add("?")
        if pop_left:
            return sides == {"right"}
        if pop_right:
            return sides == {"left"}
        return False


def find_worklist(fn):
    for st in au.stmts(fn.body):
        if not isinstance(st, ast.While):
            continue
        for q in sorted(au.names(st.test)):
            for s in au.stmts(st.body):
                if isinstance(s, ast.Assign) and len(s.targets) == 1 and isinstance(s.targets[0], ast.Name) \
                        and isinstance(s.value, ast.Call) and isinstance(s.value.func, ast.Attribute) \
                        and isinstance(s.value.func.value, ast.Name) and s.value.func.value.id == q \
                        and s.value.func.attr in ("pop", "popleft"):
                    return WorkList(st, q, s.value, s.targets[0].id)
    return None


def pos(node):
    return (getattr(node, "lineno", 0), getattr(node, "col_offset", 0))


def dataclass_fields(cls):
    return [st.target.id for st in cls.body if isinstance(st, ast.AnnAssign) and isinstance(st.target, ast.Name)]


def bind_args(call, names, skip=0):
    """positional/keyword arguments of `call` mapped to parameter names."""
    out = {}
    for i, a in enumerate(call.args):
        if isinstance(a, ast.Starred):
            return out
        if i + skip < len(names):
            out[names[i + skip]] = a
    for kw in call.keywords:
        if kw.arg:
            out[kw.arg] = kw.value
    return out


def is_self_call(call, name):
    return isinstance(call, ast.Call) and isinstance(call.func, ast.Attribute) and au.is_self_attr(call.func, name)


def node_of(b, expr, at, popped):
    """does `expr` resolve to self.nodes[<popped>] ?"""
    e = b.resolve(expr, at=at, keep=(popped,))
    return isinstance(e, ast.Subscript) and au.is_self_attr(e.value, "nodes") and isinstance(e.slice, ast.Name) \
        and e.slice.id == popped


def generic_sym(mapping):
    def f(node):
        s = au.src(node)
        if s in mapping:
            return mapping[s]
        if isinstance(node, (ast.BinOp,)):
            raise order.Unsupported(f"arithmetic `{s}` inside an ordering predicate")
        return s
    return f


def is_inf(e):
    if isinstance(e, ast.Call) and au.call_tail(e) == "float" and len(e.args) == 1 and \
            isinstance(e.args[0], ast.Constant) and str(e.args[0].value).lower().lstrip("+") in ("inf", "infinity"):
        return True
    c = au.chain(e)
    return bool(c) and c[-1] in ("inf", "Inf", "infty", "Infinity", "PINF") and c[0] in ("np", "numpy", "math", "inf")


def grid_witness(code, spec, names, lo=0, hi=5, mode="equiv"):
    """Evaluate the *AST* `code` (comparisons / and / or / not over integer names, + - * and constants) against the python
    predicate `spec(env)` for every integer assignment of `names` in [lo, hi]; leaves that are not integer expressions over
    `names` are free booleans (both values are tried).  mode: 'equiv' | 'code_implies_spec'.  Returns a witness env or None.
    Raises order.Unsupported when a numeric operand cannot be evaluated."""
    import itertools
    free = []

    def num(e, env):
        if isinstance(e, ast.Constant) and isinstance(e.value, (int, float)) and not isinstance(e.value, bool):
            return e.value
        if isinstance(e, ast.Name) and e.id in env:
            return env[e.id]
        if isinstance(e, ast.UnaryOp) and isinstance(e.op, ast.USub):
            return -num(e.operand, env)
        if isinstance(e, ast.BinOp) and isinstance(e.op, (ast.Add, ast.Sub, ast.Mult)):
            a, c = num(e.left, env), num(e.right, env)
            return a + c if isinstance(e.op, ast.Add) else a - c if isinstance(e.op, ast.Sub) else a * c
        raise order.Unsupported(f"`{au.src(e)}` is not an integer expression over {sorted(names)}")

    def collect(e):
        if isinstance(e, ast.BoolOp):
            for v in e.values:
                collect(v)
        elif isinstance(e, ast.UnaryOp) and isinstance(e.op, ast.Not):
            collect(e.operand)
        elif isinstance(e, ast.Compare) and all(type(o) in order.CMP for o in e.ops):
            pass
        elif isinstance(e, ast.Constant) and isinstance(e.value, bool):
            pass
        else:
            k_ = au.src(e)
            if k_ not in free:
                free.append(k_)

    def ev(e, env, fenv):
        if isinstance(e, ast.BoolOp):
            vs = [ev(v, env, fenv) for v in e.values]
            return all(vs) if isinstance(e.op, ast.And) else any(vs)
        if isinstance(e, ast.UnaryOp) and isinstance(e.op, ast.Not):
            return not ev(e.operand, env, fenv)
        if isinstance(e, ast.Compare) and all(type(o) in order.CMP for o in e.ops):
            left = num(e.left, env)
            for o, c in zip(e.ops, e.comparators):
                right = num(c, env)
                if not order.CMP[type(o)](left, right):
                    return False
                left = right
            return True
        if isinstance(e, ast.Constant) and isinstance(e.value, bool):
            return e.value
        return fenv[au.src(e)]
    collect(code)
    names = list(names)
    n_env = 0
    for vals in itertools.product(range(lo, hi + 1), repeat=len(names)):
        env = dict(zip(names, vals))
        for fv in itertools.product((False, True), repeat=len(free)):
            fenv = dict(zip(free, fv))
            a, b_ = ev(code, env, fenv), bool(spec(env))
            n_env += 1
            if (mode == "equiv" and a != b_) or (mode == "code_implies_spec" and a and not b_):
                env = dict(env)
                env.update(fenv)
                return env, n_env
    return None, n_env


# ===================================================================== run
def run(ctx):
    leafmap = new_leaf(ctx)
    split = split_points(ctx)
    root_id = constructor(ctx, leafmap, split)
    is_leaf(ctx)
    knn(ctx, root_id)
    radius(ctx, root_id)
    box_distance(ctx)
    heap_q1(ctx)


# ------------------------------------------------------------ KDTree._new_leaf
def new_leaf(ctx):
    """C11-I1 fresh ids; returns {Leaf field -> index of the _new_leaf parameter that feeds it}."""
    repo = ctx.repo
    fn = repo.func(KD, "KDTree._new_leaf")
    leaf_cls = repo.cls(KD, "KDTree.Leaf")
    site = ctx.site(KD, fn)
    fields = dataclass_fields(leaf_cls)
    params = au.params(fn, skip_self=True)
    ctor = [c for c in au.calls(fn) if au.call_tail(c) == "Leaf"]
    if len(ctor) != 1:
        ctx.fail("C11-I1", site, "construction of a KDTree.Leaf in _new_leaf not found", f"{len(ctor)} Leaf(...) calls")
        return None
    args = bind_args(ctor[0], fields)
    idexpr = args.get("id")
    counter = idexpr.attr if idexpr is not None and au.is_self_attr(idexpr) else None
    incs = []
    for st in au.stmts(fn.body):
        if isinstance(st, ast.AugAssign) and au.is_self_attr(st.target, counter) and isinstance(st.op, ast.Add) \
                and au.const(st.value) == 1:
            incs.append(st)
        elif isinstance(st, ast.Assign) and len(st.targets) == 1 and au.is_self_attr(st.targets[0], counter):
            try:
                p = sym.to_poly(st.value, atom_of=lambda e: "C" if au.is_self_attr(e, counter) else None)
                if p == sym.Poly.atom("C") + 1:
                    incs.append(st)
                else:
                    incs.append(None)
            except Exception:
                incs.append(None)
    ok = counter is not None and len(incs) == 1 and incs[0] is not None and any(incs[0] is s for s in fn.body) \
        and pos(incs[0]) > pos(ctor[0])
    ctx.check(ok, "C11-I1", site,
              "_new_leaf does not give the new leaf the current value of the id counter and then advance the counter by one, unconditionally",
              "node ids must be fresh and consecutive: self.nodes[id] is how every query reaches a node",
              note=f"fresh id from self.{counter}")
    mapping = {}
    for f, a in args.items():
        if isinstance(a, ast.Name) and a.id in params:
            mapping[f] = params.index(a.id)
    ctx.check({"split_axis", "points"} <= set(mapping) and len(set(mapping.values())) == len(mapping), "C11-I1", site,
              f"_new_leaf forwards its parameters to Leaf fields as {sorted(mapping.items())} (split_axis / points not both fed by distinct parameters)",
              "the leaf must record the axis it will be split along and the indices of its points",
              note=f"Leaf fields fed by parameters {sorted(mapping.items())}")
    rets = [st for st in au.stmts(fn.body) if isinstance(st, ast.Return)]
    b = sym.Bindings(fn)
    ok = bool(rets) and all(r.value is not None and b.resolve(r.value, at=r) is not None and
                            au.same(b.resolve(r.value, at=r), ctor[0]) for r in rets)
    ctx.check(ok, "C11-I1", site, "_new_leaf does not return the leaf it created", "the caller queues the returned leaf")
    return {"map": mapping, "counter": counter, "params": params}


# --------------------------------------------------------- KDTree._split_points
def split_points(ctx):
    repo = ctx.repo
    fn = repo.func(KD, "KDTree._split_points")
    site = ctx.site(KD, fn)
    params = au.params(fn, skip_self=True)
    if len(params) < 2:
        ctx.fail("C11-P1", site, "_split_points(idx, axis) signature not found", "")
        return None
    p_idx, p_axis = params[0], params[1]
    rets = [st for st in au.stmts(fn.body) if isinstance(st, ast.Return)]
    if len(rets) != 1 or not isinstance(rets[0].value, ast.Tuple) or len(rets[0].value.elts) != 3:
        ctx.fail("C11-P1", site, "_split_points does not end in a single `return value, part, part`",
                 "the constructor unpacks (split value, low part, high part)")
        return None
    ret = rets[0]

    def single(name, what):
        bs = U.bindings_of(fn, name)
        if len(bs) == 1 and bs[0][2] is None and not isinstance(bs[0][1], ast.AugAssign):
            return bs[0]
        return None

    def part(e):
        """(mask expr, negated?, idx expr) of np.extract(mask, idx) / idx[mask]"""
        if isinstance(e, ast.Name):
            s = single(e.id, "part")
            if s is None:
                return None
            e = s[1]
        m = i = None
        if isinstance(e, ast.Call) and au.call_tail(e) == "extract" and len(e.args) == 2:
            m, i = e.args
        elif isinstance(e, ast.Call) and au.call_tail(e) == "compress" and len(e.args) == 2 and isinstance(e.func, ast.Attribute) \
                and au.chain(e.func) and au.chain(e.func)[0] in ("np", "numpy"):
            m, i = e.args
        elif isinstance(e, ast.Subscript) and isinstance(e.value, ast.Name):
            m, i = e.slice, e.value
        if m is None:
            return None
        neg = False
        while True:
            if isinstance(m, ast.UnaryOp) and isinstance(m.op, ast.Invert):
                m, neg = m.operand, not neg
            elif isinstance(m, ast.Call) and au.call_tail(m) == "logical_not" and len(m.args) == 1:
                m, neg = m.args[0], not neg
            else:
                break
        return m, neg, i

    parts = [part(ret.value.elts[1]), part(ret.value.elts[2])]
    if None in parts:
        ctx.fail("C11-P1", site, "the two returned parts are not np.extract(mask, idx) / idx[mask] selections",
                 "every point of the split leaf must land in exactly one child")
        return None
    (m1, n1, i1), (m2, n2, i2) = parts
    ok = au.same(m1, m2) and n1 != n2 and isinstance(i1, ast.Name) and isinstance(i2, ast.Name) \
        and i1.id == p_idx and i2.id == p_idx and not [x for x in U.bindings_of(fn, p_idx)]
    ctx.check(ok, "C11-P1", site,
              f"the two parts are selected by `{'~' if n1 else ''}{au.src(m1)}` on {au.src(i1)} and `{'~' if n2 else ''}{au.src(m2)}` on {au.src(i2)}: "
              f"not complementary masks of the same index array `{p_idx}`",
              "a point selected by neither mask is lost, a point selected by both is stored in two leaves",
              note="complementary masks of the same index array")
    # the mask itself
    mask = m1
    mask_stmt = None
    if isinstance(mask, ast.Name):
        s = single(mask.id, "mask")
        if s is not None:
            mask_stmt, mask = s[0], s[1]
    cmp_ok = isinstance(mask, ast.Compare) and len(mask.ops) == 1 and isinstance(mask.ops[0], (ast.Lt, ast.LtE, ast.Gt, ast.GtE))
    if not cmp_ok:
        ctx.fail("C11-P1", site, "the partition mask is not a single comparison `coordinates <op> pivot`",
                 f"mask is `{au.src(mask)}`")
        return None
    left, right, op = mask.left, mask.comparators[0], mask.ops[0]

    def is_coords(e):
        if isinstance(e, ast.Name):
            s = single(e.id, "coords")
            if s is None:
                return False
            e = s[1]
        # self.points[idx, axis]  |  self.points[idx][:, axis]
        if isinstance(e, ast.Subscript) and au.is_self_attr(e.value, "points") and isinstance(e.slice, ast.Tuple) \
                and len(e.slice.elts) == 2:
            a, c = e.slice.elts
            return isinstance(a, ast.Name) and a.id == p_idx and isinstance(c, ast.Name) and c.id == p_axis
        if isinstance(e, ast.Subscript) and isinstance(e.value, ast.Subscript) and au.is_self_attr(e.value.value, "points") \
                and isinstance(e.value.slice, ast.Name) and e.value.slice.id == p_idx and isinstance(e.slice, ast.Tuple) \
                and len(e.slice.elts) == 2 and isinstance(e.slice.elts[0], ast.Slice) and isinstance(e.slice.elts[1], ast.Name) \
                and e.slice.elts[1].id == p_axis:
            return True
        return False

    flipped = False
    if is_coords(right) and not is_coords(left):
        left, right, flipped = right, left, True
    ctx.check(is_coords(left) and not au.names(right) & {p_idx}, "C11-P1", site,
              f"the mask `{au.src(mask)}` does not compare self.points[{p_idx}, {p_axis}] (the coordinates of the leaf's own points along the split axis) with the pivot",
              "a mask computed on other rows / another axis is not aligned with the index array it selects from",
              note="mask computed on self.points[idx, axis]")
    lt = isinstance(op, (ast.Lt, ast.LtE)) != flipped       # mask true <=> coordinate below pivot
    pivot = right
    v = ret.value.elts[0]
    later = []
    if isinstance(pivot, ast.Name) and mask_stmt is not None:
        later = [s for s, _, _ in U.bindings_of(fn, pivot.id) if pos(s) > pos(mask_stmt)]
    elif isinstance(pivot, ast.Name):
        later = [s for s, _, _ in U.bindings_of(fn, pivot.id) if pos(s) > pos(au.enclosing_stmt(m1))]
    ctx.check(au.same(v, pivot) and not later, "C11-P1", site,
              f"the returned split value `{au.src(v)}` is not the pivot `{au.src(pivot)}` the mask compares against",
              "the children boxes are cut at the returned value: it must separate the two parts",
              note="returned split value is the compared pivot")
    # part returned at index 1 is the low side iff (mask is `below`) xor negated
    low_index = 1 if (lt != n1) else 2
    return {"low_index": low_index}


# ------------------------------------------------------------ KDTree.__init__
def constructor(ctx, leafmap, split):
    repo = ctx.repo
    fn = repo.func(KD, "KDTree.__init__")
    site = ctx.site(KD, fn)
    b = sym.Bindings(fn)
    W = find_worklist(fn)
    if W is None:
        ctx.fail("C11-T1", site, "construction work-list loop (`while queue: leaf = queue.pop...`) not found", "")
        return None
    loop, popped = W.loop, W.popped
    params = au.params(fn, skip_self=True)
    root_id = None

    # ---------------- leaf test (C11-O1a) and finalising paths (C11-T1)
    tests = [st for st in au.stmts(loop.body) if isinstance(st, ast.If) and "max_leaf_size" in au.names(st.test)]
    if "max_leaf_size" not in params or len(tests) != 1:
        ctx.fail("C11-O1", site, "leaf test on max_leaf_size not found in the construction loop",
                 f"{len(tests)} tests mention max_leaf_size")
        return None
    leaf_if = tests[0]
    try:
        all_paths = U.paths(loop.body)
    except order.Unsupported as ex:
        raise AnalysisError(f"C11: construction loop too branchy for path enumeration ({ex})")

    def finalising(p):
        return not any(c for st in p.stmts for c in W.pushes(st if not isinstance(st, U.LOOPS) else ast.Pass()))

    # a path stores inner-loop headers as stmts: pushes are looked up in simple statements only
    fin = [p for p in all_paths if finalising(p)]
    fin_true = [p for p in all_paths if p.has_guard(leaf_if.test, True)]
    fin_false = [p for p in all_paths if p.has_guard(leaf_if.test, False)]
    if fin_true and all(finalising(p) for p in fin_true):
        leaf_pol = True
    elif fin_false and all(finalising(p) for p in fin_false):
        leaf_pol = False
    else:
        ctx.fail("C11-O1", site, "neither branch of the leaf test finalises the popped leaf on all of its paths", "")
        return None
    # `size <= max_leaf_size or <other reason to stop>`: only the disjuncts on max_leaf_size are the leaf criterion
    crit, extra_disjuncts = leaf_if.test, []
    if leaf_pol and isinstance(leaf_if.test, ast.BoolOp) and isinstance(leaf_if.test.op, ast.Or):
        mine = [v for v in leaf_if.test.values if "max_leaf_size" in au.names(v)]
        extra_disjuncts = [v for v in leaf_if.test.values if "max_leaf_size" not in au.names(v)]
        crit = mine[0] if len(mine) == 1 else ast.BoolOp(op=ast.Or(), values=mine)
    size_forms = {f"{popped}.size": "size", f"len({popped}.points)": "size", f"{popped}.points.size": "size",
                  f"{popped}.points.shape[0]": "size", "max_leaf_size": "max_leaf_size"}
    try:
        wit, n = order.compare(crit, "size <= max_leaf_size", generic_sym(size_forms), negate_code=not leaf_pol)
        extra = set(order.Pred(generic_sym(size_forms)).collect(crit).symbols) - {"size", "max_leaf_size"}
        ctx.check(wit is None and not extra, "C11-O1", ctx.site(KD, fn, leaf_if),
                  f"leaf test `{au.src(crit)}` is not `size <= max_leaf_size`",
                  f"differs from the documented leaf criterion for {wit}" + (f"; unrecognised operands {sorted(extra)}" if extra else ""),
                  note=f"leaf test, {n} orderings")
    except order.Unsupported as ex:
        ctx.fail("C11-O1", ctx.site(KD, fn, leaf_if), "leaf test is not a comparison of the leaf size with max_leaf_size", str(ex))

    other = [p for p in fin if not p.has_guard(leaf_if.test, leaf_pol)]
    ctx.check(bool(other) or bool(extra_disjuncts), "C11-T1", site,
              "the only path of the construction loop that finalises a leaf requires size <= max_leaf_size",
              "more than max_leaf_size identical points can never be separated by a pivot: every split returns the whole set on one side, "
              "the leaf is re-queued for ever (12 identical points with max_leaf_size=10 never return)",
              note=f"{len(other)} finalising path(s) for an oversized leaf" + (f", stop condition `{au.src(extra_disjuncts[0])}`" if extra_disjuncts else ""))

    # ---------------- children (pushed names bound to self._new_leaf(...))
    pushed = []
    for c in sorted(W.pushes(loop), key=pos):
        if len(c.args) == 1 and isinstance(c.args[0], ast.Name):
            pushed.append((c.args[0].id, c))
    children = []       # (name, _new_leaf call, binding stmt, push call)
    for name, pc in pushed:
        bs = [x for x in U.bindings_of(fn, name, within=loop)]
        if len(bs) == 1 and is_self_call(bs[0][1], "_new_leaf"):
            children.append((name, bs[0][1], bs[0][0], pc))
    if len(children) != 2 or len(pushed) != 2 or leafmap is None:
        ctx.fail("C11-P1", site, "the split branch does not queue exactly two children created by self._new_leaf(...)",
                 f"work-list pushes in the loop: {[au.src(c) for _, c in pushed]}")
        return root_id_of(ctx, fn, leafmap, W)
    lparams = leafmap["params"]

    def leaf_arg(call, field):
        idx = leafmap["map"].get(field)
        if idx is None:
            return None
        return bind_args(call, lparams).get(lparams[idx])

    part_names = [leaf_arg(c[1], "points") for c in children]
    # ---------------- C11-P1 parts come from one split of the popped leaf
    split_info = None
    if all(isinstance(p, ast.Name) for p in part_names) and part_names[0].id != part_names[1].id:
        b0 = U.bindings_of(fn, part_names[0].id, within=loop)
        b1 = U.bindings_of(fn, part_names[1].id, within=loop)
        stm0 = {id(s): (s, v, i) for s, v, i in b0}
        stm1 = {id(s): (s, v, i) for s, v, i in b1}
        same_stmts = set(stm0) == set(stm1) and bool(stm0)
        calls_ok, axes, idxs, val_names = True, [], set(), set()
        for k in stm0:
            s, v, i0 = stm0[k]
            i1 = stm1[k][2] if k in stm1 else None
            if not (is_self_call(v, "_split_points") and len(v.args) == 2 and not v.keywords
                    and au.src(v.args[0]) == f"{popped}.points" and isinstance(s, ast.Assign)
                    and isinstance(s.targets[0], ast.Tuple) and len(s.targets[0].elts) == 3
                    and {i0, i1} == {1, 2}):
                calls_ok = False
                continue
            axes.append(v.args[1])
            idxs.add((i0, i1))
            t0 = s.targets[0].elts[0]
            val_names.add(t0.id if isinstance(t0, ast.Name) else au.src(t0))
        ok = same_stmts and calls_ok and len(idxs) == 1 and len(val_names) == 1 and all(au.same(a, axes[0]) for a in axes)
        ctx.check(ok, "C11-P1", site,
                  f"the children's point sets `{part_names[0].id}`, `{part_names[1].id}` are not the two parts of one "
                  f"`value, part, part = self._split_points({popped}.points, axis)`",
                  "the two children must partition the points of the leaf being split",
                  note="children receive the two parts of one split of the popped leaf")
        if ok:
            i0, i1 = next(iter(idxs))
            split_info = {"axis": axes[0], "value": next(iter(val_names)), "pos": {children[0][0]: i0, children[1][0]: i1}}
    else:
        ctx.fail("C11-P1", site, "the children do not receive two distinct point-index arrays", f"{[au.src(p) if p is not None else None for p in part_names]}")

    # ---------------- C11-T1 (second half): the degenerate exit is taken whenever one part is empty
    if other and split_info:
        n0, n1 = part_names[0].id, part_names[1].id
        forms = {}
        for nm, s in ((n0, "a"), (n1, "b")):
            forms.update({f"{nm}.size": s, f"len({nm})": s, f"{nm}.shape[0]": s})
        forms.update(size_forms)
        evaluable, good = 0, 0
        for p in other:
            gs = [(t, pol) for t, pol, kind in p.guards if kind == "if" and t is not leaf_if.test]
            if not gs:
                continue
            e = U.conj(gs)
            try:
                pr = order.Pred(generic_sym(forms)).collect(e)
                if not pr.symbols <= {"a", "b", "size"}:
                    continue
                r = U.relate(e, "a == 0 or b == 0", generic_sym(forms),
                             env_ok=lambda env: env.get("a", 0) >= 0 and env.get("b", 0) >= 0 and env.get("a", 0) + env.get("b", 0) > 0
                             and ("size" not in env or env["size"] == env.get("a", 0) + env.get("b", 0)),
                             extra_symbols=("a", "b"))
            except order.Unsupported:
                continue
            evaluable += 1
            good += r["spec_not_code"] is None
        if evaluable:
            ctx.check(good > 0, "C11-T1", site,
                      "the extra leaf-finalising path is not taken whenever one side of the split is empty",
                      "an empty side means the other child is the leaf itself: it must be finalised, not re-queued "
                      "(identical points loop for ever)", note="degenerate split (one empty side) finalises the leaf")

    # ---------------- C11-I1 node table indexed by id
    n_app_bad, carried_bad = [], []
    node_names = set()
    for p in all_paths:
        apps = [c for c in U.path_calls(p) if au.call_tail(c) == "append" and isinstance(c.func, ast.Attribute)
                and au.is_self_attr(c.func.value, "nodes")]
        in_loops = [c for c in apps if any(isinstance(a, U.LOOPS) and a is not loop for a in au.ancestors(c)
                                           if a is not loop and loop in list(au.ancestors(a)))]
        if len(apps) != 1 or in_loops:
            n_app_bad.append(len(apps))
            continue
        a = apps[0].args[0] if apps[0].args else None
        if isinstance(a, ast.Name) and a.id == popped:
            continue
        okc = False
        if isinstance(a, ast.Name):
            node_names.add(a.id)
            bs = U.bindings_of(fn, a.id, within=loop)
            if len(bs) == 1 and isinstance(bs[0][1], ast.Call) and au.call_tail(bs[0][1]) == "Node":
                nf = dataclass_fields(repo.cls(KD, "KDTree.Node"))
                args = bind_args(bs[0][1], nf)
                okc = "id" in args and au.src(args["id"]) == f"{popped}.id"
        if not okc:
            carried_bad.append(au.src(apps[0]))
    ctx.check(not n_app_bad, "C11-I1", site,
              "some path of the construction loop does not append exactly one entry to self.nodes for the popped element",
              f"self.nodes[i] must be the node with id i; appends per path: {sorted(set(n_app_bad))}",
              note=f"{len(all_paths)} paths, one self.nodes.append each")
    ctx.check(not carried_bad, "C11-I1", site,
              f"an entry appended to self.nodes does not carry the id of the popped element ({sorted(set(carried_bad))})",
              "self.nodes[i] must be the node with id i")
    ctx.check(W.is_fifo(), "C11-I1", site,
              f"the construction work-list is not first-in first-out (`{au.src(W.pop_call)}` with "
              f"{sorted({c.func.attr for c in W.pushes(loop)})})",
              "ids are allotted when a leaf is created and self.nodes is filled in pop order: only a FIFO work-list keeps self.nodes[i].id == i",
              note="FIFO work-list")
    order_created = [c[0] for c in sorted(children, key=lambda c: pos(c[2]))]
    order_pushed = [c[0] for c in sorted(children, key=lambda c: pos(c[3]))]
    same_block = au.enclosing_block(au.enclosing_stmt(children[0][3]))[0] is au.enclosing_block(au.enclosing_stmt(children[1][3]))[0]
    ctx.check(order_created == order_pushed and same_block, "C11-I1", site,
              f"children are created in the order {order_created} but queued in the order {order_pushed}",
              "the child created first has the smaller id and must be popped (hence stored) first")

    # ---------------- C11-S1 the inner node knows both children
    lr = {}
    for st in au.stmts(loop.body):
        if isinstance(st, ast.Assign):
            for t in st.targets:
                pairs = []
                if isinstance(t, (ast.Tuple, ast.List)) and isinstance(st.value, (ast.Tuple, ast.List)) and len(t.elts) == len(st.value.elts):
                    pairs = list(zip(t.elts, st.value.elts))
                else:
                    pairs = [(t, st.value)]
                for tt, vv in pairs:
                    if isinstance(tt, ast.Attribute) and isinstance(tt.value, ast.Name) and tt.value.id in node_names \
                            and tt.attr in ("left", "right"):
                        lr.setdefault(tt.attr, []).append(vv)
    for nn in node_names:
        for s_, v_, _ in U.bindings_of(fn, nn, within=loop):
            if isinstance(v_, ast.Call) and au.call_tail(v_) == "Node":
                for kw in v_.keywords:
                    if kw.arg in ("left", "right"):
                        lr.setdefault(kw.arg, []).append(kw.value)
    vals = {k: [au.src(x) for x in v] for k, v in lr.items()}
    want = {f"{children[0][0]}.id", f"{children[1][0]}.id"}
    ok = set(vals) == {"left", "right"} and all(len(v) == 1 for v in vals.values()) and {vals["left"][0], vals["right"][0]} == want
    ctx.check(ok, "C11-S1", site,
              f"the inner node's left/right are {vals}, not the ids of the two queued children {sorted(want)}",
              "queries reach the points of a split leaf only through node.left / node.right",
              note="node.left / node.right are the two children ids")

    # ---------------- node record: id / axis / value / box of the popped leaf
    if split_info and node_names:
        nn = sorted(node_names)[0]
        bs = U.bindings_of(fn, nn, within=loop)
        nf = dataclass_fields(repo.cls(KD, "KDTree.Node"))
        args = bind_args(bs[0][1], nf) if bs and isinstance(bs[0][1], ast.Call) else {}
        ok = "bb" in args and au.src(args["bb"]) == f"{popped}.bb"
        ctx.check(ok, "C11-P1", site,
                  f"the inner node replacing the split leaf does not keep the leaf's box (bb={au.src(args['bb']) if 'bb' in args else 'missing'})",
                  "queries measure the distance to self.nodes[child].bb for inner nodes too")

    # ---------------- C11-A1 + box cut (C11-P1)
    np_al = U.numpy_aliases(repo.module(KD)) or {"np"}
    stores = []
    for st in au.stmts(fn.body):
        for t in au.assign_targets(st):
            for tt in (t.elts if isinstance(t, (ast.Tuple, ast.List)) else [t]):
                if isinstance(tt, ast.Subscript):
                    stores.append((st, tt))
    n_a1 = 0
    cuts = {}   # array name -> (corner 'mini'|'maxi', index expr, value expr)
    for st, tt in stores:
        base = tt.value
        if isinstance(base, ast.Name):
            n_a1 += 1
            defs = U.bindings_of(fn, base.id)
            is_param = base.id in params and not any(pos(s) < pos(st) and s in fn.body for s, _, _ in defs)
            fresh = bool(defs) and not is_param and all(not isinstance(v, ast.AugAssign) and i is None and U.is_fresh(v, np_al)
                                                        for s, v, i in defs)
            ctx.check(fresh, "C11-A1", ctx.site(KD, fn, st),
                      f"`{base.id}` receives a subscript store but is bound to `{'; '.join(au.src(v) for s, v, i in defs if not isinstance(v, ast.AugAssign)) or 'a parameter'}`, not to a fresh copy",
                      "AABB keeps views of the arrays it is given: writing into the parent's corner moves the box of every node sharing it "
                      "(all ancestors and the sibling), and every later query prunes with wrong boxes",
                      note=f"{base.id} is a fresh copy")
            if fresh and len(defs) == 1 and isinstance(defs[0][1], ast.Call) and isinstance(st, ast.Assign):
                v = defs[0][1]
                src_e = v.args[0] if v.args else (v.func.value if isinstance(v.func, ast.Attribute) else None)
                if au.call_tail(v) == "copy" and isinstance(v.func, ast.Attribute) and not v.args:
                    src_e = v.func.value
                if src_e is not None and au.src(src_e) in (f"{popped}.bb.mini", f"{popped}.bb.maxi"):
                    cuts[base.id] = (au.src(src_e).rsplit(".", 1)[1], tt.slice, st.value, pos(st))
        else:
            c = au.chain(base) or []
            if set(c) & {"bb", "mini", "maxi", "_p1", "_p2"}:
                n_a1 += 1
                ctx.fail("C11-A1", ctx.site(KD, fn, st),
                         f"subscript store into `{au.src(base)}`, a corner array owned by an existing box",
                         "AABB keeps views of the arrays it is given: the parent's box (and every box sharing the corner) is corrupted")
    if n_a1 == 0 and not any("box of child" in u for u in ctx.unsupported):
        ctx.fail("C11-A1", site, "no freshly copied corner array receives the split value in the constructor",
                 "the children boxes must be the parent's box cut at the split value, on copies of its corners")

    if split_info and split is not None:
        for name, call, bst, pc in children:
            low = split_info["pos"][name] == split["low_index"]
            bbs = []        # (stmt, value or None) for every assignment to <child>.bb in the loop
            for st in au.stmts(loop.body):
                if not isinstance(st, ast.Assign):
                    continue
                for t in st.targets:
                    if isinstance(t, (ast.Tuple, ast.List)):
                        paired = isinstance(st.value, (ast.Tuple, ast.List)) and len(st.value.elts) == len(t.elts)
                        for i, e in enumerate(t.elts):
                            if isinstance(e, ast.Attribute) and e.attr == "bb" and isinstance(e.value, ast.Name) and e.value.id == name:
                                bbs.append((st, st.value.elts[i] if paired else None))
                    elif isinstance(t, ast.Attribute) and t.attr == "bb" and isinstance(t.value, ast.Name) and t.value.id == name:
                        bbs.append((st, st.value))
            csite = ctx.site(KD, fn, bbs[0][0] if bbs else bst)
            if len(bbs) != 1:
                ctx.fail("C11-P1", csite, f"box of child `{name}` is not assigned exactly once in the split branch",
                         "queries call self.nodes[child].bb.distance(pt) for every child")
                continue
            if not (isinstance(bbs[0][1], ast.Call) and au.call_tail(bbs[0][1]) == "AABB" and len(bbs[0][1].args) == 2):
                ctx.declare_unsupported(f"C11-P1: box of child `{name}` is built by `{au.src(bbs[0][0])}` (not a literal AABB(lower, upper)): cut not decided")
                continue
            bbs = [ast.Assign(targets=[], value=bbs[0][1], lineno=bbs[0][0].lineno, col_offset=bbs[0][0].col_offset)]
            lo, hi = bbs[0].value.args
            side = "low" if low else "high"
            if low:
                kept, cut, want_corner, kept_src = lo, hi, "maxi", f"{popped}.bb.mini"
            else:
                kept, cut, want_corner, kept_src = hi, lo, "mini", f"{popped}.bb.maxi"
            c = cuts.get(cut.id) if isinstance(cut, ast.Name) else None
            ok = au.src(kept) == kept_src and c is not None and c[0] == want_corner and au.same(c[1], split_info["axis"]) \
                and au.src(c[2]) == split_info["value"] and c[3] < pos(bbs[0])
            ctx.check(ok, "C11-P1", csite,
                      f"box of the {side}-side child `{name}` is AABB({au.src(lo)}, {au.src(hi)}): not the parent's box with its "
                      f"{want_corner} corner moved to the split value along the split axis",
                      "the child's box must contain all of its points and be cut where the points were cut; a wrong box makes both queries prune subtrees that hold answers",
                      note=f"{side} child: parent box with {want_corner}[axis] = split value")
        # the node records the same axis / value
        if node_names:
            nn = sorted(node_names)[0]
            bs = U.bindings_of(fn, nn, within=loop)
            nf = dataclass_fields(repo.cls(KD, "KDTree.Node"))
            args = bind_args(bs[0][1], nf) if bs and isinstance(bs[0][1], ast.Call) else {}
            ok = "split_axis" in args and au.same(args["split_axis"], split_info["axis"]) and \
                ("split_value" not in args or au.src(args["split_value"]) == split_info["value"])
            ctx.check(ok, "C11-P1", site, "the inner node does not record the axis / value its points were split at",
                      f"split along `{au.src(split_info['axis'])}` at `{split_info['value']}`, node built with "
                      f"{ {k: au.src(v) for k, v in args.items()} }")

    # ---------------- axis stays a valid column: (axis + 1) % self.dim
    dim_ok = False
    for st in au.stmts(fn.body):
        if isinstance(st, ast.Assign) and isinstance(st.targets[0], ast.Tuple) and len(st.targets[0].elts) == 2 \
                and isinstance(st.value, ast.Attribute) and st.value.attr == "shape":
            a0, a1 = st.targets[0].elts
            dim_ok = au.is_self_attr(a0, "n_pts") and au.is_self_attr(a1, "dim")
        if isinstance(st, ast.Assign) and au.is_self_attr(st.targets[0], "dim") and isinstance(st.value, ast.Subscript) \
                and isinstance(st.value.value, ast.Attribute) and st.value.value.attr == "shape":
            dim_ok = au.const(st.value.slice) == 1
    for name, call, bst, pc in children:
        ax = leaf_arg(call, "split_axis")
        ok = isinstance(ax, ast.BinOp) and isinstance(ax.op, ast.Mod) and au.src(ax.right) == "self.dim" and dim_ok
        ctx.check(ok, "C11-P1", ctx.site(KD, fn, bst),
                  f"split axis of child `{name}` is `{au.src(ax) if ax is not None else None}`, not reduced modulo self.dim (the number of columns of the points)",
                  "below depth dim the axis would index a column that does not exist",
                  note="child axis reduced modulo self.dim")
    return root_id_of(ctx, fn, leafmap, W)


def root_id_of(ctx, fn, leafmap, W):
    """C11-P1 root holds every point in an all-containing box; returns the constant id of the root."""
    site = ctx.site(KD, fn)
    if leafmap is None:
        return None
    counter = leafmap["counter"]
    lparams = leafmap["params"]
    inits = [st for st in fn.body if isinstance(st, ast.Assign) and au.is_self_attr(st.targets[0], counter)]
    roots = [st for st in fn.body if isinstance(st, ast.Assign) and len(st.targets) == 1 and isinstance(st.targets[0], ast.Name)
             and is_self_call(st.value, "_new_leaf")]
    if len(inits) != 1 or len(roots) != 1 or pos(inits[0]) > pos(roots[0]) or pos(roots[0]) > pos(W.loop):
        ctx.fail("C11-I1", site, "initial id counter / root leaf creation before the construction loop not found", "")
        return None
    root_id = au.const(inits[0].value)
    root = roots[0].targets[0].id
    args = bind_args(roots[0].value, lparams)
    idx = leafmap["map"].get("points")
    pts = args.get(lparams[idx]) if idx is not None else None
    ok = isinstance(pts, ast.Call) and au.call_tail(pts) == "arange" and len(pts.args) == 1 and \
        au.src(pts.args[0]) in ("self.n_pts", "len(points)", "points.shape[0]", "len(self.points)", "self.points.shape[0]")
    ctx.check(ok, "C11-P1", ctx.site(KD, fn, roots[0]),
              f"the root leaf holds `{au.src(pts) if pts is not None else None}`, not np.arange(number of points)",
              "every input point must be stored in exactly one leaf: the root must start with all indices",
              note="root holds arange(n_pts)")
    iax = leafmap["map"].get("split_axis")
    ax = args.get(lparams[iax]) if iax is not None else None
    ctx.check(au.const(ax) == 0, "C11-P1", ctx.site(KD, fn, roots[0]),
              f"root split axis is `{au.src(ax) if ax is not None else None}` (expected the constant 0, valid for every dimension >= 1)", "")
    queued = [c for st in fn.body if pos(st) < pos(W.loop) for c in W.pushes(st)]
    ctx.check(len(queued) == 1 and au.src(queued[0].args[0]) == root, "C11-I1", site,
              "the work-list does not start with exactly the root leaf", "construction must process the root first (id 0 is stored at index 0)")
    boxes = [st for st in fn.body if isinstance(st, ast.Assign) and isinstance(st.targets[0], ast.Attribute)
             and st.targets[0].attr == "bb" and isinstance(st.targets[0].value, ast.Name) and st.targets[0].value.id == root]
    ok = len(boxes) == 1 and isinstance(boxes[0].value, ast.Call) and au.call_name(boxes[0].value) in ("AABB.infinite", "AABB.of_points") \
        and pos(boxes[0]) < pos(W.loop)
    ctx.check(ok, "C11-P1", site, "the root box is not AABB.infinite(dim) / AABB.of_points(points)",
              "the root box must contain every point, the children boxes are cut out of it")
    return root_id


# ---------------------------------------------------------------- is_leaf
def is_leaf(ctx):
    fn = ctx.repo.func(KD, "KDTree.is_leaf")
    site = ctx.site(KD, fn)
    ps = au.params(fn, skip_self=True)
    rets = [st for st in au.stmts(fn.body) if isinstance(st, ast.Return)]
    ok = False
    if len(rets) == 1 and isinstance(rets[0].value, ast.Call) and au.call_tail(rets[0].value) == "isinstance" and len(rets[0].value.args) == 2:
        a, c = rets[0].value.args
        ok = isinstance(a, ast.Subscript) and au.is_self_attr(a.value, "nodes") and ps and au.src(a.slice) == ps[0] \
            and (au.chain(c) or [None])[-1] == "Leaf"
    ctx.check(ok, "C11-I1", site, "is_leaf(i) is not `isinstance(self.nodes[i], KDTree.Leaf)`",
              "both queries branch on it to decide between reading points and descending")


# ---------------------------------------------------------------- query (kNN)
def leaf_branch(fn, W):
    """the If in the loop whose test is self.is_leaf(popped) (possibly negated) -> (If, polarity of the leaf side)"""
    for st in au.stmts(W.loop.body):
        if isinstance(st, ast.If):
            t, pol = U.strip_not(st.test, True)
            if (is_self_call(t, "is_leaf") and len(t.args) == 1 and au.src(t.args[0]) == W.popped) or \
                    (isinstance(t, ast.Call) and au.call_tail(t) == "isinstance" and "Leaf" in au.src(t)):
                return st, pol
    return None, None


def point_distance_atom(idx_name, pt):
    """atom_of for sym.to_poly: distance(self.points[idx], pt) (either argument order, default metric) -> 'D'"""
    def f(e):
        if isinstance(e, ast.Call) and au.call_tail(e) == "distance" and len(e.args) == 2 and not e.keywords:
            srcs = {au.src(a) for a in e.args}
            if srcs == {f"self.points[{idx_name}]", pt}:
                return "D"
        return None
    return f


def knn(ctx, root_id):
    repo = ctx.repo
    fn = repo.func(KD, "KDTree.query")
    site = ctx.site(KD, fn)
    b = sym.Bindings(fn)
    ps = au.params(fn, skip_self=True)
    if len(ps) < 2 or ps[1] != "k":
        ctx.fail("C11-K1", site, "query(pt, k) signature not found", "")
        return
    pt, k = ps[0], ps[1]
    W = find_worklist(fn)
    if W is None:
        ctx.fail("C11-K1", site, "search work-list loop not found in query", "")
        return
    loop, popped = W.loop, W.popped
    lif, lpol = leaf_branch(fn, W)
    if lif is None:
        ctx.fail("C11-S1", site, "leaf / inner-node branch on self.is_leaf(node) not found in query", "")
        return
    leaf_body = lif.body if lpol else lif.orelse
    node_body = lif.orelse if lpol else lif.body
    heaps = [n for n in sorted({x for x in au.names(fn)}) if any(isinstance(v, ast.Call) and au.call_tail(v) == "PriorityQueue"
                                                               for s, v, i in U.bindings_of(fn, n) if not isinstance(v, ast.AugAssign))]
    if len(heaps) != 1:
        ctx.fail("C11-H1", site, "candidate heap (a local PriorityQueue()) not found in query", f"{heaps}")
        return
    H = heaps[0]

    def heap_calls(node, names):
        return [c for c in au.calls(node) if isinstance(c.func, ast.Attribute) and isinstance(c.func.value, ast.Name)
                and c.func.value.id == H and c.func.attr in names]

    # ---------------- C11-H1 push / counter / trim
    pushes = [c for st in leaf_body for c in heap_calls(st, ("push",))]
    stray = [c for c in heap_calls(fn, ("push",)) if not any(c is x for x in pushes)]
    if len(pushes) != 1 or stray:
        ctx.fail("C11-H1", site, "exactly one heap push inside the leaf branch of query not found",
                 f"{len(pushes)} in the leaf branch, {len(stray)} elsewhere")
        return
    push = pushes[0]
    pst = au.enclosing_stmt(push)
    fors = [a for a in au.ancestors(push) if isinstance(a, ast.For) and a is not loop and loop in list(au.ancestors(a))]
    idx = fors[0].target.id if fors and isinstance(fors[0].target, ast.Name) else None
    it_ok = False
    if fors:
        it = fors[0].iter
        it_ok = isinstance(it, ast.Attribute) and it.attr == "points" and node_of(b, it.value, fors[0], popped) \
            and not au.guards(pst, stop=fors[0]) and any(fors[0] is s for s in leaf_body)
    ctx.check(it_ok, "C11-S1", ctx.site(KD, fn, push),
              "the heap push is not made unconditionally for every index of self.nodes[node_id].points of the visited leaf",
              "every point of a visited leaf is a candidate neighbour", note="every point of a visited leaf is offered to the heap")
    pri_ok = False
    if len(push.args) == 2 and idx:
        pr = b.resolve(push.args[1], at=push, keep=(idx, pt))
        try:
            poly = sym.to_poly(pr, atom_of=point_distance_atom(idx, pt))
            pri_ok = poly == -sym.Poly.atom("D") and au.src(push.args[0]) == idx
        except Exception:
            pri_ok = False
    ctx.check(pri_ok, "C11-H1", ctx.site(KD, fn, push),
              f"candidates are not pushed as ({idx}, -distance(self.points[{idx}], {pt})) (found `{au.src(push)}`)",
              "the queue is a min-heap: only the negated distance keeps the *furthest* candidate at the front, which is the one "
              "to drop when more than k are held", note="priority is the negated point distance")
    blk, _ = au.enclosing_block(pst)
    incs = [s for s in (blk or []) if isinstance(s, ast.AugAssign) and isinstance(s.target, ast.Name)
            and isinstance(s.op, ast.Add) and au.const(s.value) == 1]
    if len(incs) != 1:
        ctx.fail("C11-H1", ctx.site(KD, fn, push), "the heap push is not paired with `counter += 1` in the same block",
                 "the number of held candidates drives the trimming and the final read-out")
        return
    n = incs[0].target.id
    zero = [v for s, v, i in U.bindings_of(fn, n) if not isinstance(v, ast.AugAssign)]
    ctx.check(len(zero) == 1 and au.const(zero[0]) == 0 and pos(au.enclosing_stmt(zero[0])) < pos(loop), "C11-H1", site,
              f"the candidate counter `{n}` is not initialised to 0 once before the search loop", "")
    trims = [s for s in au.stmts(leaf_body) if isinstance(s, (ast.While, ast.If)) and s is not lif
             and {n, k} <= au.names(s.test) and heap_calls(s, ("pop", "get"))]
    if len(trims) != 1:
        ctx.fail("C11-O1", site, f"trimming of the candidate heap (`while {n} > {k}: pop`) not found in the leaf branch",
                 "without trimming more than k results are returned")
        return
    trim = trims[0]
    try:
        wit, ne = grid_witness(trim.test, lambda env: env[n] > env[k], (n, k))
        ctx.check(wit is None, "C11-O1", ctx.site(KD, fn, trim), f"heap trimming test `{au.src(trim.test)}` is not `{n} > {k}`",
                  f"differs from `held > k` for {wit}: the query returns a number of points other than min(k, n)",
                  note=f"trim test, {ne} integer assignments")
    except order.Unsupported as ex:
        ctx.fail("C11-O1", ctx.site(KD, fn, trim), f"heap trimming test `{au.src(trim.test)}` is not a comparison of the counter with k", str(ex))
    pops = [s for s in trim.body if isinstance(s, ast.Expr) and heap_calls(s, ("pop", "get"))]
    decs = [s for s in trim.body if isinstance(s, ast.AugAssign) and isinstance(s.target, ast.Name) and s.target.id == n
            and isinstance(s.op, ast.Sub) and au.const(s.value) == 1]
    ctx.check(len(pops) == 1 and len(decs) == 1 and len(heap_calls(trim, ("pop", "get"))) == 1, "C11-H1", ctx.site(KD, fn, trim),
              f"the trimming body does not pop exactly one candidate together with `{n} -= 1`",
              "the counter must equal the number of candidates held by the heap", note="pop paired with counter decrement")
    others = [s for s, v, i in U.bindings_of(fn, n) if isinstance(v, ast.AugAssign) and s is not incs[0] and s not in decs]
    ctx.check(not others and (trim in (blk or []) and pos(trim) > pos(pst)
                              or any(trim is s for s in au.stmts(leaf_body))), "C11-H1", site,
              f"the counter `{n}` is updated elsewhere than with the push / the trimming pop", "")

    # ---------------- C11-H1 result
    item_fields = dataclass_fields(repo.cls(PQM, "PriorityItem"))
    payload = [f for f in item_fields if f != "priority"]
    rets = [st for st in au.stmts(fn.body) if isinstance(st, ast.Return)]
    res_ok, why = False, ""
    if len(rets) == 1 and any(rets[0] is s for s in fn.body) and pos(rets[0]) > pos(loop):
        e = b.resolve(rets[0].value, at=rets[0], keep=(H, n, k))
        rev = False
        for _ in range(3):
            if isinstance(e, ast.Subscript) and isinstance(e.slice, ast.Slice) and e.slice.lower is None and e.slice.upper is None \
                    and au.const(e.slice.step) == -1:
                e, rev = e.value, not rev
            elif isinstance(e, ast.Call) and au.call_tail(e) == "list" and len(e.args) == 1:
                e = e.args[0]
            elif isinstance(e, ast.Call) and au.call_tail(e) == "reversed" and len(e.args) == 1:
                e, rev = e.args[0], not rev
        if isinstance(e, (ast.ListComp, ast.GeneratorExp)) and len(e.generators) == 1 and not e.generators[0].ifs:
            g = e.generators[0]
            elt_ok = isinstance(e.elt, ast.Attribute) and e.elt.attr in payload and isinstance(e.elt.value, ast.Call) \
                and e.elt.value in heap_calls(e.elt, ("pop", "get")) and len(heap_calls(e, ("pop", "get", "push"))) == 1
            rng_ok = isinstance(g.iter, ast.Call) and au.call_tail(g.iter) == "range" and len(g.iter.args) == 1 \
                and au.src(g.iter.args[0]) == n
            res_ok = elt_ok and rng_ok and rev
            why = f"payload read {'ok' if elt_ok else 'wrong'}, count {'ok' if rng_ok else 'wrong'}, reversed {rev}"
    ctx.check(res_ok, "C11-H1", ctx.site(KD, fn, rets[0] if rets else fn),
              f"the result is not `[heap.pop().{payload[0] if payload else 'x'} for _ in range({n})]` reversed",
              "the heap hands out the furthest candidate first: popping all held candidates and reversing gives non-decreasing distances; " + why,
              note="heap popped n_found times, payload read, reversed")

    # ---------------- C11-K1 skip decision depends on k
    wpush = [c for st in node_body for c in W.pushes(st)]
    if not wpush:
        ctx.fail("C11-S1", site, "the inner-node branch of query never queues a child", "")
        return
    deps = U.assign_deps(fn)
    guard_tests = []
    for c in wpush:
        for t, pol in au.guards(c, stop=lif):
            if not any(t is g for g, _ in guard_tests):
                guard_tests.append((t, pol))
    if not guard_tests:
        ctx.ok("C11-K1", site, "children are queued unconditionally (no pruning)")
    else:
        seeds = set().union(*[au.names(t) for t, _ in guard_tests])
        # an assignment executed under a test inside the search loop also carries the names of that test
        # (`if n_found >= k: bound = ...`); heap effects (push/pop on the candidate heap) carry nothing
        # - only for the operands of the skip test themselves, so that `n_found -= 1` under `while n_found > k` does not count
        for name in sorted(seeds):
            for s_, v_, i_ in U.bindings_of(fn, name, within=loop):
                for t_, _p in au.guards(s_, stop=loop):
                    if t_ is not lif.test:
                        deps.setdefault(name, set()).update(au.names(t_))
        clo = U.closure(deps, seeds)
        dep_ok = k in clo
        ctx.check(dep_ok, "C11-K1", ctx.site(KD, fn, guard_tests[0][0]),
                  "the decision to skip a child in query does not depend on k",
                  f"`{' / '.join(au.src(t) for t, _ in guard_tests)}` is computed from {{{', '.join(sorted(clo - {'self', 'float', 'sorted', 'deque', 'PriorityQueue'}))}}} only: "
                  "the bound is the current worst candidate as soon as ONE candidate is held, so a subtree is pruned although fewer than k "
                  "candidates were found (small leaves, k larger than a leaf: fewer than min(k, n) results or not the nearest ones)",
                  note="skip decision data-depends on k")
        if dep_ok:
            knn_bound(ctx, fn, b, guard_tests, deps, H, n, k)

    # ---------------- C11-S1 both children with their own box distance
    cand_loops = [s for s in au.stmts(node_body) if isinstance(s, ast.For) and W.pushes(s)]
    pair_ok, both_ok, detail = False, False, "children enumeration not recognised"
    if len(cand_loops) == 1 and isinstance(cand_loops[0].target, ast.Tuple) and len(cand_loops[0].target.elts) == 2:
        fl = cand_loops[0]
        it = fl.iter
        sorted_used = False
        if isinstance(it, ast.Call) and au.call_tail(it) == "sorted" and len(it.args) == 1 and not it.keywords:
            it, sorted_used = it.args[0], True
        it = b.resolve(it, at=fl, keep=(popped, pt)) if isinstance(it, ast.Name) else it
        if isinstance(it, (ast.List, ast.Tuple)) and all(isinstance(x, ast.Tuple) and len(x.elts) == 2 for x in it.elts):
            kids, pair_ok = set(), True
            for tup in it.elts:
                d, c = tup.elts
                dd = b.resolve(d, at=fl, keep=(popped, pt))
                cc = b.resolve(c, at=fl, keep=(popped,))
                good = isinstance(cc, ast.Attribute) and cc.attr in ("left", "right") and \
                    isinstance(cc.value, ast.Subscript) and au.is_self_attr(cc.value.value, "nodes") and au.src(cc.value.slice) == popped
                want = f"self.nodes[{au.src(cc)}].bb.distance({pt})"
                good = good and au.src(dd) == want
                pair_ok = pair_ok and good
                if good:
                    kids.add(cc.attr)
            both_ok = kids == {"left", "right"} and len(it.elts) == 2
            tnames = [x.id if isinstance(x, ast.Name) else None for x in fl.target.elts]
            pushed_ok = all(len(c.args) == 1 and au.src(c.args[0]) == tnames[1] for c in W.pushes(fl))
            used_as_dist = any(tnames[0] in au.names(t) for t, _ in guard_tests) if guard_tests else True
            pair_ok = pair_ok and pushed_ok and used_as_dist
            detail = f"candidates {au.src(it)}"
    elif not cand_loops:
        # two explicit pushes
        srcs = set()
        for c in wpush:
            if len(c.args) == 1:
                cc = b.resolve(c.args[0], at=c, keep=(popped,))
                srcs.add(au.src(cc))
        both_ok = srcs == {f"self.nodes[{popped}].left", f"self.nodes[{popped}].right"}
        pair_ok = both_ok and not guard_tests
        detail = f"pushes {sorted(srcs)}"
    ctx.check(both_ok, "C11-S1", site, "query does not consider both node.left and node.right of a visited inner node",
              detail, note="both children are candidates")
    ctx.check(pair_ok, "C11-S1", site,
              "in query a child is not paired with the distance of its own box (self.nodes[child].bb.distance(pt))",
              "pruning a child with the sibling's distance skips subtrees that hold nearer points; " + detail,
              note="each child paired with its own box distance")
    start = [c for st in fn.body if pos(st) < pos(loop) for c in W.pushes(st)]
    ctx.check(len(start) == 1 and root_id is not None and au.const(start[0].args[0]) == root_id, "C11-I1", site,
              "the search does not start from the root id", f"root id is {root_id}")


def knn_bound(ctx, fn, b, guard_tests, deps, H, n, k):
    """second half of C11-K1: the bound is finite only when k candidates are held; never skip a closer box."""
    cmp_tests = [(t, pol) for t, pol in guard_tests if isinstance(t, ast.Compare) and len(t.ops) == 1
                 and isinstance(t.left, ast.Name) and isinstance(t.comparators[0], ast.Name)]
    for t, pol in cmp_tests:
        l, r = t.left.id, t.comparators[0].id
        cl, cr = U.closure(deps, {l}), U.closure(deps, {r})
        if (H in cl) == (H in cr):
            continue
        bound, dist = (l, r) if H in cl else (r, l)
        site = ctx.site(KD, fn, t)
        try:
            res = U.relate(t if pol else ast.UnaryOp(op=ast.Not(), operand=t), "bound > dist",
                           generic_sym({bound: "bound", dist: "dist"}))
            ctx.check(res["spec_not_code"] is None, "C11-K1", site,
                      f"a child is skipped although its box is closer than the current worst candidate (`{au.src(t)}`)",
                      f"for {res['spec_not_code']} the child may hold a nearer point and must be visited",
                      note=f"never skips a closer box, {res['n']} orderings")
        except order.Unsupported:
            pass
        for s_, v_, i_ in U.bindings_of(fn, bound, within=au.enclosing_func(t)):
            if i_ is not None or isinstance(v_, ast.AugAssign):
                continue
            conds = [(g, p) for g, p in au.guards(s_) if not isinstance(au.parent(g), ast.While)
                     and not (is_self_call(U.strip_not(g, p)[0], "is_leaf"))]
            finite = v_
            if isinstance(v_, ast.IfExp) and (is_inf(v_.body) != is_inf(v_.orelse)):
                conds = conds + [(v_.test, is_inf(v_.orelse))]
                finite = v_.body if is_inf(v_.orelse) else v_.orelse
            elif is_inf(v_):
                continue
            finite_test = U.conj(conds)
            try:
                wit, ne = grid_witness(finite_test, lambda env: env[n] >= env[k], (n, k), mode="code_implies_spec")
                ctx.check(wit is None, "C11-K1", site,
                          f"the pruning bound is finite under `{au.src(finite_test)}`, which does not imply {n} >= {k}",
                          f"for {wit} fewer than k candidates are held but subtrees are pruned against the worst of them",
                          note=f"finite bound only when k candidates are held, {ne} integer assignments")
            except order.Unsupported:
                pass
            try:
                poly = sym.to_poly(finite, atom_of=lambda x: "F" if au.src(x) == f"{H}.front.priority" else None)
                ctx.check(poly == -sym.Poly.atom("F"), "C11-K1", site,
                          f"the finite pruning bound `{au.src(finite)}` is not the negated priority of the heap front",
                          "priorities are negated distances: the current worst candidate distance is -front.priority",
                          note="bound is -front.priority")
            except Exception:
                pass


# ---------------------------------------------------------------- query_radius
def radius(ctx, root_id):
    repo = ctx.repo
    fn = repo.func(KD, "KDTree.query_radius")
    site = ctx.site(KD, fn)
    b = sym.Bindings(fn)
    ps = au.params(fn, skip_self=True)
    if len(ps) < 2:
        ctx.fail("C11-O1", site, "query_radius(pt, r) signature not found", "")
        return
    pt, r = ps[0], ps[1]
    W = find_worklist(fn)
    if W is None:
        ctx.fail("C11-O1", site, "search work-list loop not found in query_radius", "")
        return
    loop, popped = W.loop, W.popped
    lif, lpol = leaf_branch(fn, W)
    if lif is None:
        ctx.fail("C11-S1", site, "leaf / inner-node branch on self.is_leaf(node) not found in query_radius", "")
        return
    leaf_body = lif.body if lpol else lif.orelse
    node_body = lif.orelse if lpol else lif.body

    def is_box_dist(e):
        return isinstance(e, ast.Call) and isinstance(e.func, ast.Attribute) and e.func.attr == "distance" \
            and isinstance(e.func.value, ast.Attribute) and e.func.value.attr == "bb"

    def is_pt_dist(e):
        return isinstance(e, ast.Call) and au.call_tail(e) == "distance" and len(e.args) >= 2

    def sym_r(node):
        if is_box_dist(node):
            return "dist"
        if is_pt_dist(node):
            return "d"
        if isinstance(node, ast.Name) and node.id == r:
            return "r"
        if isinstance(node, ast.Name):
            e = b.resolve(node, at=node)
            if e is not node and not isinstance(e, ast.Name):
                return sym_r(e)
        if isinstance(node, ast.BinOp):
            raise order.Unsupported(f"arithmetic `{au.src(node)}` in a radius predicate")
        return au.src(node)

    # ---- prune
    prunes = []
    for st in au.stmts(loop.body):
        if isinstance(st, ast.If):
            try:
                pr = order.Pred(sym_r).collect(st.test)
            except order.Unsupported:
                pr = None
            if pr is not None and "dist" in pr.symbols:
                prunes.append(st)
            elif pr is None and any(is_box_dist(x) for x in au.walk(st.test)):
                prunes.append(st)
    if not prunes:
        ctx.ok("C11-O1", site, "query_radius does not prune (every node is visited)")
    for st in prunes:
        psite = ctx.site(KD, fn, st)
        skip_pol = None
        if U._always_leaves(st.body) and not (st.orelse and U._always_leaves(st.orelse)):
            skip_pol = True
        elif st.orelse and U._always_leaves(st.orelse):
            skip_pol = False
        elif not st.orelse and (W.pushes(st) or any(lif is s for s in au.stmts(st.body))):
            skip_pol = False
        if skip_pol is None:
            ctx.fail("C11-O1", psite, "cannot tell which outcome of the box-distance test skips the node", au.src(st.test))
            continue
        code = st.test if skip_pol else ast.UnaryOp(op=ast.Not(), operand=st.test)
        try:
            res = U.relate(code, "dist > r", sym_r)
            syms = order.Pred(sym_r).collect(st.test).symbols
            ctx.check(res["code_not_spec"] is None and syms <= {"dist", "r"}, "C11-O1", psite,
                      f"query_radius skips a node under `{au.src(code)}`, which does not imply box distance > {r}",
                      f"for {res['code_not_spec']} the box may hold a point at distance <= {r} (a point exactly at distance r lying on the box border is lost)"
                      + (f"; operands {sorted(syms)}" if not syms <= {'dist', 'r'} else ""),
                      note=f"prune only when box distance > r, {res['n']} orderings")
        except order.Unsupported as ex:
            ctx.fail("C11-O1", psite, f"prune test `{au.src(st.test)}` is not a comparison of the box distance with {r}", str(ex))
        boxes = [x for x in au.walk(st.test) if is_box_dist(x)]
        okb = all(node_of(b, x.func.value.value, st, popped) and len(x.args) == 1 and au.src(x.args[0]) == pt and not x.keywords
                  for x in boxes) and bool(boxes)
        ctx.check(okb, "C11-S1", psite, f"the pruning distance is not self.nodes[{popped}].bb.distance({pt}) of the popped node",
                  "a node must be judged by its own box")

    # ---- keep filter
    filt = []
    for x in au.walk(ast.Module(body=leaf_body, type_ignores=[])):
        if isinstance(x, ast.Compare) and any(is_pt_dist(y) for y in au.walk(x)):
            filt.append(x)
    if len(filt) != 1:
        ctx.fail("C11-O1", site, f"radius filter (`distance(point, {pt}) <= {r}`) not found in the leaf branch of query_radius",
                 f"{len(filt)} comparisons of a point distance")
        return
    f = filt[0]
    fsite = ctx.site(KD, fn, f)
    # polarity: comprehension-if / enclosing If body
    owner = None
    for a in au.ancestors(f):
        if isinstance(a, ast.comprehension):
            owner = a
            break
        if isinstance(a, ast.If):
            owner = a
            break
        if isinstance(a, ast.stmt):
            break
    test = None
    idx = None
    if isinstance(owner, ast.comprehension) and len(owner.ifs) == 1 and isinstance(owner.target, ast.Name):
        test, idx, it, at = owner.ifs[0], owner.target.id, owner.iter, au.enclosing_stmt(f)
        comp = au.parent(owner)
        collected = isinstance(comp, (ast.ListComp, ast.GeneratorExp, ast.SetComp)) and au.src(comp.elt) == idx
    elif isinstance(owner, ast.If) and not owner.orelse:
        test = owner.test
        fl = [a for a in au.ancestors(owner) if isinstance(a, ast.For)]
        if fl and isinstance(fl[0].target, ast.Name):
            idx, it, at = fl[0].target.id, fl[0].iter, fl[0]
            collected = any(au.call_tail(c) in ("append", "add") and len(c.args) == 1 and au.src(c.args[0]) == idx
                            for c in au.calls(ast.Module(body=owner.body, type_ignores=[])))
    if test is None or idx is None:
        ctx.fail("C11-O1", fsite, "radius filter is neither a comprehension condition nor an `if` around the collection of the index", "")
        return
    try:
        wit, ne = order.compare(test, "d <= r", sym_r)
        syms = order.Pred(sym_r).collect(test).symbols
        ctx.check(wit is None and syms <= {"d", "r"}, "C11-O1", fsite, f"radius filter `{au.src(test)}` is not `distance <= {r}`",
                  f"differs from `d <= r` for {wit}: points at distance exactly r (or beyond) are mis-classified",
                  note=f"radius filter, {ne} orderings")
    except order.Unsupported as ex:
        ctx.fail("C11-O1", fsite, f"radius filter `{au.src(test)}` is not a comparison of the point distance with {r}", str(ex))
    dcalls = [y for y in au.walk(f) if is_pt_dist(y)]
    okd = all({au.src(a) for a in y.args[:2]} == {f"self.points[{idx}]", pt} and len(y.args) == 2 and not y.keywords for y in dcalls)
    ok_it = isinstance(it, ast.Attribute) and it.attr == "points" and node_of(b, it.value, at, popped)
    ctx.check(okd and ok_it and collected, "C11-S1", fsite,
              f"query_radius does not test distance(self.points[i], {pt}) for every i of the visited leaf's points and collect i",
              "every point of a visited leaf must be tested against the ball, and the index tested is the index reported",
              note="every point of a visited leaf is tested")

    # ---- both children queued
    srcs = []
    for st in node_body:
        for c in W.pushes(st):
            if len(c.args) == 1 and not au.guards(c, stop=lif):
                srcs.append(au.src(b.resolve(c.args[0], at=c, keep=(popped,))))
    want = sorted([f"self.nodes[{popped}].left", f"self.nodes[{popped}].right"])
    ctx.check(sorted(srcs) == want, "C11-S1", site,
              f"query_radius queues {srcs} for an inner node instead of both node.left and node.right, unconditionally",
              "a child that is not queued hides all the points of its subtree", note="both children queued")
    start = [c for st in fn.body if pos(st) < pos(loop) for c in W.pushes(st)]
    ctx.check(len(start) == 1 and root_id is not None and au.const(start[0].args[0]) == root_id, "C11-I1", site,
              "the radius search does not start from the root id", f"root id is {root_id}")
    rets = [st for st in au.stmts(fn.body) if isinstance(st, ast.Return)]
    ctx.check(len(rets) == 1 and any(rets[0] is s for s in fn.body) and pos(rets[0]) > pos(loop), "C11-S1", site,
              "query_radius returns before the work-list is exhausted", "an early return drops the unvisited subtrees")


# ---------------------------------------------------------------- AABB.distance
def box_distance(ctx):
    repo = ctx.repo
    fn = repo.func(BOX, "AABB.distance")
    site = ctx.site(BOX, fn)
    b = sym.Bindings(fn)
    ps = au.params(fn, skip_self=True)
    pt = ps[0] if ps else "pt"
    rets = [st for st in au.stmts(fn.body) if isinstance(st, ast.Return)]
    ok, leaves_src = False, []
    if len(rets) == 1 and isinstance(rets[0].value, ast.Call) and au.call_tail(rets[0].value) == "norm" and rets[0].value.args:
        e = rets[0].value.args[0]
        if isinstance(e, ast.Name):
            bs = [v for s, v, i in U.bindings_of(fn, e.id)]
            e = bs[0] if len(bs) == 1 else e
        leaves = []

        def flat(x):
            if isinstance(x, ast.Call) and au.call_tail(x) == "maximum" and len(x.args) == 2 and not x.keywords:
                flat(x.args[0]); flat(x.args[1])
            else:
                leaves.append(x)
        flat(e)
        leaves_src = [au.src(x) for x in leaves]

        def atom(x):
            if au.is_self_attr(x, "mini") or au.is_self_attr(x, "_p1"):
                return "lo"
            if au.is_self_attr(x, "maxi") or au.is_self_attr(x, "_p2"):
                return "hi"
            if isinstance(x, ast.Name) and x.id == pt:
                return "p"
            return None
        try:
            polys = {repr(sym.to_poly(x, atom_of=atom, opaque=False)) for x in leaves}
            want = {repr(sym.Poly.atom("lo") - sym.Poly.atom("p")), repr(sym.Poly.atom("p") - sym.Poly.atom("hi")), repr(sym.Poly())}
            ok = polys == want and len(leaves) == 3
        except sym.NotPoly:
            ok = False
        # metric is forwarded
        call = rets[0].value
        wh = call.args[1] if len(call.args) > 1 else next((kw.value for kw in call.keywords if kw.arg == "which"), None)
        ok = ok and (wh is None or (isinstance(wh, ast.Name) and wh.id in ps))
    ctx.check(ok, "C11-D1", site,
              f"AABB.distance is not norm(max(mini - {pt}, {pt} - maxi, 0)) (operands of the maximum: {leaves_src})",
              "the box distance must be a lower bound of the distance to every point of the box and 0 inside it, otherwise both queries prune wrongly",
              note="clamped component-wise gap")
    # same default metric for point and box distance, and kd-tree calls do not override it
    dfn = repo.resolve_func(KD, "distance")
    if dfn is None or dfn[1] is None:
        ctx.fail("C11-D1", ctx.site(KD, "KDTree.query"), "`distance` used by the k-d tree does not resolve to a package function", "")
        return

    def default_of(f, name):
        a = f.args
        names = [x.arg for x in a.args]
        if name in names:
            i = names.index(name) - (len(names) - len(a.defaults))
            if i >= 0:
                return au.const(a.defaults[i])
        return None
    d1, d2 = default_of(fn, "which"), default_of(dfn[1], "which")
    over = []
    for q in ("KDTree.query", "KDTree.query_radius"):
        for c in au.calls(repo.func(KD, q)):
            if au.call_tail(c) == "distance":
                is_box = isinstance(c.func, ast.Attribute)
                if (len(c.args) > (1 if is_box else 2)) or c.keywords:
                    over.append(au.src(c))
    ctx.check(d1 is not None and d1 == d2 and not over, "C11-D1", site,
              f"point distance and box distance do not use the same metric (defaults {d2!r} / {d1!r}, overridden in {over})",
              "pruning compares a box distance with point distances: they must be measured in the same norm",
              note=f"same default metric {d1!r}")


# ---------------------------------------------------------------- candidate heap (C11-Q1)
QUEUE_API = {"push", "pop", "get", "front", "empty"}


def heap_q1(ctx):
    """the priority-queue obligations C11-H1 / C11-K1 depend on, decided on utils/priority_queue.py (a C11 anchor file)."""
    from . import c20
    repo = ctx.repo
    mod = repo.module(KD)
    fn = repo.func(KD, "KDTree.query")
    site = ctx.site(KD, fn)
    inst = c20.instances(repo, mod, fn, PQM, "PriorityQueue")
    if len(inst) != 1:
        ctx.fail("C11-Q1", site, "the candidate heap of query is not one instance of mouette.utils.PriorityQueue",
                 f"{len(inst)} PriorityQueue() instances resolved to utils/priority_queue.py; the heap discipline of another container is not decided")
        return
    recv = inst[0][0]
    hm, hn = U.module_aliases(mod.tree, "heapq")
    bad = set()
    for n in au.walk(fn):
        if isinstance(n, ast.Attribute) and au.src(n.value) == recv:
            if n.attr == "data":
                v = c20.classify_data_use(n, hm, hn, False)
                if v is not None:
                    bad.add(f"{recv}.data: {v}")
            elif n.attr not in QUEUE_API:
                bad.add(f"{recv}.{n.attr}")
    ctx.check(not bad, "C11-Q1", site, f"query manipulates its candidate heap outside the queue interface ({'; '.join(sorted(bad))})",
              "only push / pop keep the furthest candidate at the front", note=f"{recv} used through push/pop/front only")
    c20.q1_queue(ctx, rule="C11-Q1", with_empty=False)
