"""C11 - k-d tree queries are exact and construction always terminates (structural clauses).

The obligations are decided on the *symbolic paths* of KDTree.__init__ / query / query_radius / AABB.distance (msa/rules/hg_symex.py): private
helpers are executed in line, local names and attribute stores are resolved along each path, loops are taken zero times and once, literal
iterables are unrolled.  A rule reports a violation only for a recognised construct that contradicts it; a shape it cannot read is `undecided`."""
from __future__ import annotations
import ast, traceback
from .. import au
from ..core import AnalysisError
from ..rules import c1120_util as U
from ..rules import hg_kd_build, hg_kd_query, hg_kd_misc

KD = "spatial.kdtree"
BOX = "geometry.aabb"
PQM = "utils.priority_queue"

EXPLANATION = (
    "Static skeleton obligations (R-SKEL) of the k-d tree, decided on symbolic paths of the constructor and of the two queries (helpers of the class "
    "executed in line, names resolved per path): children are queued only under conditions implying that both parts of the split are non-empty "
    "(termination on unsplittable sets), the node table stays indexed by node id (FIFO work-list, one entry per popped element, fresh consecutive ids), "
    "the two children receive complementary mask selections of the popped leaf's index array and boxes cut at the axis / value the points were split at, "
    "on fresh copies of the parent's corners; in the k-NN query the pruning bound is finite only on paths whose conditions imply that k candidates are held "
    "and a child closer than the bound is never skipped, the candidate heap is a max-heap on distance kept in lock-step with its counter, trimmed while "
    "held > k, popped `held` times and reversed; the radius query leaves a node unexplored only when its box distance exceeds r and keeps d <= r; the box "
    "distance is the norm of the clamped component-wise gap. Decides structural necessary conditions read from the AST only; numerics are not decided.")

RULES = {
    "C11-T1": "the construction loop queues the children of a split only under conditions implying that both parts are non-empty (a set of identical "
              "points can never be split: the leaf must be finalised), and never re-queues the popped leaf",
    "C11-I1": "the node table is indexed by node id: ids are fresh and consecutive per created leaf, the construction work-list is FIFO, every "
              "popped element adds exactly one entry carrying its own id, children are queued in creation order; is_leaf tests the Leaf class; "
              "queries start from the root id",
    "C11-K1": "in `query` the pruning bound is finite only on paths whose conditions imply held >= k, it is -front.priority of the candidate heap "
              "(reset for every query), and a child whose box is closer than the bound is never skipped",
    "C11-S1": "both children of a visited inner node can be queued, each judged by the distance of its own box to the query point; "
              "every point of a visited leaf is examined; an inner node records both children",
    "C11-P1": "the two children receive complementary mask selections of the popped leaf's index array, the mask being computed on the coordinates of those "
              "indices along the split axis; children boxes are the parent's box cut at the same axis / split value, on the matching side (or the bounding "
              "box of their own points); the root holds every point in an all-containing box",
    "C11-O1": "a leaf is split only when larger than max_leaf_size; the radius query keeps d <= r and leaves a node unexplored only when box distance > r; "
              "the heap is trimmed exactly while held > k",
    "C11-H1": "candidates are pushed with priority -distance (max-heap on distance) in lock-step with the counter, "
              "and the result pops the heap `held` times (or until empty), reads the payload field and reverses",
    "C11-Q1": "the candidate heap of `query` is the package PriorityQueue, used only through push / pop / get / front / empty; that queue keeps its "
              "list through heapq only (push = heappush of PriorityItem(payload, priority), pop = one heappop, front = data[0]) and orders items by "
              "`priority <` alone (strict, no tie-break on other fields) - C11-H1 relies on the front being the furthest candidate",
    "C11-A1": "every corner array that receives a subscript store in the constructor is a fresh copy (AABB keeps views of its corners)",
    "C11-D1": "AABB.distance is the norm of max(mini - pt, pt - maxi, 0) on every path and uses the same default metric as the point distance",
}

ASSUMPTIONS = [
    "numpy semantics of np.extract / boolean masks / np.copy / np.maximum as documented",
    "collections.deque: append pushes right, popleft pops left; heapq is a min-heap",
    "loops are analysed on their first / an arbitrary single iteration (zero-or-one unrolling of the symbolic paths)",
]


def guarded(ctx, rule, modname, qual, f, *a):
    """an internal failure of the analysis is an undecided obligation, never a violation and never a pass"""
    try:
        return f(ctx, *a)
    except AnalysisError:
        raise
    except Exception as e:          # pragma: no cover
        site = ctx.site(modname, qual)
        ctx.undecided(rule, site, f"the analysis of {qual} failed internally ({type(e).__name__})", traceback.format_exc(limit=3)[-300:])
        return None


def run(ctx):
    repo = ctx.repo
    # public anchors: their disappearance is an analysis error
    for q in ("KDTree.__init__", "KDTree.query", "KDTree.query_radius"):
        repo.func(KD, q)
    repo.func(BOX, "AABB.distance")
    root_id = guarded(ctx, "C11-I1", KD, "KDTree.__init__", hg_kd_build.analyse, None)
    guarded(ctx, "C11-I1", KD, "KDTree.is_leaf", hg_kd_misc.is_leaf)
    guarded(ctx, "C11-K1", KD, "KDTree.query", hg_kd_query.knn, root_id)
    guarded(ctx, "C11-O1", KD, "KDTree.query_radius", hg_kd_query.radius, root_id)
    guarded(ctx, "C11-D1", BOX, "AABB.distance", hg_kd_misc.box_distance)
    guarded(ctx, "C11-Q1", KD, "KDTree.query", heap_q1)


# ---------------------------------------------------------------- candidate heap (C11-Q1)
QUEUE_API = {"push", "pop", "get", "front", "empty"}


def heap_q1(ctx):
    """the priority-queue obligations C11-H1 / C11-K1 depend on, decided on utils/priority_queue.py (a C11 anchor file)."""
    from . import c20
    repo = ctx.repo
    mod = repo.module(KD)
    cls = repo.cls(KD, "KDTree")
    hm, hn = U.module_aliases(mod.tree, "heapq")
    n_inst = 0
    for st in cls.body:
        if not isinstance(st, ast.FunctionDef):
            continue
        for recv, node in c20.instances(repo, mod, st, PQM, "PriorityQueue"):
            n_inst += 1
            bad, odd = set(), set()
            members = {m.name for m in repo.cls(PQM, "PriorityQueue").body if isinstance(m, ast.FunctionDef)}
            scope = [st] if not recv.startswith("self.") else [s for s in cls.body if isinstance(s, ast.FunctionDef)]
            for f in scope:
                for n in au.walk(f):
                    if isinstance(n, ast.Attribute) and au.src(n.value) == recv:
                        if n.attr == "data":
                            v = c20.classify_data_use(n, hm, hn, False)
                            if v is not None:
                                bad.add(f"heap list {v}")
                        elif n.attr not in QUEUE_API and n.attr not in members:
                            odd.add(n.attr)
            if odd and not bad:
                ctx.undecided("C11-Q1", ctx.site(KD, st), f"the k-d tree reads attributes of its candidate heap that PriorityQueue does not define ({sorted(odd)})")
                continue
            ctx.check(not bad, "C11-Q1", ctx.site(KD, st), f"the k-d tree manipulates its candidate heap outside the queue interface ({'; '.join(sorted(bad))})",
                      "only push / pop keep the furthest candidate at the front", note="candidate heap used through push/pop/front only")
    if n_inst == 0:
        ctx.undecided("C11-Q1", ctx.site(KD, "KDTree.query"), "no mouette.utils.PriorityQueue is created by the k-d tree",
                      "the heap discipline of another container is not decided")
    c20.q1_queue(ctx, rule="C11-Q1", with_empty=False)



# ----------------------------------------------------------------------- generic families (msa/rules/generic.py)
_run_specific = run


def run(ctx):
    _run_specific(ctx)
    from ..rules import generic
    generic.apply(ctx, "C11", stale_modules=())


def _generic_rule_texts():
    from ..rules import generic
    return generic.rule_texts("C11", stale=False)


RULES.update(_generic_rule_texts())
