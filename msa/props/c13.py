"""C13 - subdivision refines a mesh without changing its shape or topology (structural clauses).

The rules no longer match the layout of mesh/subdivision.py.  Every subdivision entry point is *evaluated symbolically* on small
template meshes (msa/rules/hb_eval.py: named vertex symbols, symbolic vertex count NV, symbolic positions; helper functions,
comprehensions, closed-form index arithmetic, tables and the container classes are followed through their own syntax trees) and
the obligations are stated on the resulting template mesh: indices handed out name the vertices appended, new vertices sit at
the centre of the edge / face / cell they refine, the new elements tile the old ones with their orientation (chain boundary and
signed area / volume), edge look-ups succeed on meshes whose edge list misses sides, the editing protocol, the sharing of
containers with the input mesh.  Code the evaluator cannot follow gives `undecided`, never a violation."""
from __future__ import annotations
import ast
from collections import Counter
from fractions import Fraction
from .. import au
from ..rules import rows
from ..rules import hb_eval as E, hb_mesh as M
from ..rules.hb_eval import Unknown, Raised, Obj, Opaque, SList

SUB = "mesh.subdivision"
SUBM = "mouette.mesh.subdivision"

EXPLANATION = (
    "Bounded symbolic evaluation of every entry point of mesh/subdivision.py on template meshes (named vertex symbols, symbolic "
    "vertex count and positions; no code of the package is imported or run): fresh indices name the vertices appended; each new "
    "vertex is the centre of the edge / face / cell it refines; the new faces (cells) have the refined oriented boundary of the "
    "ones they replace and the same signed area (volume); declared edges are sides of the result, low index first, once; edge "
    "look-ups succeed when earlier steps added faces without their edges; editor protocol (wrap on enter, re-instantiate with the "
    "class's dimension on exit, connectivity cleared after an in-place edit); all-or-nothing sharing of containers with the input "
    "mesh; index rows are used through sequence-agnostic operations only (R-ROW). Structural necessary conditions on templates.")

RULES = {
    "C13-R1": "index rows are used only through sequence-agnostic operations in subdivision.py (R-ROW)",
    "C13-I1": "an index handed out for a new vertex is the index under which that vertex is appended (evaluated on the template mesh)",
    "C13-B1": "a new vertex is the mean of the vertices of the edge / face / cell it refines, original vertices stay in place",
    "C13-T1": "the new elements have the refined oriented boundary and the signed area / volume of the element they replace; new edges are sides "
              "of the new faces, low index first, once",
    "C13-E1": "__enter__ wraps the mesh as raw data and returns the editor, __exit__ re-instantiates the edited data with the class's dimension; "
              "triangle-only code runs after triangulate(); triangulate() leaves only triangles; in-place edits of a polyline clear its connectivity",
    "C13-D1": "arity dispatch: triangles are left alone, quads are split along a diagonal, larger faces are fanned; the tetrahedral operations leave "
              "non-tetrahedra / non-triangles untouched and replace every adjacent cell by three distinct tetrahedra; the vertex degree that detects "
              "double border triangles counts both endpoints of every edge",
    "C13-H1": "the editing block must not mutate containers shared with the input mesh nor share only some of them, and a wrapper returns the "
              "re-instantiated mesh, not the stale input",
    "C13-H2": "re-preparing the edited data on exit adds the sides of the new faces as edges and flags no generated edge as hard (shared with C02-H1); "
              "a refinement that rebuilds its data flags no generated edge as hard: only halves of edges that were hard in the input may be hard",
    "C13-S1": "a method that looks up the midpoint of every side of every face must find it also when earlier operations of the block (quad "
              "diagonals, a previous refinement) added faces without their edges",
}

KIND_RULE = {"index": "C13-I1", "position": "C13-B1", "tiling": "C13-T1", "arity": "C13-D1", "edges": "C13-T1"}


def run(ctx):
    rows.selfcheck()
    rows.check_module(ctx, "C13-R1", SUB, min_uses=4)
    split_edge_rule(ctx)
    surface_ops(ctx)
    surface_refinements(ctx)
    editor_protocol(ctx)
    wrapper_rule(ctx)
    volume_ops(ctx)
    block_end_to_end(ctx)
    from .c02 import hard_edges_rule
    hard_edges_rule(ctx, "C13-H2")


# ------------------------------------------------------------------------------------------------ harness
def anchor(ctx, cls, meth):
    """(function node, site) of a method of a public class of subdivision.py, wherever along its base classes it is defined"""
    from ..core import AnalysisError
    repo = ctx.repo
    mod = repo.module(SUB)
    c = repo.cls(SUB, cls)
    ms = repo.methods(mod, c)
    if meth not in ms:
        raise AnalysisError(f"anchor method {cls}.{meth} not found (public entry point of the subdivision module)")
    m, fn, owner = ms[meth]
    # the site names the public class (stable when the method moves to a private base class), the line is the real one
    return fn, ctx.site(SUB, f"{cls}.{meth}", fn)


def explore(ctx, rule, site, label, setup, both_orders=True):
    """outcomes of `setup(dec, reverse)` under both relative orders of the vertex symbols; None (after `undecided`) when the code
    leaves the modelled subset"""
    def attempt():
        outs = []
        for rev in ((False, True) if both_orders else (False,)):
            outs += E.explore(lambda dec, _r=rev: setup(dec, _r))
        return outs
    try:
        outs = attempt()
        if any(o.unknown is not None and "symbolic" in str(o.unknown) for o in outs) and not _MODE["concrete"]:
            # the code walks over the whole vertex range (e.g. it prepares the data): same template with small integer vertex indices
            _MODE["concrete"] = True
            try:
                outs2 = attempt()
            finally:
                _MODE["concrete"] = False
            if sum(o.unknown is not None for o in outs2) < sum(o.unknown is not None for o in outs):
                outs = outs2
    except Unknown as u:
        ctx.undecided(rule, site, f"{label}: cannot be evaluated on the template mesh", str(u)[:300])
        return None
    except M.AnalysisMissing as u:
        ctx.undecided(rule, site, f"{label}: method {u} not found", "")
        return None
    except RecursionError:
        ctx.undecided(rule, site, f"{label}: cannot be evaluated on the template mesh", "recursion limit")
        return None
    return outs


def report(ctx, site, problems, ok_rules, note, outs=(), label=""):
    """problems -> findings (one per rule and construct).  Without problem: the rules are discharged, unless some path of the
    evaluation left the modelled subset (then they are undecided)."""
    hit = set()
    for p in problems:
        r = KIND_RULE.get(p.kind, p.kind)
        hit.add(r)
        ctx.fail(r, site, p.construct, p.what)
    for o in outs:
        for what, node in (getattr(o.ev, "suspects", []) if "C13-B1" in ok_rules else []):
            if what.startswith("in-place") and o.unknown is None:
                hit.add("C13-B1")
                ctx.fail("C13-B1", site, f"{label or note}: `{au.src(node)}`: {what}",
                         "the vertex positions are numpy arrays: `+=` / `/=` on a name bound to a stored position moves the original vertex (and the "
                         "new vertex is the same array object): all original vertices must stay in place")
    unk = [o.unknown for o in outs if o.unknown is not None]
    for r in ok_rules:
        if r in hit:
            continue
        if unk:
            if not hit:
                ctx.undecided(r, site, f"{label or note}: cannot be evaluated on the template mesh", str(unk[0])[:300])
        else:
            ctx.ok(r, site, note)


def raised_problem(label, r):
    """classify an exception raised by the evaluated operation on a valid template"""
    v = r.value
    s = repr(v)
    if isinstance(v, tuple) and v and v[0] == "KeyError":
        return "C13-S1", f"{label}: the midpoint of a face side is looked up in a table built from an edge list that misses that side", \
            f"KeyError on key {v[1]}: faces added by a quad split / a previous refinement step have sides that are not edges yet; " \
            f"the edges must be completed before every edge is cut"
    if "unpacking" in s:
        return "C13-E1", f"{label}: faces are unpacked into a fixed number of vertices without a dominating triangulate()", \
            f"{v}: every subdivision accepts the meshes its documentation admits; non-triangular faces are triangulated first"
    if "IndexError" in s:
        return "C13-I1", f"{label}: an index handed out for a new element is used before / without the element being stored", s
    return None, f"{label}: raises on the template mesh", s


CLASS_OF = {"SurfaceSubdivision": ("mouette.mesh.datatypes.surface", "SurfaceMesh"), "VolumeSubdivision": ("mouette.mesh.datatypes.volume", "VolumeMesh")}


def input_mesh(w, cls, Ed, F, C=(), corners=True, n_vertices=None):
    """an already built mesh object (class not analysed here): the containers, face corners filled, an opaque connectivity"""
    mod, cname = CLASS_OF[cls]
    mesh = Obj(w.cls(mod, cname), {"__opaque__": True, "__closed__": True})
    mesh.fields["vertices"] = w.container("vertices", symbolic_vertices=True) if n_vertices is None else \
        w.container("vertices", [w.pos(i) for i in range(n_vertices)])
    mesh.fields["edges"] = w.container("edges", list(Ed))
    w.attribute(mesh.fields["edges"], "hard_edges", {}, typ="bool")
    mesh.fields["faces"] = w.container("faces", list(F))
    el = [v for f in F for v in f] if corners else []
    ad = [i for i, f in enumerate(F) for _ in f] if corners else []
    mesh.fields["face_corners"] = w.corners("face_corners", el, ad)
    if cname == "VolumeMesh":
        mesh.fields["cells"] = w.container("cells", list(C))
        mesh.fields["cell_corners"] = w.corners("cell_corners", [v for c in C for v in c], [i for i, c in enumerate(C) for _ in c])
        fkey = [frozenset(f) for f in F]
        cf = [(fkey.index(frozenset(c[i] for i in t)), ci) for ci, c in enumerate(C) if len(c) == 4 for t in TET_FACES
              if frozenset(c[i] for i in t) in fkey]
        mesh.fields["cell_faces"] = w.corners("cell_faces", [x[0] for x in cf], [x[1] for x in cf])
    mesh.fields["connectivity"] = w.stub_object("_Connectivity", mesh=mesh)
    return mesh


def sorted_pair(w, a, b):
    return (a, b) if w.ev.nums.sign(w.ev.arith(ast.Sub(), b, a)) == 1 else (b, a)


_MODE = {"concrete": False}


def world(ctx, dec, rev, build, hooks=None):
    """(Ev, thunk) for hb_eval.explore: the template is built and the operation evaluated inside the thunk"""
    w = M.World(ctx.repo, dec, hooks={**M.attr_hooks(), **(hooks or {})}, reverse=rev)
    w.concrete = _MODE["concrete"]
    return w.ev, (lambda: build(w))


def open_editor(w, faces, vertex_names, cls="SurfaceSubdivision", edges="complete", cells=(), enter=True):
    """an editor of class `cls` opened (constructor + __enter__, both evaluated) on an already built template mesh"""
    names = {}
    concrete = getattr(w, "concrete", False)
    order = list(vertex_names)[::-1] if (concrete and w.reverse) else list(vertex_names)
    for i, n in enumerate(order):
        # symbolic vertex indices by default; small integers when the code loops over the whole vertex range
        names[n] = i if concrete else w.v(n)
    w.n_old = len(order) if concrete else None
    F = [tuple(names[c] for c in f) for f in faces]
    C = [tuple(names[c] for c in f) for f in cells]
    Ed = []
    if edges == "complete":
        seen = set()
        for f in F:
            for a, b in M.directed_edges(f):
                if frozenset((a, b)) not in seen:
                    seen.add(frozenset((a, b)))
                    Ed.append(sorted_pair(w, a, b))
    else:
        Ed = [sorted_pair(w, names[e[0]], names[e[1]]) for e in edges]
    mesh = input_mesh(w, cls, Ed, F, C, n_vertices=w.n_old)
    w.names, w.F, w.Ed, w.C, w.input = names, F, Ed, C, mesh
    w.editor = w.ev.call(w.cls(SUBM, cls), [mesh], {})
    if not isinstance(w.editor, Obj):
        raise Unknown(f"{cls}(mesh) does not build an editor object")
    if enter:
        w.ev.call(w.method(w.editor, "__enter__"), [], {})
    return w


def edited(w):
    m = w.editor.fields.get("mesh")
    if not isinstance(m, Obj) or not all(k in m.fields for k in ("vertices", "faces", "edges")):
        raise Unknown("editor.mesh is not the raw mesh data of the template")
    return m


# ------------------------------------------------------------------------------------------------ split_edge
def split_edge_rule(ctx):
    fn = ctx.repo.func(SUB, "split_edge")
    site = ctx.site(SUB, fn)
    label = "split_edge"

    def setup(dec, rev):
        log = []

        def build(w):
            A, B, C = w.v("A", "B", "C")
            pl = Obj(w.cls("mouette.mesh.datatypes.linear", "PolyLine"), {"__opaque__": True})
            pl.fields["vertices"] = w.container("vertices", symbolic_vertices=True)
            pl.fields["edges"] = w.container("edges", [sorted_pair(w, A, B), sorted_pair(w, B, C)])
            conn = pl.fields["connectivity"] = w.stub_object("_Connectivity", mesh=pl)
            f = w.ev.lookup("split_edge", E.Frame(SUBM))
            r = w.ev.call(f, [pl, 0], {})
            return w, pl, r, log, (A, B, C), conn
        return world(ctx, dec, rev, build, {("method", "_Connectivity", "clear"): lambda ev, o, a, k: log.append("clear")})
    outs = explore(ctx, "C13-E1", site, label, setup)
    if outs is None:
        return
    probs = []
    cleared = True
    for o in outs:
        if o.unknown is not None:
            continue
        if o.raised is not None:
            rule, c, wh = raised_problem(label, o.raised)
            if rule is None:
                o.unknown = Unknown(c + ": " + wh)
            else:
                probs.append(M.Problem(rule, c, wh))
            continue
        w, pl, r, log, (A, B, C), conn = o.value
        ev = w.ev
        V = w.data(pl.fields["vertices"])
        Ed = [tuple(e) for e in w.data(pl.fields["edges"])]
        if "clear" not in log:
            # a path that edits the polyline without clearing its connectivity.  A connectivity object that was replaced, or any call
            # on the polyline / its connectivity that is not followed here (it may reset the caches), leaves the question open.
            conn0 = [x for x in ev.log if x[0] == "opaque-call" and x[1].cls.name in ("_Connectivity", "PolyLine")]
            if pl.fields.get("connectivity") is not conn or conn0:
                if conn0:
                    o.unknown = Unknown(f"split_edge calls {conn0[0][2]}() on the polyline / its connectivity: may or may not reset the cached tables")
            else:
                cleared = False
        if len(V.items) != 1:
            probs.append(M.Problem("index", f"{label}: {len(V.items)} vertices are appended instead of one", ""))
            continue
        mid = M.affine(ev, V.items[0])
        if mid != {w.pos(A).name: Fraction(1, 2), w.pos(B).name: Fraction(1, 2)}:
            probs.append(M.Problem("position", f"{label}: the new vertex is not the midpoint of the split edge", f"it is placed at {V.items[0]}"))
        new = ev.nums.norm(V.base)
        want = Counter([frozenset((A, new)), frozenset((B, new)), frozenset((B, C))])
        got = Counter(frozenset(e) for e in Ed)
        idx = [x for e in Ed for x in e if M.classify_index(w, V, x)[0] == "bad"]
        if idx:
            probs.append(M.Problem("index", f"{label}: an edge refers to a vertex index that holds no vertex",
                                   f"edges {Ed}; the new vertex has index {new}, found {idx[0]}"))
        elif got != want:
            probs.append(M.Problem("tiling", f"{label}: the two halves of the split edge are not (A,new) and (new,B)",
                                   f"edges after splitting (A,B) of the polyline A-B-C: {[M.fmt_face(e) for e in Ed]}"))
        elif frozenset(Ed[0]) != frozenset((A, new)) and frozenset(Ed[0]) != frozenset((B, new)) or len(Ed) != 3:
            probs.append(M.Problem("tiling", f"{label}: the split edge is not replaced in place by one half, the other half appended", f"{Ed}"))
        for e in Ed:
            if len(e) == 2 and ev.nums.sign(ev.arith(ast.Sub(), e[1], e[0])) != 1:
                probs.append(M.Problem("edges", f"{label}: an edge is stored without its low index first", f"edge {M.fmt_face(e)}"))
        if r is not pl and r is not None:
            pass
    if not cleared:
        probs.append(M.Problem("C13-E1", "split_edge does not clear the connectivity after its in-place edit",
                               "the polyline is edited in place; on some path no `connectivity.clear()` runs, so cached adjacency / edge "
                               "tables (whichever were already computed) would describe the unsplit polyline"))
    report(ctx, site, probs, ["C13-I1", "C13-B1", "C13-T1", "C13-E1"], "split_edge on the template polyline A-B-C", outs, label)


# ------------------------------------------------------------------------------------------------ in-place surface operations
def _collect(label, outs, check):
    """apply `check(value) -> [Problem]` to every decided path; exceptions raised by the operation are classified"""
    probs = []
    for o in outs:
        if o.unknown is not None:
            continue
        if o.raised is not None:
            rule, c, wh = raised_problem(label, o.raised)
            if rule is None:
                o.unknown = Unknown(c + ": " + wh)
            else:
                probs.append(M.Problem(rule, c, wh))
            continue
        try:
            probs += check(o.value)
        except Unknown as u:
            o.unknown = u
    # one finding per construct
    seen, out = set(), []
    for p in probs:
        if (p.kind, p.construct) not in seen:
            seen.add((p.kind, p.construct))
            out.append(p)
    return out


POLY = {3: "ABC", 4: "ABCD", 5: "ABCDE", 6: "ABCDEF", 7: "ABCDEFG"}
ORDER = "DXAFBGEC"          # creation order of the vertex symbols (= relative order of the indices): not the order along the faces


def surface_ops(ctx):
    repo = ctx.repo
    # ---- triangulate_face on faces of 3..7 sides (next to a triangle sharing side A-B)
    fn, site = anchor(ctx, "SurfaceSubdivision", "triangulate_face")
    allp, allouts = [], []
    for n in (3, 4, 5, 6, 7):
        label = f"triangulate_face on a face with {n} sides"

        def setup(dec, rev, n=n):
            def build(w):
                open_editor(w, [POLY[n], "BAX"], ORDER)
                w.ev.call(w.method(w.editor, "triangulate_face"), [0], {})
                return w
            return world(ctx, dec, rev, build)
        outs = explore(ctx, "C13-D1", site, label, setup)
        if outs is None:
            return

        def check(w, n=n, label=label):
            raw = edited(w)
            F = [tuple(f) for f in w.data(raw.fields["faces"])]
            old = w.F[0]
            if n == 3:
                if F != [tuple(x) for x in w.F] or M.vertex_table(w, raw).items:
                    return [M.Problem("arity", "triangulate_face modifies a face that is already a triangle", f"faces become {[M.fmt_face(f) for f in F]}")]
                return []
            rest = [f for f in F if f != tuple(w.F[1])]
            if any(len(f) != 3 for f in rest):
                return [M.Problem("arity", f"triangulate_face leaves a face with {n} sides untriangulated" if len(rest) == 1 and rest[0] == tuple(old)
                                  else f"triangulate_face turns a face with {n} sides into faces that are not all triangles",
                                  f"result {[M.fmt_face(f) for f in rest]}: every non-triangular face must be triangulated")]
            ps = M.check_surface(w, w.F, raw, label, centres_of=[old] if n > 4 else [], midpoints=False, edges_old={frozenset(e) for e in w.Ed})
            if n == 4 and M.vertex_table(w, raw).items:
                ps.append(M.Problem("arity", "triangulate_face adds a vertex to split a quad instead of cutting it along a diagonal", ""))
            return ps
        allp += _collect(label, outs, check)
        allouts += outs
    report(ctx, site, allp, ["C13-D1", "C13-T1", "C13-I1", "C13-B1"], "triangulate_face on faces with 3..7 sides", allouts, "triangulate_face")
    # ---- split_face_as_fan
    fn, site = anchor(ctx, "SurfaceSubdivision", "split_face_as_fan")
    allp, allouts = [], []
    for n in (3, 4, 5, 6):
        label = f"split_face_as_fan on a face with {n} sides"

        def setup(dec, rev, n=n):
            def build(w):
                open_editor(w, [POLY[n], "BAX"], ORDER)
                w.ev.call(w.method(w.editor, "split_face_as_fan"), [0], {})
                return w
            return world(ctx, dec, rev, build)
        outs = explore(ctx, "C13-T1", site, label, setup)
        if outs is None:
            return

        def check(w, n=n, label=label):
            raw = edited(w)
            ps = M.check_surface(w, w.F, raw, label, centres_of=[w.F[0]], midpoints=False, expect_arity=3, expect_count=n + 1,
                                 edges_old={frozenset(e) for e in w.Ed})
            V = M.vertex_table(w, raw)
            if not ps and len(V.items) != 1:
                ps.append(M.Problem("index", f"split_face_as_fan appends {len(V.items)} vertices instead of one", ""))
            return ps
        allp += _collect(label, outs, check)
        allouts += outs
    report(ctx, site, allp, ["C13-T1", "C13-I1", "C13-B1"], "split_face_as_fan on faces with 3..6 sides", allouts, "split_face_as_fan")
    # ---- triangulate(): every face of a mixed mesh becomes triangles
    fn, site = anchor(ctx, "SurfaceSubdivision", "triangulate")
    label = "triangulate() on a mesh with a triangle, a quad and a pentagon"

    def setup(dec, rev):
        def build(w):
            open_editor(w, ["ABCD", "BAX", "DCEFG"], ORDER)
            w.ev.call(w.method(w.editor, "triangulate"), [], {})
            return w
        return world(ctx, dec, rev, build)
    outs = explore(ctx, "C13-E1", site, label, setup)
    if outs is None:
        return

    def check(w):
        raw = edited(w)
        F = [tuple(f) for f in w.data(raw.fields["faces"])]
        if any(len(f) != 3 for f in F):
            bad = [f for f in F if len(f) != 3][0]
            return [M.Problem("C13-E1", "triangulate() does not triangulate every non-triangular face",
                              f"a face with {len(bad)} sides is left: {M.fmt_face(bad)}")]
        return M.check_surface(w, w.F, raw, "triangulate()", centres_of=[w.F[2]], midpoints=False, edges_old={frozenset(e) for e in w.Ed})
    report(ctx, site, _collect(label, outs, check), ["C13-E1", "C13-T1"], label, outs, "triangulate()")


# ------------------------------------------------------------------------------------------------ refinements that build new data
def surface_refinements(ctx):
    repo = ctx.repo
    TRI = ["ABC", "CBD"]                     # two triangles sharing side B-C
    QUAD = ["ABCD", "BAX"]                   # a quad next to a triangle: splitting the quad adds a face side that is not an edge yet
    specs = [
        ("SurfaceSubdivision.loop_subdivision", "loop_subdivision", [], dict(expect_arity=3, per_face=4, centres=False, edges_exact=True)),
        ("SurfaceSubdivision.subdivide_triangles_3quads", "subdivide_triangles_3quads", [], dict(expect_arity=4, per_face=3, centres=True, edges_exact=False)),
        ("SurfaceSubdivision.subdivide_triangles_6", "subdivide_triangles_6", [], dict(expect_arity=3, per_face=6, centres=True, edges_exact=False)),
    ]
    for q, meth, args, sp in specs:
        fn, site = anchor(ctx, *q.split("."))
        allp, allouts = [], []
        # (a) on a triangle mesh: the documented refinement
        label = f"{meth} on two triangles sharing a side"

        def setup(dec, rev, meth=meth, args=args):
            def build(w):
                open_editor(w, TRI, ORDER)
                w.ev.call(w.method(w.editor, meth), list(args), {})
                return w
            return world(ctx, dec, rev, build)
        outs = explore(ctx, "C13-T1", site, label, setup)
        if outs is None:
            continue

        def check(w, sp=sp, label=label):
            raw = edited(w)
            ps = M.check_surface(w, w.F, raw, label, centres_of=w.F if sp["centres"] else [], midpoints=True, expect_arity=sp["expect_arity"],
                                 expect_count=sp["per_face"] * len(w.F), edges_exact=sp["edges_exact"])
            # a refinement of triangles builds new data: the element containers of the mesh passed in stay as they were
            try:
                vin, fin_ = w.data(w.input.fields["vertices"]), [tuple(f) for f in w.data(w.input.fields["faces"])]
            except Unknown:
                return ps
            extra = len(vin) - (w.n_old or 0)
            if extra or fin_ != [tuple(f) for f in w.F]:
                ps.append(M.Problem("C13-H1", f"{label}: the refinement writes into the containers of the mesh that was passed in",
                                    f"the input mesh ends with {extra} extra vertex(es) and faces {[M.fmt_face(f) for f in fin_[:3]]}...: it is neither "
                                    "unchanged nor equal to the result (a container of the new data aliases one of the input)"))
            return ps
        allp += _collect(label, outs, check)
        allouts += outs
        # (b) on a mesh with a quad (and with two rounds): faces are triangulated first and every face side finds its midpoint
        for faces, a2, lab in ((QUAD, args, f"{meth} on a mesh with a quad"), (["ABC"], [2], f"{meth} applied twice")):
            label = lab

            def setup(dec, rev, meth=meth, faces=faces, a2=a2):
                def build(w):
                    open_editor(w, faces, ORDER)
                    w.ev.call(w.method(w.editor, meth), list(a2), {})
                    return w
                return world(ctx, dec, rev, build)
            if meth == "subdivide_triangles_3quads" and a2 == [2]:
                continue
            outs = explore(ctx, "C13-S1", site, label, setup, both_orders=False)
            if outs is None:
                continue

            def check(w, sp=sp, label=label, twice=(a2 == [2])):
                raw = edited(w)
                return M.check_surface(w, w.F, raw, label, expect_arity=sp["expect_arity"], edges_exact=sp["edges_exact"], single_round=False,
                                       expect_count=(sp["per_face"] ** 2 * len(w.F)) if twice else None)
            allp += _collect(label, outs, check)
            allouts += outs
        report(ctx, site, allp, ["C13-T1", "C13-I1", "C13-B1", "C13-S1", "C13-E1", "C13-H1"], f"{meth} on template meshes", allouts, meth)


# ------------------------------------------------------------------------------------------------ editing protocol
CONTAINERS = {"SurfaceSubdivision": ("vertices", "edges", "faces", "face_corners"),
              "VolumeSubdivision": ("vertices", "edges", "faces", "face_corners", "cells", "cell_corners", "cell_faces")}


def _snapshot(w, mesh, names):
    snap = {}
    for n in names:
        c = mesh.fields[n]
        lists = {k: (list(v.items) if isinstance(v, SList) else list(v)) for k, v in c.fields.items() if isinstance(v, (list, SList))}
        snap[n] = lists
    return snap


MUTATORS = ("clear", "append", "extend", "pop", "remove", "insert", "sort", "reverse", "__iadd__", "__setitem__", "__delitem__")


def mutator_hooks(log):
    """hooks that record (container, mutator name, calling statement) and then evaluate the real method of the container class"""
    from ..rules.hb_eval import FuncVal, Native
    hooks = {}
    for cname in ("DataContainer", "CornerDataContainer"):
        for m in MUTATORS:
            def h(ev, obj, args, kw, _m=m):
                caller = ev.frames[-1].cur if ev.frames else None
                log.append((obj, _m, caller))
                owner, node = ev.class_attr(obj.cls, _m)
                if not isinstance(node, ast.FunctionDef):
                    raise Raised(("AttributeError", obj.cls.name, _m))
                return ev.call_function(FuncVal(owner.modname, node, bound=obj, cls=owner), args, kw)
            hooks[("method", cname, m)] = h
    return hooks


def editor_protocol(ctx):
    repo = ctx.repo
    for cls, dim in (("SurfaceSubdivision", 2), ("VolumeSubdivision", 3)):
        f_enter, s_enter = anchor(ctx, cls, "__enter__")
        f_exit, s_exit = anchor(ctx, cls, "__exit__")
        names = CONTAINERS[cls]

        def setup(dec, rev, cls=cls):
            inst = []
            mutlog = []

            def h_inst(ev, args, kw):
                o = Obj(w_box[0].cls("mouette.mesh.datatypes.base", "Mesh"), {"__opaque__": True, "__inst__": (args[0] if args else kw.get("mesh_data"),
                                                                              args[1] if len(args) > 1 else kw.get("dim"))})
                inst.append(o)
                return o
            w_box = []

            def build(w):
                w_box.append(w)
                cells = ["ABCD"] if cls == "VolumeSubdivision" else []
                open_editor(w, ["ABC", "CBD"], "DABC", cls=cls, cells=cells, enter=False)
                before = _snapshot(w, w.input, CONTAINERS[cls])
                r = w.ev.call(w.method(w.editor, "__enter__"), [], {})
                raw = w.editor.fields.get("mesh")
                after = _snapshot(w, w.input, CONTAINERS[cls])
                w.ev.call(w.method(w.editor, "__exit__"), [None, None, None], {})
                return w, r, raw, before, after, list(inst), mutlog
            hooks = {("func", "_instanciate_raw_mesh_data"): h_inst, ("func", "mouette.mesh.mesh._instanciate_raw_mesh_data"): h_inst,
                     ("method", "RawMeshData", "prepare"): lambda ev, o, a, k: None}
            hooks.update(mutator_hooks(mutlog))
            return world(ctx, dec, rev, build, hooks)
        outs = explore(ctx, "C13-E1", s_enter, f"{cls}: opening and closing the editing block", setup, both_orders=False)
        if outs is None:
            continue
        pe, px, ph = [], [], []
        n_h1 = 0
        for o in outs:
            if o.unknown is not None:
                continue
            if o.raised is not None:
                o.unknown = Unknown(f"{cls}: opening / closing the editing block raises on the template: {o.raised.value!r}")
                continue
            w, r, raw, before, after, inst, mutlog = o.value
            mesh = w.input
            rmd = w.cls(M.MD, "RawMeshData")
            is_raw = isinstance(raw, Obj) and any(c.node is rmd.node for c in w.ev.mro(raw.cls)) and raw is not mesh
            if r is not w.editor or not is_raw:
                pe.append(M.Problem("C13-E1", f"{cls}.__enter__ does not wrap the mesh into RawMeshData and return the editor",
                                    f"returns {'the editor' if r is w.editor else repr(r)}; editor.mesh is {raw!r}: the editing methods work on raw data "
                                    f"that is prepared and re-instantiated on exit"))
                continue
            shared = [n for n in names if raw.fields.get(n) is mesh.fields[n]]
            if shared and len(shared) != len(names):
                miss = [n for n in names if n not in shared]
                ph.append(M.Problem("C13-H1", f"{cls}.__enter__ shares {', '.join(shared)} with the input mesh but not {', '.join(miss)}",
                                    "in-place operations rewrite the shared containers of the mesh passed in while its other containers are never "
                                    "regenerated: the input ends neither unchanged nor equal to the result (half-updated)"))
            for n in shared:
                if before[n] != after[n]:
                    n_h1 += 1
                    calls = [(m, st) for (obj, m, st) in mutlog if obj is mesh.fields[n]]
                    emptied = all(not v for v in after[n].values())
                    what = calls[0][0] if calls else ("clear" if emptied else "<in-place write>")
                    st = calls[0][1] if calls else None
                    text = au.src(st.value) if isinstance(st, ast.Expr) else f"{n}.{what}()"
                    p = M.Problem("C13-H1", f"{cls}.__enter__ calls {n}.{what}() on a container shared with the input mesh",
                                  f"RawMeshData(mesh) shares the mesh's containers: `{text}` empties the *input* mesh's {n} "
                                  f"(the mesh passed in is left with faces but no corners - half-updated, neither unchanged nor equal to the result)")
                    p.node = st
                    ph.append(p)
            # exit: re-instantiated from the edited raw data with the dimension of the class
            fin = w.editor.fields.get("mesh")
            ok = isinstance(fin, Obj) and "__inst__" in fin.fields and fin.fields["__inst__"][0] is raw and fin.fields["__inst__"][1] == dim
            direct = isinstance(fin, Obj) and fin.cls.name == CLASS_OF[cls][1] and fin.fields.get("__args__", [None])[:1] == [raw]
            if not (ok or direct):
                got = fin.fields.get("__inst__") if isinstance(fin, Obj) else None
                px.append(M.Problem("C13-E1", f"{cls}.__exit__ does not `self.mesh.prepare(); self.mesh = _instanciate_raw_mesh_data(self.mesh, {dim})`",
                                    "all connectivity answers of the result must describe the refined mesh: the raw data must be prepared and "
                                    f"re-instantiated as a dimension-{dim} mesh on exit (got {('dimension ' + repr(got[1])) if got else repr(fin)})"))
        for p in ph:
            ctx.fail("C13-H1", ctx.site(SUB, f"{cls}.__enter__", getattr(p, "node", None) or f_enter), p.construct, p.what)
        unk = [o.unknown for o in outs if o.unknown is not None]
        if not ph:
            (ctx.undecided("C13-H1", s_enter, f"{cls}.__enter__: cannot be evaluated on the template mesh", str(unk[0])[:300]) if unk
             else ctx.ok("C13-H1", s_enter, f"{cls}.__enter__ does not mutate shared containers"))
        report(ctx, s_enter, pe, ["C13-E1"], f"{cls}.__enter__ wraps and returns the editor", outs if not pe else (), f"{cls}.__enter__")
        report(ctx, s_exit, px, ["C13-E1"], f"{cls}: re-instantiate({dim}) on exit", outs if not px else (), f"{cls}.__exit__")


# ------------------------------------------------------------------------------------------------ a whole editing block, prepared for real on exit
REBUILDING = ("loop_subdivision", "subdivide_triangles_3quads", "subdivide_triangles_6")


def block_end_to_end(ctx):
    """enter, one in-place operation, exit - with RawMeshData.prepare() evaluated for real on a small mesh with concrete indices:
    the data handed to the new mesh object must describe the refined mesh (edges, corner records), with no generated edge flagged hard"""
    repo = ctx.repo
    SURF = [(0, 1, 2, 3), (1, 0, 4)]
    TETF = [(1, 3, 2), (0, 2, 3), (3, 1, 0), (0, 1, 2)]
    cases = [("SurfaceSubdivision", [("triangulate", [])], SURF, [], 7),       # 7 vertices: two of them unused
             # a refinement that builds new data followed by an in-place operation of the same block: the data handed over on exit
             # must still be prepared (nothing that an earlier operation left behind - a flag, a cache - may make the exit skip it)
             ("SurfaceSubdivision", [("loop_subdivision", []), ("split_face_as_fan", [0])], SURF, [], 5),
             ("SurfaceSubdivision", [("subdivide_triangles_3quads", []), ("triangulate_face", [0])], SURF, [], 5),
             ("SurfaceSubdivision", [("split_face_as_fan", [0]), ("loop_subdivision", [])], SURF, [], 5),
             ("VolumeSubdivision", [("split_cell_as_fan", [0])], TETF, [(0, 1, 2, 3)], 4)]
    ops_of = {}
    for cls, ops, F, C, nv in cases:
        fn, site = anchor(ctx, cls, "__exit__")
        meth, args = ops[0]
        label = f"{cls}: with-block running " + ", ".join(m + "()" for m, _ in ops)
        ops_of[label] = ops

        def setup(dec, rev, cls=cls, meth=meth, args=args, F=F, C=C, nv=nv, ops=ops):
            def build(w):
                # an unrelated block first (on a pentagon / another tetrahedron): nothing of it may leak into the next one
                F0 = [(0, 1, 2, 3, 4)] if cls == "SurfaceSubdivision" else [tuple(c[i] for i in t) for c in [(0, 1, 2, 3)] for t in TET_FACES]
                Ed0 = sorted({tuple(sorted(e)) for f in F0 for e in M.directed_edges(f)})
                mesh0 = input_mesh(w, cls, Ed0, F0, [(0, 1, 2, 3)] if C else (), n_vertices=5)
                ed0 = w.ev.call(w.cls(SUBM, cls), [mesh0], {})
                w.ev.call(w.method(ed0, "__enter__"), [], {})
                w.ev.call(w.method(ed0, meth), list(args), {})
                w.ev.call(w.method(ed0, "__exit__"), [None, None, None], {})
                Ed = sorted({tuple(sorted(e)) for f in F for e in M.directed_edges(f)})
                mesh = input_mesh(w, cls, Ed, F, C, n_vertices=nv)
                # per-corner data computed on the mesh before the edit (user attribute, cached cell adjacency ...)
                for cname in ("face_corners", "cell_corners", "cell_faces"):
                    if cname in mesh.fields:
                        w.attribute(mesh.fields[cname], "adjacent_cell" if cname == "cell_faces" else "corner_data", {0: Opaque(("before-the-edit", cname))})
                ed = w.ev.call(w.cls(SUBM, cls), [mesh], {})
                w.ev.call(w.method(ed, "__enter__"), [], {})
                if any(m_ in REBUILDING for m_, _ in ops):
                    w.attributes(mesh.fields["edges"])["hard_edges"].data[0] = True      # the first edge of the input is a hard edge
                for m_, a_ in ops:
                    w.ev.call(w.method(ed, m_), list(a_), {})
                raw = ed.fields.get("mesh")
                w.ev.call(w.method(ed, "__exit__"), [None, None, None], {})
                w.hard_input, w.nv = Ed[0], nv
                return w, raw, ed, len(Ed)
            return world(ctx, dec, rev, build, {("method", "_Connectivity", "_compute_cell_adj"): lambda ev, o, a, k: None})
        outs = explore(ctx, "C13-E1", site, label, setup, both_orders=False)
        if outs is None:
            continue
        probs = []
        for o in outs:
            if o.unknown is not None:
                continue
            if o.raised is not None:
                o.unknown = Unknown(f"{label} raises on the template: {o.raised.value!r}")
                continue
            w, raw, ed, n_edges0 = o.value
            if not isinstance(raw, Obj) or "faces" not in raw.fields:
                o.unknown = Unknown("editor.mesh is not raw mesh data inside the block")
                continue
            faces = [tuple(f) for f in w.data(raw.fields["faces"])]
            cells = [tuple(c) for c in w.data(raw.fields["cells"])] if isinstance(raw.fields.get("cells"), Obj) else []
            edges = [tuple(e) for e in w.data(raw.fields["edges"])]
            want_faces = {frozenset(c[i] for i in t) for c in cells if len(c) == 4 for t in TET_FACES}
            if not want_faces <= {frozenset(f) for f in faces}:
                probs.append(M.Problem("C13-E1", f"{cls}: after the editing block a face of a new cell is not in the face list",
                                       "the data is not (re)prepared on exit: faces of the new tetrahedra are missing"))
                continue
            sides = {frozenset(e) for f in faces for e in M.directed_edges(f)}
            stray = [e for e in edges if frozenset(e) not in sides]
            if stray:
                probs.append(M.Problem("C13-E1", f"{cls}: after the editing block the edge list holds an edge that is not a side of a face of the mesh",
                                       f"edge {M.fmt_face(stray[0])}: state of an earlier editing block (or of the class) leaks into this one"))
            if not sides <= {frozenset(e) for e in edges}:
                probs.append(M.Problem("C13-E1", f"{cls}: after the editing block a side of a new face is not in the edge list",
                                       f"missing {sorted(tuple(sorted(x)) for x in sides - {frozenset(e) for e in edges})}: all connectivity answers of the "
                                       "result must describe the refined mesh; the edited data must be prepared again on exit"))
            fe, fa = list(w.elem(raw.fields["face_corners"])), list(w.adj(raw.fields["face_corners"]))
            if (fe, fa) != ([v for f in faces for v in f], [i for i, f in enumerate(faces) for _ in f]):
                probs.append(M.Problem("C13-E1", f"{cls}: after the editing block the face corners do not describe the faces of the result",
                                       f"{len(fe)} corner record(s) for {sum(len(f) for f in faces)} face-vertex incidences: stale or missing corners "
                                       "(the containers must be cleared on enter and regenerated on exit)"))
            if cells:
                ce, ca = list(w.elem(raw.fields["cell_corners"])), list(w.adj(raw.fields["cell_corners"]))
                if (ce, ca) != ([v for c in cells for v in c], [i for i, c in enumerate(cells) for _ in c]):
                    probs.append(M.Problem("C13-E1", f"{cls}: after the editing block the cell corners do not describe the cells of the result",
                                           f"{len(ce)} corner record(s) for {sum(len(c) for c in cells)} cell-vertex incidences"))
                ge, ga = list(w.elem(raw.fields["cell_faces"])), list(w.adj(raw.fields["cell_faces"]))
                okf = ga == [i for i, c in enumerate(cells) for _ in range(4)] and len(ge) == len(ga) and all(
                    isinstance(fi, int) and 0 <= fi < len(faces) and frozenset(faces[fi]) <= frozenset(cells[ci]) for fi, ci in zip(ge, ga))
                if not okf:
                    probs.append(M.Problem("C13-E1", f"{cls}: after the editing block the cell-face records do not describe the cells of the result",
                                           f"{len(ge)} record(s) for {len(cells)} tetrahedra: stale or missing records (cleared on enter, regenerated on exit)"))
            for cname in ("face_corners", "cell_corners", "cell_faces"):
                c = raw.fields.get(cname)
                if isinstance(c, Obj):
                    stale = [n for n, a in w.attributes(c).items() if isinstance(a, E.AttrModel)
                             and any(isinstance(v, Opaque) and isinstance(v.term, tuple) and v.term[:1] == ("before-the-edit",) for v in a.data.values())]
                    if stale:
                        probs.append(M.Problem("C13-E1", f"{cls}: per-corner data computed before the edit survives on the regenerated `{cname}` table",
                                               f"attribute `{stale[0]}` of {cname} still holds the values it had on the input mesh although the records were "
                                               "renumbered: a cache kept there (e.g. the cell adjacency `adjacent_cell` of a volume mesh) makes the "
                                               "connectivity of the result describe the mesh before the split; the corner tables must be cleared, not only refilled"))
            he = w.attributes(raw.fields["edges"]).get("hard_edges")
            rebuilding = [m_ for m_, _ in ops_of[label] if m_ in REBUILDING]
            if rebuilding and ops_of[label][-1][0] not in REBUILDING:
                flagged_skip = True       # edges appended by a later in-place operation are judged in the in-place blocks
            else:
                flagged_skip = False
            flagged = sorted(k for k, v in he.data.items() if v is True or v == 1) if isinstance(he, E.AttrModel) else []
            if not rebuilding:
                if flagged:
                    probs.append(M.Problem("C13-H2", "edges generated while an already built mesh is edited are flagged as hard edges",
                                           f"flagged edge indices after the block: {flagged}; no edge was declared hard by the caller"))
            elif flagged and not flagged_skip:
                # a refinement that rebuilds its data: only the pieces of the edge that was hard in the input may be hard
                a, b = w.hard_input
                T = M.VTable(w, raw, w.nv)
                allowed = {w.pos(a).name, w.pos(b).name}

                def on_hard_edge(i):
                    p = T.position(i)
                    return p is not None and set(p) <= allowed
                bad = [edges[k] for k in flagged if not (isinstance(k, int) and 0 <= k < len(edges) and all(on_hard_edge(x) for x in edges[k]))]
                if bad:
                    m_ = rebuilding[-1]
                    p = M.Problem("C13-H2", (f"{m_}: the rebuilt edge container is handed to prepare() without a `hard_edges` attribute, so every edge is "
                                             "taken for declared and flagged hard") if len(flagged) == len(edges) else
                                  f"{m_}: an edge generated by the refinement is flagged as a hard edge",
                                  f"one edge of the input was hard; after the block {len(flagged)} of {len(edges)} edges are flagged, e.g. {M.fmt_face(bad[0])}: a refinement "
                                  "that rebuilds its data flags no generated edge as hard; only halves of edges that were hard in the input may be hard")
                    p.site_method = m_
                    probs.append(p)
        seen = set()
        probs = [p for p in probs if not ((p.kind, p.construct) in seen or seen.add((p.kind, p.construct)))]
        for p in [p for p in probs if getattr(p, "site_method", None)]:
            # reported at the refinement itself
            ctx.fail("C13-H2", anchor(ctx, cls, p.site_method)[1], p.construct, p.what)
            probs.remove(p)
            outs = [o for o in outs if o.unknown is None]
        report(ctx, site, probs, ["C13-E1", "C13-H2"], f"{cls}: the data handed over on exit describes the refined mesh", outs, label)


# ------------------------------------------------------------------------------------------------ wrapper
def wrapper_rule(ctx):
    fn = ctx.repo.func(SUB, "split_double_boundary_edges_triangles")
    site = ctx.site(SUB, fn)
    label = "split_double_boundary_edges_triangles"
    scen = {"corner": (["ABC"], "complete"),                                   # every vertex has degree 2: the triangle is split
            "closed": (["ABC", "ACD", "ADB", "BDC"], "complete"),              # tetrahedron surface: every degree is 3, nothing to do
            "isolated": (["ABC"], ["AB", "BC"])}                               # A and C have degree 1: must be refused
    results = {}
    allouts = []
    for key, (faces, edges) in scen.items():
        def setup(dec, rev, faces=faces, edges=edges):
            inst = []

            def h_inst(ev, args, kw):
                o = Obj(box[0].cls("mouette.mesh.datatypes.base", "Mesh"), {"__opaque__": True, "__inst__": (args[0] if args else None,)})
                inst.append(o)
                return o
            box = []

            def build(w):
                box.append(w)
                order = "CADB" if not w.reverse else "BDAC"
                names = {n: order.index(n) for n in "ABCD"}         # concrete vertex indices (the degree table is indexed by them)
                F = [tuple(names[c] for c in f) for f in faces]
                if edges == "complete":
                    seen, Ed = set(), []
                    for f in F:
                        for a, b in M.directed_edges(f):
                            if frozenset((a, b)) not in seen:
                                seen.add(frozenset((a, b)))
                                Ed.append(sorted_pair(w, a, b))
                else:
                    Ed = [sorted_pair(w, names[e[0]], names[e[1]]) for e in edges]
                mesh = input_mesh(w, "SurfaceSubdivision", Ed, F, n_vertices=4)
                f = w.ev.lookup(label, E.Frame(SUBM))
                r = w.ev.call(f, [mesh], {})
                w.F = F
                return w, mesh, r, list(inst), F
            return world(ctx, dec, rev, build, {("func", "_instanciate_raw_mesh_data"): h_inst,
                                                ("func", "mouette.mesh.mesh._instanciate_raw_mesh_data"): h_inst,
                                                ("method", "RawMeshData", "prepare"): lambda ev, o, a, k: None})
        outs = explore(ctx, "C13-H1", site, f"{label} ({key})", setup, both_orders=(key != "closed"))
        if outs is None:
            return
        results[key] = outs
        allouts += outs
    pd, ph = [], []
    for key, outs in results.items():
        for o in outs:
            if o.unknown is not None:
                continue
            if key == "isolated":
                if o.raised is None:
                    pd.append(M.Problem("C13-D1", "the vertex degree does not count both endpoints of every edge",
                                        "a triangle with a vertex that belongs to one edge only is accepted: a vertex of degree < 2 must be refused"))
                continue
            if o.raised is not None:
                if "Isolated" in repr(o.raised.value) or key == "corner":
                    pd.append(M.Problem("C13-D1", "the vertex degree does not count both endpoints of every edge",
                                        f"on a mesh where every vertex belongs to at least two edges the function raises {o.raised.value!r}"))
                else:
                    o.unknown = Unknown(f"{label} raises on the template: {o.raised.value!r}")
                continue
            w, mesh, r, inst, F = o.value
            if key == "closed":
                if inst:
                    pd.append(M.Problem("C13-D1", "a triangle is split although none of its vertices has degree two", "closed surface: every vertex has degree 3"))
                elif r is not mesh:
                    p = M.Problem("C13-H1", "split_double_boundary_edges_triangles does not return the mesh when there is nothing to split",
                                  f"returns {r!r}: callers use the return value as the processed mesh")
                    p.node = o.ev.last_return.get(id(fn))
                    ph.append(p)
                continue
            if not inst:
                pd.append(M.Problem("C13-D1", "a triangle whose vertices all have degree two is not split",
                                    "the double border triangle must be replaced by a fan around its centre"))
                continue
            raw = inst[-1].fields["__inst__"][0]
            if isinstance(raw, Obj) and "faces" in raw.fields:
                try:
                    for pr in M.check_surface(w, F, raw, label, centres_of=F, midpoints=False, expect_arity=3, expect_count=3, n_old=4):
                        pd.append(M.Problem(KIND_RULE.get(pr.kind, pr.kind), pr.construct, pr.what))
                except Unknown as u:
                    o.unknown = u
            # whatever object is returned, it is the processed mesh for the caller: when its face list can be read on the template it must
            # no longer be the face list of the input (the triangle whose three vertices have degree two is still there, nothing was added)
            # although the editing block did split that triangle on other data (block working on a copy + `return <input>`: a silent no-op)
            if isinstance(r, Obj) and "__inst__" not in r.fields and isinstance(r.fields.get("faces"), Obj):
                try:
                    rf = [tuple(f) for f in w.data(r.fields["faces"])]
                except Unknown:
                    rf = None
                if rf is not None and rf == [tuple(f) for f in F]:
                    p = M.Problem("C13-H1", "split_double_boundary_edges_triangles returns a mesh in which the double border triangle is not split",
                                  f"the editing block refines other data than the object returned ({'the input mesh' if r is mesh else repr(r)}): the "
                                  f"returned mesh still has exactly the input faces {[M.fmt_face(f) for f in rf[:3]]}, the fan around the centre of the "
                                  "triangle is only in the editor's mesh - the function is a silent no-op for its caller")
                    p.node = o.ev.last_return.get(id(fn))
                    ph.append(p)
            if r is mesh:
                p = M.Problem("C13-H1", "split_double_boundary_edges_triangles returns its input mesh instead of the mesh re-instantiated by the editing block",
                              "after the editing block the refined, valid mesh is the editor's; the object passed in has new faces but stale "
                              "corners and connectivity (half-updated)")
                p.node = o.ev.last_return.get(id(fn))
                ph.append(p)
            elif r is not inst[-1]:
                ph.append(M.Problem("C13-H1", "split_double_boundary_edges_triangles does not return the mesh re-instantiated by the editing block", f"returns {r!r}"))
    seen = set()
    for p in ph:
        if p.construct not in seen:
            seen.add(p.construct)
            ctx.fail("C13-H1", ctx.site(SUB, fn, getattr(p, "node", None)), p.construct, p.what)
    if not ph:
        report(ctx, site, [], ["C13-H1"], "wrapper returns the re-instantiated mesh", allouts, label)
    report(ctx, site, pd, ["C13-D1", "C13-T1"], "degree counts both endpoints; each double border triangle is fanned once", allouts if not pd else (), label)


# ------------------------------------------------------------------------------------------------ tetrahedral operations
TET_FACES = ((1, 3, 2), (0, 2, 3), (3, 1, 0), (0, 1, 2))     # face i omits vertex i (orientation convention of the library)


def _cyc(t):
    t = list(t)
    k = min(range(len(t)), key=lambda i: repr(t[i]))
    return tuple(t[k:] + t[:k])


def tet_boundary(cells):
    d = Counter()
    for c in cells:
        for f in TET_FACES:
            d[_cyc([c[i] for i in f])] += 1
    out = Counter()
    for t, n in d.items():
        r = d.get(_cyc(reversed(t)), 0)
        if n > r:
            out[t] = n - r
    return out


def volume_ops(ctx):
    repo = ctx.repo
    # ---- split_cell_as_fan
    fn, site = anchor(ctx, "VolumeSubdivision", "split_cell_as_fan")
    allp, allouts = [], []
    for which, label in ((0, "split_cell_as_fan on a tetrahedron"), (1, "split_cell_as_fan on a cell with 5 vertices")):
        def setup(dec, rev, which=which):
            def build(w):
                open_editor(w, ["ABC"], "DAEBC", cls="VolumeSubdivision", cells=["ABCD", "ABCDE"])
                w.ev.call(w.method(w.editor, "split_cell_as_fan"), [which], {})
                return w
            return world(ctx, dec, rev, build, {("method", "_Connectivity", "_compute_cell_adj"): lambda ev, o, a, k: None})
        outs = explore(ctx, "C13-T1", site, label, setup)
        if outs is None:
            return

        def check(w, which=which, label=label):
            raw = edited(w)
            V = M.vertex_table(w, raw)
            cells = [tuple(c) for c in w.data(raw.fields["cells"])]
            old = w.C[0]
            if which == 1:
                if cells != [tuple(c) for c in w.C] or V.items:
                    return [M.Problem("arity", "split_cell_as_fan does not return untouched unless the element has exactly 4 vertices",
                                      f"a cell with 5 vertices is rewritten: {[M.fmt_face(c) for c in cells]}")]
                return []
            if cells == [tuple(c) for c in w.C] and not V.items:
                return [M.Problem("arity", "split_cell_as_fan does not return untouched unless the element has exactly 4 vertices",
                                  "a tetrahedron is left alone: the operation is defined on tetrahedra")]
            return check_tets(w, raw, [old], [c for i, c in enumerate(cells) if i != 1], label, centre_of=old)
        allp += _collect(label, outs, check)
        allouts += outs
    report(ctx, site, allp, ["C13-T1", "C13-I1", "C13-B1", "C13-D1"], "split_cell_as_fan on template cells", allouts, "split_cell_as_fan")
    # ---- split_tet_from_face_center
    fn, site = anchor(ctx, "VolumeSubdivision", "split_tet_from_face_center")
    allp, allouts = [], []
    for which, label in ((0, "split_tet_from_face_center on a triangle between two tetrahedra"), (1, "split_tet_from_face_center on a quad")):
        def setup(dec, rev, which=which):
            def build(w):
                # face ABC is local face 0 of cell (D,A,B,C) and local face 3 of cell (A,C,B,E)
                open_editor(w, ["ABC", "ABCD"], "DAEBC", cls="VolumeSubdivision", cells=["DABC", "ACBE"])
                w.ev.call(w.method(w.editor, "split_tet_from_face_center"), [which], {})
                return w
            hooks = {("method", "_Connectivity", "_compute_cell_adj"): lambda ev, o, a, k: None,
                     ("method", "_Connectivity", "face_to_cells"): lambda ev, o, a, k: [0, 1] if a[0] == 0 else [],
                     ("method", "_Connectivity", "in_cell_face_index"): lambda ev, o, a, k: {0: 0, 1: 3}[a[0]]}
            return world(ctx, dec, rev, build, hooks)
        outs = explore(ctx, "C13-T1", site, label, setup)
        if outs is None:
            return

        def check(w, which=which, label=label):
            raw = edited(w)
            V = M.vertex_table(w, raw)
            cells = [tuple(c) for c in w.data(raw.fields["cells"])]
            faces = [tuple(f) for f in w.data(raw.fields["faces"])]
            if which == 1:
                if cells != [tuple(c) for c in w.C] or faces != [tuple(f) for f in w.F]:
                    return [M.Problem("arity", "split_tet_from_face_center does not return untouched unless the element has exactly 3 vertices",
                                      "a quadrangular face is rewritten")]
                return []
            ps = []
            f0 = w.F[0]
            # the face
            sub = M.check_surface(w, [f0], _only_faces(w, raw, [f for f in faces if f != tuple(w.F[1])]), label, centres_of=[f0], midpoints=False,
                                  expect_arity=3, expect_count=3)
            ps += sub
            if ps:
                return ps
            if len(V.items) != 1:
                return [M.Problem("index", f"split_tet_from_face_center appends {len(V.items)} vertices instead of one", "")]
            ctr = w.ev.nums.norm(V.base)
            for ci, old in enumerate(w.C):
                want = Counter(tuple(ctr if x == v else x for x in old) for v in f0)
                got = Counter()
                for c in cells:
                    if set(c) - {ctr} <= set(old) and ctr in c and len(c) == 4:
                        got[c] += 1
                if cells[ci] == tuple(old) or not got:
                    ps.append(M.Problem("arity", "a tetrahedron adjacent to the split face is not replaced by three tetrahedra",
                                        f"cell {M.fmt_face(old)} (the face is its local face {0 if ci == 0 else 3}) is left as it is while the face itself is split: "
                                        f"the result is not conforming"))
                elif got != want:
                    ps.append(M.Problem("arity", "the three tetrahedra replacing a cell are not stored as one replacement and two appends of three distinct new cells",
                                        f"cell {M.fmt_face(old)} becomes {[M.fmt_face(c) for c in got.elements()]}, expected each vertex of the face replaced "
                                        f"by the centre once: {[M.fmt_face(c) for c in want]}"))
            if not ps and len(cells) != 6:
                ps.append(M.Problem("tiling", f"split_tet_from_face_center leaves {len(cells)} cells instead of 6", f"{[M.fmt_face(c) for c in cells]}"))
            if not ps:
                ps += check_tets(w, raw, w.C, cells, label, centre_of=None, positions=False)
            return ps
        allp += _collect(label, outs, check)
        allouts += outs
    report(ctx, site, allp, ["C13-T1", "C13-I1", "C13-B1", "C13-D1"], "split_tet_from_face_center on template cells", allouts, "split_tet_from_face_center")


def _only_faces(w, raw, faces):
    """a view of `raw` restricted to some faces (for the surface oracle)"""
    o = Obj(raw.cls, dict(raw.fields))
    o.fields["faces"] = w.container("faces", faces)
    return o


def check_tets(w, raw, old_cells, new_cells, label, centre_of=None, positions=True):
    ev = w.ev
    V = M.vertex_table(w, raw)
    ps = []
    for c in new_cells:
        if len(c) != 4:
            return [M.Problem("tiling", f"{label}: a new cell has {len(c)} vertices", M.fmt_face(c))]
        for x in c:
            if M.classify_index(w, V, x)[0] == "bad":
                return [M.Problem("index", f"{label}: a new cell refers to a vertex index that holds no vertex",
                                  f"cell {M.fmt_face(c)} uses index {x}; {len(V.items)} vertex(es) were appended")]
    if positions and centre_of is not None:
        if len(V.items) != 1:
            return [M.Problem("index", f"{label}: {len(V.items)} vertices are appended instead of one", "")]
        a = M.affine(ev, V.items[0])
        want = {w.pos(s).name: Fraction(1, len(centre_of)) for s in centre_of}
        if a != want:
            return [M.Problem("position", f"{label}: the new vertex is not at the centre of the cell it refines", f"it is placed at {V.items[0]}")]
    if tet_boundary(new_cells) != tet_boundary(old_cells) and positions:
        ps.append(M.Problem("tiling", f"{label}: the new tetrahedra do not tile the old one with its orientation",
                            f"new cells {[M.fmt_face(c) for c in new_cells]}: their oriented boundary differs from the boundary of {[M.fmt_face(c) for c in old_cells]}"))
    def form(cells):
        tot = {}
        for c in cells:
            tot = M.add_forms(tot, M.volume_form([M.position_of(w, V, x) for x in c]))
        return tot
    if not ps and form(new_cells) != form(old_cells):
        ps.append(M.Problem("tiling", f"{label}: the total signed volume of the cells changes",
                            f"new cells {[M.fmt_face(c) for c in new_cells]} (a tetrahedron is inverted, counted twice or lost)"))
    return ps



# ----------------------------------------------------------------------- generic families (msa/rules/generic.py)
_run_specific = run


def run(ctx):
    _run_specific(ctx)
    from ..rules import generic
    generic.apply(ctx, "C13", stale_modules=())


def _generic_rule_texts():
    from ..rules import generic
    return generic.rule_texts("C13", stale=False)


RULES.update(_generic_rule_texts())
