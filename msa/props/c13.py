"""C13 - subdivision refines a mesh without changing its shape or topology (structural clauses)."""
from __future__ import annotations
import ast
from collections import Counter
from .. import au, sym
from ..rules import rows

SUB = "mesh.subdivision"

EXPLANATION = (
    "Static conformance of mesh/subdivision.py: index rows are never concatenated (R-ROW); every fresh vertex index "
    "`i = len(vertices)` is consumed by exactly one unconditional append; each new vertex is the mean of exactly the points "
    "summed (divisor = number of terms, with a triangle gate where the divisor is the literal 3); each literal refinement "
    "table has the (oriented) boundary of the element it replaces and its interior edges cancel (chain-boundary check), and "
    "the declared new edges are exactly the edges of the new faces; the editor protocol (prepare + re-instantiate on exit, "
    "triangulate before triangle-only code, connectivity cleared after an in-place edit); the editing block does not "
    "mutate the containers it shares with the input mesh. Structural necessary conditions only.")

RULES = {
    "C13-R1": "index rows are used only through sequence-agnostic operations in subdivision.py (R-ROW)",
    "C13-I1": "a fresh index `i = len(K)` is followed, before any other growth of K, by exactly one unconditional K.append in the same block",
    "C13-B1": "a new vertex is sum(p_i)/m with m equal to the number of summed positions (literal 3 only behind a triangle gate)",
    "C13-T1": "a literal refinement table has the oriented boundary of the element it replaces (interior edges cancel); new edges = edges of new faces",
    "C13-E1": "__exit__ prepares and re-instantiates with the class's dimension; triangle-only code is dominated by triangulate(); in-place edits clear the connectivity",
    "C13-D1": "arity dispatch: triangulate_face leaves triangles alone, splits quads along a diagonal and fans anything larger; the tetrahedral "
              "operations return untouched on non-tetrahedra / non-triangles; the three new cells of a face split go to three distinct slots; "
              "the vertex degree used to detect double border triangles counts both endpoints of every edge",
    "C13-H1": "the editing block must not mutate containers shared with the input mesh, and a wrapper returns the re-instantiated mesh, not the stale input",
    "C13-H2": "re-preparing the edited data on exit adds the sides of the new faces as edges and flags no generated edge as hard (shared with C02-H1)",
    "C13-S1": "editor typestate: a method that cuts every edge and then looks up the midpoint of every face side needs the edge list to hold every "
              "side of every face; it must (re)complete the edges after the last operation that may add faces without their edges",
}


def run(ctx):
    rows.selfcheck()
    rows.check_module(ctx, "C13-R1", SUB, min_uses=8)
    i1_fresh_index(ctx)
    b1_barycentres(ctx)
    t1_refinement_tables(ctx)
    e1_protocol(ctx)
    h1_input_not_half_updated(ctx)
    from .c02 import h1_hard_edges, h2_hard_edges_typestate
    h1_hard_edges(ctx, "C13-H2")
    h2_hard_edges_typestate(ctx, "C13-H2")
    s1_edge_completeness(ctx)
    d1_dispatch(ctx)


# ---------------------------------------------------------------------------- I1
def _is_len_of_container(e):
    return isinstance(e, ast.Call) and au.call_tail(e) == "len" and len(e.args) == 1 and \
        isinstance(e.args[0], ast.Attribute) and e.args[0].attr in ("vertices", "faces", "cells", "edges")


def _grows(st, cont_src):
    """does statement st (recursively) grow container `cont_src`?  returns list of (node, kind)"""
    out = []
    for s in [st] + list(au.stmts(getattr(st, "body", []) or [])) + list(au.stmts(getattr(st, "orelse", []) or [])):
        if isinstance(s, ast.Expr) and isinstance(s.value, ast.Call) and au.call_tail(s.value) in ("append", "extend") \
                and isinstance(s.value.func, ast.Attribute) and au.src(s.value.func.value) == cont_src:
            out.append((s, "append" if au.call_tail(s.value) == "append" else "extend"))
        if isinstance(s, ast.AugAssign) and au.src(s.target) == cont_src:
            out.append((s, "iadd"))
    return out


def i1_fresh_index(ctx):
    mod = ctx.repo.module(SUB)
    n = 0
    for q, fn in sorted(mod.funcs.items()):
        for st in au.stmts(fn.body):
            if not (isinstance(st, ast.Assign) and _is_len_of_container(st.value)):
                continue
            cont = au.src(st.value.args[0])
            n += 1
            site = ctx.site(mod.name, fn, st)
            blk, _ = au.enclosing_block(st)
            idx = [id(x) for x in blk].index(id(st))
            first = None
            for s in blk[idx + 1:]:
                g = _grows(s, cont)
                if g:
                    first = (s, g)
                    break
            ok = first is not None and first[0] is first[1][0][0] and first[1][0][1] == "append" and len(first[1]) == 1
            tgt = au.src(st.targets[0])
            ctx.check(ok, "C13-I1", site,
                      f"{q}: fresh index `{tgt} = len({cont})` is not consumed by exactly one unconditional {cont}.append(...) next in the same block",
                      "the index handed out for the new element would name another element (or none)",
                      note=f"{tgt} = len({cont}) then one append")
            if ok:
                # no second growth of the container in the rest of the block before the index variable is reassigned
                later = blk[[id(x) for x in blk].index(id(first[0])) + 1:]
                extra = [g for s in later for g in _grows(s, cont)
                         if not any(isinstance(a, (ast.For, ast.While)) for a in au.ancestors(g[0]) if a is not fn
                                    and any(a is x for x in au.ancestors(st)))]
                # growth of the same container later in the same iteration is fine (indices already handed out are stable)
    ctx.require_count("C13-I1 fresh-index sites", n, 7)


# ---------------------------------------------------------------------------- B1
def _addends(e):
    if isinstance(e, ast.BinOp) and isinstance(e.op, ast.Add):
        return _addends(e.left) + _addends(e.right)
    return [e]


def _triangle_gate(fn, node, row_src, b=None):
    """evidence that the row summed has exactly three entries at `node`."""
    # (a) dominating self.triangulate() call at the top level of the function, before node
    for st in fn.body:
        if st.lineno >= node.lineno:
            break
        if isinstance(st, ast.Expr) and isinstance(st.value, ast.Call) and au.call_tail(st.value) == "triangulate":
            return True
    # (b) early exit `if len(row) != 3: return`
    for st in fn.body:
        if st.lineno >= node.lineno:
            break
        if isinstance(st, ast.If) and isinstance(st.test, ast.Compare) and isinstance(st.test.ops[0], ast.NotEq) \
                and au.const(st.test.comparators[0]) == 3 \
                and (au.src(st.test.left) == f"len({row_src})" or (b is not None and au.src(b.resolve(st.test.left, at=st)) == f"len({row_src})")) \
                and st.body and isinstance(st.body[-1], ast.Return):
            return True
    return False


def b1_barycentres(ctx):
    mod = ctx.repo.module(SUB)
    n = 0
    for q, fn in sorted(mod.funcs.items()):
        b = sym.Bindings(fn)
        for st in au.stmts(fn.body):
            if not (isinstance(st, ast.Expr) and isinstance(st.value, ast.Call) and au.call_tail(st.value) == "append"
                    and isinstance(st.value.func, ast.Attribute) and au.src(st.value.func.value).endswith(".vertices")
                    and st.value.args):
                continue
            v = b.resolve(st.value.args[0], at=st)
            if isinstance(v, ast.Name):
                continue  # copies an existing position
            n += 1
            site = ctx.site(mod.name, fn, st)
            terms = div = None
            gate_needed = None
            num = den = None
            if isinstance(v, ast.BinOp) and isinstance(v.op, ast.Div):
                num, den = v.left, v.right
            elif isinstance(v, ast.BinOp) and isinstance(v.op, ast.Mult) and au.const(v.left) is not None:
                num, den = v.right, ast.Constant(value=1 / au.const(v.left))
            if num is not None:
                if isinstance(num, ast.Call) and au.call_tail(num) == "sum" and num.args \
                        and isinstance(num.args[0], (ast.ListComp, ast.GeneratorExp)):
                    it = num.args[0].generators[0].iter
                    row = au.src(it)
                    terms = f"len({row})"
                    if au.const(den) is not None:
                        div = str(int(au.const(den))) if float(au.const(den)).is_integer() else str(au.const(den))
                        if div == "3":
                            gate_needed = au.src(b.resolve(it, at=st)) if False else row
                    else:
                        div = au.src(den)
                else:
                    k = len(_addends(num))
                    terms = str(k)
                    c = au.const(den)
                    div = str(int(round(c))) if c is not None and abs(c - round(c)) < 1e-9 else au.src(den)
            if terms is None:
                ctx.fail("C13-B1", site, f"{q}: position of the new vertex `{au.src(v)}` is not a mean of existing positions",
                         "each new vertex must sit at the centre of the edge, face or cell it refines")
                continue
            if gate_needed:
                ok = _triangle_gate(fn, st, gate_needed, b)
                ctx.check(ok, "C13-B1", site,
                          f"{q}: barycentre divides by the literal 3 but nothing guarantees that `{gate_needed}` is a triangle here",
                          "on a non-triangular face the new vertex would not be at the face centre (non-triangular faces must be "
                          "triangulated first)", note="sum over a face / 3 behind a triangle gate")
            else:
                ctx.check(terms == div, "C13-B1", site,
                          f"{q}: new vertex is the sum of {terms} position(s) divided by {div}",
                          "the new vertex must be the mean of exactly the points it is computed from (centre of the refined element)",
                          note=f"mean of {terms}")
    ctx.require_count("C13-B1 new-vertex sites", n, 6)


# ---------------------------------------------------------------------------- T1
def _boundary(faces):
    """Oriented boundary of a set of faces: directed edges minus those cancelled by their reverse."""
    d = Counter()
    for f in faces:
        for i in range(len(f)):
            d[(f[i], f[(i + 1) % len(f)])] += 1
    out = Counter()
    for (a, b_), c in d.items():
        r = d.get((b_, a), 0)
        if c > r:
            out[(a, b_)] = c - r
    return out, d


def _table_names(node):
    """list of tuples of names for a list literal of tuple/list literals of Names; None otherwise."""
    if not isinstance(node, (ast.List, ast.Tuple)):
        return None
    out = []
    for it in node.elts:
        if not isinstance(it, (ast.Tuple, ast.List)) or not all(isinstance(x, ast.Name) for x in it.elts):
            return None
        out.append(tuple(x.id for x in it.elts))
    return out


def t1_refinement_tables(ctx):
    repo = ctx.repo
    n = 0
    # -- midpoint refinements: loop_subdivision (4 triangles) and subdivide_triangles_3quads (3 quads)
    for q, nfaces in (("SurfaceSubdivision.loop_subdivision", 4), ("SurfaceSubdivision.subdivide_triangles_3quads", 3)):
        fn = repo.func(SUB, q)
        site = ctx.site(SUB, fn)
        # old face unpacking A,B,C = faces[f]; midpoints m = half[keyify(X,Y)]
        old = None
        mids = {}
        centre = None
        for st in au.stmts(fn.body):
            if isinstance(st, ast.Assign) and isinstance(st.targets[0], ast.Tuple) and len(st.targets[0].elts) == 3 \
                    and isinstance(st.value, ast.Subscript) and au.src(st.value.value).endswith(".faces"):
                old = [x.id for x in st.targets[0].elts]
            if isinstance(st, ast.Assign) and isinstance(st.targets[0], ast.Name) and isinstance(st.value, ast.Subscript):
                k = st.value.slice
                if isinstance(k, ast.Call) and au.call_tail(k) == "keyify" and len(k.args) == 2 and all(isinstance(a, ast.Name) for a in k.args):
                    mids[st.targets[0].id] = (k.args[0].id, k.args[1].id)
                elif isinstance(st.value.value, ast.Name) and isinstance(k, ast.Name) and any(
                        isinstance(w, ast.Assign) and isinstance(w.targets[0], ast.Subscript) and au.src(w.targets[0].value) == st.value.value.id
                        and isinstance(w.value, ast.Call) and au.call_tail(w.value) == "len" for w in au.stmts(fn.body)):
                    centre = st.targets[0].id          # X[f] where X maps a face to the fresh index of its centre vertex
        tables = [(t, nd) for nd in au.walk(fn) for t in [_table_names(nd)] if t and len(t) == nfaces and all(len(f) >= 3 for f in t)]
        if old is None or len(mids) != 3 or not tables:
            ctx.fail("C13-T1", site, f"{q}: refinement table over (A,B,C) and the three edge midpoints not found", "")
            continue
        n += 1
        faces, node = tables[0]
        # refined boundary of the old triangle: X -> m(X,Y) -> Y for each side
        want = Counter()
        okmid = True
        for i in range(3):
            x, y = old[i], old[(i + 1) % 3]
            m = [k for k, v in mids.items() if set(v) == {x, y}]
            if len(m) != 1:
                okmid = False
                continue
            want[(x, m[0])] += 1
            want[(m[0], y)] += 1
        bnd, d = _boundary(faces)
        uses = set(x for f in faces for x in f)
        allowed = set(old) | set(mids) | ({centre} if centre else set())
        ok = okmid and bnd == want and uses <= allowed and all(c <= 1 for c in d.values())
        ctx.check(ok, "C13-T1", ctx.site(SUB, fn, node),
                  f"{q}: the new faces {faces} do not tile the old triangle ({','.join(old)}) with its orientation",
                  f"oriented boundary of the new faces is {sorted(bnd.elements())}, the refined boundary of the old face is "
                  f"{sorted(want.elements())}; interior edges must cancel and every midpoint must lie on its own edge",
                  note=f"{nfaces} faces tile the triangle")
        if q.endswith("loop_subdivision"):
            etabs = [t for nd in au.walk(fn) for t in [_table_names(nd)] if t and all(len(f) == 2 for f in t)]
            und = {frozenset(e) for e in d}
            ok = bool(etabs) and {frozenset(e) for e in etabs[0]} == und and len(etabs[0]) == len(und)
            ctx.check(ok, "C13-T1", site, f"{q}: the declared new edges are not exactly the edges of the new triangles",
                      f"edges of the new faces: {sorted(tuple(sorted(e)) for e in und)}")
    # -- quad split in triangulate_face
    fn = repo.func(SUB, "SurfaceSubdivision.triangulate_face")
    old = None
    for st in au.stmts(fn.body):
        if isinstance(st, ast.Assign) and isinstance(st.targets[0], ast.Tuple) and len(st.targets[0].elts) == 4:
            old = [x.id for x in st.targets[0].elts]
            blk, _ = au.enclosing_block(st)
            faces = []
            for s in blk:
                for nd in au.walk(s):
                    if isinstance(nd, (ast.List, ast.Tuple)) and len(nd.elts) == 3 and all(isinstance(x, ast.Name) and x.id in old for x in nd.elts):
                        faces.append(tuple(x.id for x in nd.elts))
            bnd, d = _boundary(faces)
            want = Counter({(old[i], old[(i + 1) % 4]): 1 for i in range(4)})
            n += 1
            ctx.check(len(faces) == 2 and bnd == want, "C13-T1", ctx.site(SUB, fn, st),
                      f"triangulate_face: the two triangles {faces} do not tile the quad ({','.join(old)}) with its orientation",
                      f"oriented boundary {sorted(bnd.elements())} vs {sorted(want.elements())}", note="quad split")
    if old is None:
        ctx.fail("C13-T1", ctx.site(SUB, fn), "triangulate_face: quad unpacking not found", "")
    # -- fan: faces[id] = [f[0], f[1], c]; for k in range(1, nf): append([f[k], f[(k+1)%nf], c])
    fn = repo.func(SUB, "SurfaceSubdivision.split_face_as_fan")
    site = ctx.site(SUB, fn)
    b = sym.Bindings(fn)
    ok0 = okk = False
    row = "f"
    for st in au.stmts(fn.body):
        if isinstance(st, ast.Assign) and isinstance(st.targets[0], ast.Subscript) and au.src(st.targets[0].value).endswith(".faces") \
                and isinstance(st.value, (ast.List, ast.Tuple)) and len(st.value.elts) == 3:
            e = st.value.elts
            if isinstance(e[0], ast.Subscript) and isinstance(e[0].value, ast.Name):
                row = e[0].value.id
            ok0 = au.src(e[0]) == f"{row}[0]" and au.src(e[1]) == f"{row}[1]" and isinstance(e[2], ast.Name)
            cname = e[2].id if isinstance(e[2], ast.Name) else None
        if isinstance(st, ast.For) and isinstance(st.iter, ast.Call) and au.call_tail(st.iter) == "range" and len(st.iter.args) == 2 \
                and au.const(st.iter.args[0]) == 1 and isinstance(st.target, ast.Name):
            k = st.target.id
            nsrc = au.src(st.iter.args[1])
            n_ok = au.src(b.resolve(st.iter.args[1], at=st, keep=(row,))) == f"len({row})"
            for c in au.calls(st):
                if au.call_tail(c) == "append" and au.src(c.func.value).endswith(".faces") and isinstance(c.args[0], (ast.List, ast.Tuple)) \
                        and len(c.args[0].elts) == 3:
                    e = c.args[0].elts
                    offs = [sym.mod_offset(x.slice, k, nsrc) if isinstance(x, ast.Subscript) and au.src(x.value) == row else None for x in e[:2]]
                    okk = n_ok and offs == [0, 1] and isinstance(e[2], ast.Name)
    n += 1
    ctx.check(ok0 and okk, "C13-T1", site, "split_face_as_fan: the fan is not (f[k], f[k+1 mod n], centre) for k = 0 .. n-1",
              "the triangles of the fan must tile the face with its orientation, one per side", note="fan of n triangles")
    # -- split_cell_as_fan: k-th new cell = old cell with its k-th vertex replaced by the centre
    fn = repo.func(SUB, "VolumeSubdivision.split_cell_as_fan")
    site = ctx.site(SUB, fn)
    old = None
    cells = []
    for st in au.stmts(fn.body):
        if isinstance(st, ast.Assign) and isinstance(st.targets[0], ast.Tuple) and len(st.targets[0].elts) == 4 \
                and isinstance(st.value, ast.Subscript) and au.src(st.value.value).endswith(".cells"):
            old = [x.id for x in st.targets[0].elts]
        if isinstance(st, ast.Assign) and isinstance(st.targets[0], ast.Subscript) and au.src(st.targets[0].value).endswith(".cells") \
                and isinstance(st.value, (ast.Tuple, ast.List)):
            cells.append(tuple(au.src(x) for x in st.value.elts))
        if isinstance(st, ast.AugAssign) and au.src(st.target).endswith(".cells"):
            t = _table_names(st.value)
            if t:
                cells += t
    n += 1
    ok = old is not None and len(cells) == 4
    if ok:
        centre = (set(x for c in cells for x in c) - set(old))
        ok = len(centre) == 1
        if ok:
            ce = centre.pop()
            want = {tuple(ce if j == i else old[j] for j in range(4)) for i in range(4)}
            ok = set(cells) == want
    ctx.check(ok, "C13-T1", site, f"split_cell_as_fan: the four new cells {cells} are not the old cell with one vertex replaced by the centre each",
              "each new tetrahedron keeps the orientation of the old one and together they tile it", note="4 tets tile the cell")
    # -- split_tet_from_face_center: faces
    fn = repo.func(SUB, "VolumeSubdivision.split_tet_from_face_center")
    site = ctx.site(SUB, fn)
    old = None
    faces = []
    for st in au.stmts(fn.body):
        if isinstance(st, ast.Assign) and isinstance(st.targets[0], ast.Tuple) and len(st.targets[0].elts) == 3 and isinstance(st.value, ast.Name):
            old = [x.id for x in st.targets[0].elts]
        v = None
        if isinstance(st, ast.Assign) and isinstance(st.targets[0], ast.Subscript) and au.src(st.targets[0].value).endswith(".faces"):
            v = st.value
        if isinstance(st, ast.Expr) and isinstance(st.value, ast.Call) and au.call_tail(st.value) == "append" \
                and au.src(st.value.func.value).endswith(".faces"):
            v = st.value.args[0]
        if isinstance(v, (ast.List, ast.Tuple)) and all(isinstance(x, ast.Name) for x in v.elts):
            faces.append(tuple(x.id for x in v.elts))
    n += 1
    ok = old is not None and len(faces) == 3
    if ok:
        bnd, d = _boundary(faces)
        want = Counter({(old[i], old[(i + 1) % 3]): 1 for i in range(3)})
        ok = bnd == want and all(c <= 1 for c in d.values())
    ctx.check(ok, "C13-T1", site, f"split_tet_from_face_center: the three triangles {faces} do not tile the split face with its orientation", "",
              note="3 triangles tile the face")
    # the tets: each of the 3 vertices of the face is replaced by the centre, the opposite vertex (local index of the face in the cell) is skipped
    ok = False
    fresh = [t.id for st in au.stmts(fn.body) if isinstance(st, ast.Assign) and isinstance(st.value, ast.Call) and au.call_tail(st.value) == "len"
             and st.value.args and au.src(st.value.args[0]).endswith(".vertices") for t in st.targets if isinstance(t, ast.Name)]
    opp = [t.id for st in au.stmts(fn.body) if isinstance(st, ast.Assign) and isinstance(st.value, ast.Call)
           and au.call_tail(st.value) == "in_cell_face_index" for t in st.targets if isinstance(t, ast.Name)]
    for st in au.stmts(fn.body):
        if isinstance(st, ast.For) and isinstance(st.iter, ast.Call) and au.call_tail(st.iter) == "range" and au.const(st.iter.args[0]) == 4 \
                and isinstance(st.target, ast.Name):
            i = st.target.id
            rep = [s for s in au.stmts(st.body) if isinstance(s, ast.Assign) and isinstance(s.targets[0], ast.Subscript)
                   and au.src(s.targets[0].slice) == i and au.src(s.value) in fresh]
            cp = [s for s in au.stmts(st.body) if isinstance(s, ast.Assign) and isinstance(s.value, (ast.ListComp, ast.Call))]
            conds = [au.canon_test(t, p) for s in rep for t, p in au.guards(s, stop=st)]
            skip_ok = len(opp) == 1 and len(conds) == 1 and conds[0] in (au.canon_test(ast.parse(f"{i} != {opp[0]}", mode="eval").body),)
            ok = len(rep) == 1 and bool(cp) and skip_ok
    ctx.check(ok, "C13-T1", site, "split_tet_from_face_center: new cells are not `copy of the cell with vertex i replaced by the centre` for every i but the opposite vertex", "")
    ctx.require_count("C13-T1 refinement tables", n, 6)


# ---------------------------------------------------------------------------- E1
def e1_protocol(ctx):
    repo = ctx.repo
    for cls, dim in (("SurfaceSubdivision", 2), ("VolumeSubdivision", 3)):
        fn = repo.func(SUB, cls + ".__exit__")
        site = ctx.site(SUB, fn)
        seq = []
        for st in fn.body:
            if isinstance(st, ast.Expr) and isinstance(st.value, ast.Call) and au.src(st.value.func) == "self.mesh.prepare":
                seq.append("prepare")
            if isinstance(st, ast.Assign) and au.is_self_attr(st.targets[0], "mesh") and isinstance(st.value, ast.Call) \
                    and au.call_tail(st.value) == "_instanciate_raw_mesh_data":
                a = st.value.args
                seq.append(("inst", au.src(a[0]) if a else None, au.const(a[1]) if len(a) > 1 else None))
        ctx.check(seq == ["prepare", ("inst", "self.mesh", dim)], "C13-E1", site,
                  f"{cls}.__exit__ does not `self.mesh.prepare(); self.mesh = _instanciate_raw_mesh_data(self.mesh, {dim})`",
                  "all connectivity answers of the result must describe the refined mesh: the raw data must be prepared and "
                  f"re-instantiated as a dimension-{dim} mesh on exit (got {seq})", note=f"{cls}: prepare + re-instantiate({dim})")
        fn = repo.func(SUB, cls + ".__enter__")
        ok = any(isinstance(st, ast.Assign) and au.is_self_attr(st.targets[0], "mesh") and isinstance(st.value, ast.Call)
                 and au.call_tail(st.value) == "RawMeshData" for st in fn.body) and \
            any(isinstance(st, ast.Return) and au.src(st.value) == "self" for st in fn.body)
        ctx.check(ok, "C13-E1", ctx.site(SUB, fn), f"{cls}.__enter__ does not wrap the mesh into RawMeshData and return the editor", "")
    # triangle-only code dominated by triangulate()
    cls = repo.cls(SUB, "SurfaceSubdivision")
    tri_methods = set()
    needs = {}
    for fn in [st for st in cls.body if isinstance(st, ast.FunctionDef)]:
        for st in au.stmts(fn.body):
            if isinstance(st, ast.Assign) and isinstance(st.targets[0], ast.Tuple) and len(st.targets[0].elts) == 3 \
                    and isinstance(st.value, ast.Subscript) and au.src(st.value.value) == "self.mesh.faces":
                needs[fn.name] = st
    n = 0
    for name, st in sorted(needs.items()):
        fn = next(f for f in cls.body if isinstance(f, ast.FunctionDef) and f.name == name)
        first_calls = [s for s in fn.body if isinstance(s, ast.Expr) and isinstance(s.value, ast.Call)
                       and au.src(s.value.func) == "self.triangulate" and s.lineno < st.lineno]
        n += 1
        ctx.check(bool(first_calls), "C13-E1", ctx.site(SUB, fn),
                  f"SurfaceSubdivision.{name} unpacks faces into three vertices without a dominating self.triangulate()",
                  "every subdivision accepts the meshes its documentation admits: non-triangular faces are triangulated first",
                  note=f"{name}: triangulate() first")
    ctx.require_count("C13-E1 triangle-only methods", n, 2)
    fn = repo.func(SUB, "SurfaceSubdivision.subdivide_triangles_6")
    seq = [au.call_tail(c) for c in sorted(au.calls(fn), key=lambda c: c.lineno) if au.is_self_attr(c.func)]
    ctx.check(seq == ["subdivide_triangles_3quads", "triangulate"], "C13-E1", ctx.site(SUB, fn),
              f"subdivide_triangles_6 performs {seq} instead of 3-quads then triangulate", "1-to-6 refinement = 3 quads per triangle, each split in two")
    # triangulate visits every face and triangulates the non-triangles
    fn = repo.func(SUB, "SurfaceSubdivision.triangulate")
    ok = False
    for st in fn.body:
        if isinstance(st, ast.For) and au.src(st.iter) in ("self.mesh.id_faces", "range(len(self.mesh.faces))"):
            f = st.target.id
            for s in st.body:
                if isinstance(s, ast.If) and isinstance(s.test, ast.Compare) and au.src(s.test.left) == f"len(self.mesh.faces[{f}])" \
                        and ((isinstance(s.test.ops[0], ast.NotEq) and au.const(s.test.comparators[0]) == 3)
                             or (isinstance(s.test.ops[0], ast.Gt) and au.const(s.test.comparators[0]) == 3)):
                    ok = any(au.call_tail(c) == "triangulate_face" and au.src(c.args[0]) == f for c in au.calls(s))
    ctx.check(ok, "C13-E1", ctx.site(SUB, fn), "triangulate() does not call triangulate_face on every non-triangular face", "")
    # split_edge: connectivity cleared after the edit
    fn = repo.func(SUB, "split_edge")
    p = au.params(fn)[0]
    muts = [st for st in fn.body if any(au.call_tail(c) == "append" and au.src(c.func.value).startswith(p + ".") for c in au.calls(st))
            or (isinstance(st, (ast.Assign, ast.AugAssign)) and isinstance(au.assign_targets(st)[0], ast.Subscript)
                and au.src(au.assign_targets(st)[0].value).startswith(p + "."))]
    clears = [st for st in fn.body if isinstance(st, ast.Expr) and isinstance(st.value, ast.Call)
              and au.src(st.value.func) == f"{p}.connectivity.clear"]
    ok = bool(muts) and bool(clears) and clears[-1].lineno > muts[-1].lineno
    ctx.check(ok, "C13-E1", ctx.site(SUB, fn), "split_edge does not clear the connectivity after its last in-place edit",
              "stale connectivity would describe the unsplit polyline")
    # split_edge: the two halves are (A,C) and (B,C)
    b = sym.Bindings(fn)
    halves = []
    for st in fn.body:
        v = None
        if isinstance(st, ast.Assign) and isinstance(st.targets[0], ast.Subscript) and au.src(st.targets[0].value) == f"{p}.edges":
            v = st.value
        elif isinstance(st, ast.AugAssign) and isinstance(st.target, ast.Subscript) and au.src(st.target.value) == f"{p}.edges":
            v = st.value
        elif isinstance(st, ast.Expr) and isinstance(st.value, ast.Call) and au.call_tail(st.value) == "append" \
                and au.src(st.value.func.value) == f"{p}.edges":
            v = st.value.args[0]
        if v is not None and isinstance(v, ast.Call) and au.call_tail(v) == "keyify":
            halves.append(frozenset(au.src(a) for a in v.args))
    ends = None
    for st in fn.body:
        if isinstance(st, ast.Assign) and isinstance(st.targets[0], ast.Tuple) and len(st.targets[0].elts) == 2:
            ends = [x.id for x in st.targets[0].elts]
    newv = next((st.targets[0].id for st in fn.body if isinstance(st, ast.Assign) and _is_len_of_container(st.value)
                 and isinstance(st.targets[0], ast.Name)), None)
    ok = ends and newv and sorted(halves, key=sorted) == sorted([frozenset({ends[0], newv}), frozenset({ends[1], newv})], key=sorted)
    ctx.check(bool(ok), "C13-E1", ctx.site(SUB, fn), f"split_edge: the two halves are {[sorted(h) for h in halves]}",
              "splitting edge (A,B) at new vertex C must produce the edges (A,C) and (C,B)")


# ---------------------------------------------------------------------------- H1
MUTATORS = {"clear", "append", "extend", "pop", "remove", "insert", "sort", "reverse"}


def h1_input_not_half_updated(ctx):
    repo = ctx.repo
    n = 0
    for cls in ("SurfaceSubdivision", "VolumeSubdivision"):
        fn = repo.func(SUB, cls + ".__enter__")
        shares = any(isinstance(st, ast.Assign) and au.is_self_attr(st.targets[0], "mesh") and isinstance(st.value, ast.Call)
                     and au.call_tail(st.value) == "RawMeshData" and st.value.args and au.src(st.value.args[0]) == "self.mesh"
                     for st in fn.body)
        # does RawMeshData(mesh) share the containers?  (re-derived from RawMeshData.__init__)
        init = repo.func("mesh.mesh_data", "RawMeshData.__init__")
        shared = {t.attr for st in au.stmts(init.body) for t in au.assign_targets(st) if au.is_self_attr(t)
                  and isinstance(st.value, ast.IfExp) and au.src(st.value.orelse).startswith("mesh.")}
        for st in au.stmts(fn.body):
            for c in au.calls(st) if isinstance(st, ast.Expr) else []:
                if isinstance(c.func, ast.Attribute) and c.func.attr in MUTATORS and isinstance(c.func.value, ast.Attribute) \
                        and au.src(c.func.value.value) == "self.mesh":
                    cont = c.func.value.attr
                    n += 1
                    ctx.check(not (shares and cont in shared), "C13-H1", ctx.site(SUB, fn, c),
                              f"{cls}.__enter__ calls {cont}.{c.func.attr}() on a container shared with the input mesh",
                              f"RawMeshData(mesh) shares the mesh's containers: `{au.src(c)}` empties the *input* mesh's {cont} "
                              f"(the mesh passed in is left with faces but no corners - half-updated, neither unchanged nor equal to the result)")
        if n == 0:
            ctx.ok("C13-H1", ctx.site(SUB, fn), f"{cls}.__enter__ does not mutate shared containers")
    # wrapper returns the re-instantiated mesh
    fn = repo.func(SUB, "split_double_boundary_edges_triangles")
    site = ctx.site(SUB, fn)
    p = au.params(fn)[0]
    withs = [st for st in au.stmts(fn.body) if isinstance(st, ast.With)]
    alias_name = None
    for w in withs:
        for it in w.items:
            if isinstance(it.context_expr, ast.Call) and au.call_tail(it.context_expr) == "SurfaceSubdivision" and it.optional_vars is not None:
                alias_name = it.optional_vars.id
    rets = [st for st in au.stmts(fn.body) if isinstance(st, ast.Return) and st.value is not None]
    if alias_name and rets:
        last = rets[-1]
        rebinds = any(isinstance(st, ast.Assign) and isinstance(st.targets[0], ast.Name) and st.targets[0].id == p
                      and au.src(st.value) == f"{alias_name}.mesh" for st in au.stmts(fn.body))
        ok = au.src(last.value) == f"{alias_name}.mesh" or rebinds
        ctx.check(ok, "C13-H1", ctx.site(SUB, fn, last),
                  "split_double_boundary_edges_triangles returns its input mesh instead of the mesh re-instantiated by the editing block",
                  "after the editing block the refined, valid mesh is the editor's; the object passed in has new faces but stale "
                  "corners and connectivity (half-updated)")
    else:
        ctx.fail("C13-H1", site, "split_double_boundary_edges_triangles no longer edits through `with SurfaceSubdivision(mesh) as ...`", "")


# ---------------------------------------------------------------------------- S1
def _adds_faces_without_edges(fn):
    """does the method store / append face rows into self.mesh.faces without appending edges in the same block?"""
    for st in au.stmts(fn.body):
        is_face_write = (isinstance(st, ast.Expr) and isinstance(st.value, ast.Call) and au.call_tail(st.value) == "append"
                         and au.src(st.value.func.value) == "self.mesh.faces") or \
                        (isinstance(st, ast.Assign) and isinstance(st.targets[0], ast.Subscript) and au.src(st.targets[0].value) == "self.mesh.faces")
        if is_face_write:
            fnbody_edges = any(au.call_tail(c) in ("append", "extend") and au.src(c.func.value) == "self.mesh.edges" for c in au.calls(fn))
            blk, _ = au.enclosing_block(st)
            same_block = any(au.call_tail(c) in ("append",) and au.src(c.func.value) == "self.mesh.edges" for s in blk for c in au.calls(s))
            if not same_block:
                # edges appended elsewhere in the same straight-line function body (split_face_as_fan) also count
                top_level = any(any(au.call_tail(c) == "append" and au.src(c.func.value) == "self.mesh.edges" for c in au.calls(s)) for s in fn.body)
                if not top_level:
                    return True
    return False


def _rebinds_mesh_without_edges(fn):
    """`self.mesh = X` where X is a fresh RawMeshData whose edges are never filled in this method"""
    for st in au.stmts(fn.body):
        if isinstance(st, ast.Assign) and au.is_self_attr(st.targets[0], "mesh") and isinstance(st.value, ast.Name):
            x = st.value.id
            filled = any((isinstance(s, ast.AugAssign) and au.src(s.target) == f"{x}.edges") or
                         any(au.call_tail(c) in ("append", "extend") and au.src(c.func.value) == f"{x}.edges" for c in au.calls(s))
                         for s in au.stmts(fn.body))
            if not filled:
                return True
    return False


def s1_edge_completeness(ctx):
    from ..flow import Flow, TOP
    repo = ctx.repo
    cls = repo.cls(SUB, "SurfaceSubdivision")
    methods = {st.name: st for st in cls.body if isinstance(st, ast.FunctionDef)}
    # summaries, to a fixpoint over self-calls: may the method leave faces whose sides are not all edges?
    breaks = {n: (_adds_faces_without_edges(f) or _rebinds_mesh_without_edges(f)) for n, f in methods.items()}
    completes_last = {}
    changed = True
    while changed:
        changed = False
        for n, f in methods.items():
            if breaks[n]:
                continue
            for c in au.calls(f):
                if isinstance(c.func, ast.Attribute) and au.is_self_attr(c.func) and breaks.get(c.func.attr):
                    breaks[n] = True
                    changed = True
    # methods that need complete edges: build a dict keyed by keyify(edge) while iterating self.mesh.edges / id_edges and
    # read it with keyify of face sides
    needing = []
    for n, f in methods.items():
        iter_edges = [st for st in au.stmts(f.body) if isinstance(st, ast.For) and au.src(st.iter) in ("self.mesh.edges", "self.mesh.id_edges")]
        lookups = [x for x in au.walk(f) if isinstance(x, ast.Subscript) and isinstance(x.ctx, ast.Load) and isinstance(x.slice, ast.Call)
                   and au.call_tail(x.slice) == "keyify" and isinstance(x.value, ast.Name)]
        if iter_edges and lookups:
            needing.append((n, f, iter_edges))
    ctx.require_count("C13-S1 methods cutting every edge", len(needing), 2)
    for n, f, iter_edges in needing:
        bad = []

        def stmt(state, st, _bad=bad):
            if state is TOP:
                return state
            if hasattr(st, "loop"):
                if au.src(st.iter) in ("self.mesh.edges", "self.mesh.id_edges") and "complete" not in state:
                    _bad.append(st.loop)
                return state
            for c in sorted(au.calls(st), key=lambda c: (c.lineno, c.col_offset)):
                if isinstance(c.func, ast.Attribute):
                    if c.func.attr in ("_complete_edges_from_faces", "prepare") and au.src(c.func.value) == "self.mesh":
                        state = state | {"complete"}
                    elif au.is_self_attr(c.func) and breaks.get(c.func.attr):
                        state = state - {"complete"}
            if isinstance(st, ast.Assign) and au.is_self_attr(st.targets[0], "mesh"):
                # a freshly built mesh: complete iff its edges were filled from the edges of its faces in this method (C13-T1 checks that table)
                x = st.value.id if isinstance(st.value, ast.Name) else None
                filled = x is not None and any(isinstance(s2, ast.AugAssign) and au.src(s2.target) == f"{x}.edges" for s2 in au.stmts(f.body))
                state = (state | {"complete"}) if filled else (state - {"complete"})
            return state
        Flow(stmt).run(f.body, frozenset())
        site = ctx.site(SUB, f)
        ctx.check(not bad, "C13-S1", site,
                  f"SurfaceSubdivision.{n} cuts `every edge` of a mesh whose edge list may miss sides of its faces",
                  "the method halves every edge of self.mesh.edges and then looks up the midpoint of every side of every face; "
                  "faces added by triangulate() (quad diagonals) or by a previous 1-to-3-quads step have sides that are not in the "
                  "edge list yet (edges are only completed by prepare()): KeyError on any quad mesh / on the second repetition",
                  note=f"{n}: edges completed before being cut")


# ---------------------------------------------------------------------------- D1
def d1_dispatch(ctx):
    from .. import order
    repo = ctx.repo
    fn = repo.func(SUB, "SurfaceSubdivision.triangulate_face")
    site = ctx.site(SUB, fn)
    b = sym.Bindings(fn)
    # classify what happens for n = 3..7 by evaluating the if/elif chain on len(F)
    from ..rules.c1120_util import paths as _paths
    ok = False
    if True:
        def symf(node):
            r = b.resolve(node, at=fn.body[-1])
            if isinstance(r, ast.Call) and au.call_tail(r) == "len" and au.src(b.resolve(r.args[0], at=fn.body[-1])).startswith("self.mesh.faces["):
                return "n"
            raise order.Unsupported(au.src(node))

        def action(path):
            body = path.stmts
            if any(au.call_tail(c) == "split_face_as_fan" for s_ in body for c in au.calls(s_)):
                return "fan"
            if any(au.call_tail(c) == "append" and au.src(c.func.value) == "self.mesh.faces" for s_ in body for c in au.calls(s_)):
                return "diag"
            if path.end == "return" or not any(isinstance(s_, (ast.Assign, ast.AugAssign)) and "faces" in au.src(s_) for s_ in body):
                return "none"
            return "?"
        try:
            res = {}
            ps = _paths(fn.body)
            for n in (3, 4, 5, 6, 7):
                pred = order.Pred(symf)
                taken = [p_ for p_ in ps if all(bool(pred.eval(t, {"n": n})) == pol for t, pol, kind in p_.guards if kind == "if")]
                res[n] = action(taken[0]) if len(taken) == 1 else "?"
            ok = res == {3: "none", 4: "diag", 5: "fan", 6: "fan", 7: "fan"}
        except order.Unsupported:
            ok = False
    ctx.check(ok, "C13-D1", site, "triangulate_face does not dispatch `triangle: nothing, quad: diagonal split, larger: fan`",
              "every non-triangular face must be triangulated, triangles must be left alone", note="arity dispatch 3/4/5+")
    # gates of the tetrahedral operations
    for q, what, k in (("VolumeSubdivision.split_cell_as_fan", "self.mesh.cells[", 4), ("VolumeSubdivision.split_tet_from_face_center", "self.mesh.faces[", 3)):
        fn = repo.func(SUB, q)
        b = sym.Bindings(fn)
        ok = False
        for st in fn.body:
            if isinstance(st, ast.If) and st.body and isinstance(st.body[-1], ast.Return) and not st.orelse:
                def symf(node, _st=st, _b=b, _what=what):
                    r = _b.resolve(node, at=_st)
                    if isinstance(r, ast.Call) and au.call_tail(r) == "len" and au.src(_b.resolve(r.args[0], at=_st)).startswith(_what):
                        return "n"
                    raise order.Unsupported(au.src(node))
                try:
                    w, _ = order.compare(st.test, f"n != {k}", symf)
                    ok = ok or w is None
                except order.Unsupported:
                    pass
        ctx.check(ok, "C13-D1", ctx.site(SUB, fn), f"{q.split('.')[-1]} does not return untouched unless the element has exactly {k} vertices",
                  "the operation is defined on tetrahedra / triangles only; other elements must be left alone", note=f"gate len != {k}")
    # split_tet_from_face_center: the three new cells go to slot c and two appends, all distinct
    fn = repo.func(SUB, "VolumeSubdivision.split_tet_from_face_center")
    used = []
    for st in au.stmts(fn.body):
        v = None
        if isinstance(st, ast.Assign) and isinstance(st.targets[0], ast.Subscript) and au.src(st.targets[0].value) == "self.mesh.cells":
            v = ("store", st.value)
        elif isinstance(st, ast.Expr) and isinstance(st.value, ast.Call) and au.call_tail(st.value) == "append" \
                and au.src(st.value.func.value) == "self.mesh.cells":
            v = ("append", st.value.args[0])
        if v and isinstance(v[1], ast.Subscript) and isinstance(v[1].value, ast.Name):
            used.append((v[0], v[1].value.id, au.const(v[1].slice)))
    ok = len(used) == 3 and len({u[1] for u in used}) == 1 and sorted(u[2] for u in used) == [0, 1, 2] \
        and sorted(u[0] for u in used) == ["append", "append", "store"]
    ctx.check(ok, "C13-D1", ctx.site(SUB, fn), f"the three tetrahedra replacing a cell are not stored as one replacement and two appends of three distinct new cells ({used})",
              "a cell adjacent to the split face is replaced by exactly three tetrahedra", note="3 distinct new cells")
    # degree counting
    fn = repo.func(SUB, "split_double_boundary_edges_triangles")
    incs = {}
    for st in au.stmts(fn.body):
        if isinstance(st, ast.AugAssign) and isinstance(st.op, ast.Add) and au.const(st.value) == 1 and isinstance(st.target, ast.Subscript):
            loops = [a for a in au.ancestors(st) if isinstance(a, ast.For)]
            if loops and au.src(loops[0].iter).endswith(".edges") and not au.guards(st, stop=loops[0]):
                incs.setdefault(au.src(st.target.value), set()).add(au.src(st.target.slice))
                tgt = [x.id for x in loops[0].target.elts] if isinstance(loops[0].target, ast.Tuple) else []
    ok = any(v == set(tgt) and len(v) == 2 for v in incs.values()) if incs else False
    ctx.check(ok, "C13-D1", ctx.site(SUB, fn), "the vertex degree does not count both endpoints of every edge", "", note="degree counts both endpoints")
