"""C16 - cutting along singularities: faces in bijection, corners in place, only cut edges opened (structural clauses).

The topological outcome (one component, one border loop, Euler characteristic 1) is a global invariant of a graph computed
at run time and is NOT decided.  What is visible in the shape of `SingularityCutter._build_mesh_with_cuts` and of the cut
graph book-keeping, and is decided here for all inputs at once:
  * one output face per input face, in the same order, with the same number of corners, never added to or removed later;
  * the k-th corner of output face i is a vertex placed at the position of the k-th vertex of input face i;
  * vertex copies are merged only across interior edges that are not reported as cut, and a copy of `a` is only ever
    merged with another copy of `a`;
  * the cut-vertex -> original-vertex map is the inverse of the duplicate table filled corner by corner;
  * the cut graph is the complement of the dual spanning tree, symmetric, and pruning removes only non-singular leaves.

Every rule works on the flattened form of a method (msa/rules/hf_flat.py: private helpers, nested functions and generator helpers
inlined, aliases of attributes / bound methods resolved), finds its constructs by role and answers ok / fail (a recognised construct
contradicts the obligation) / undecided (shape not understood).
"""
from __future__ import annotations
import ast
from .. import au, sym, order
from ..rules import common
from ..rules import skel0910 as sk
from ..rules import hf_flat, hf_roles as hr
from ..rules.hf_roles import FlatFn

CUT = "processing.cutting"
CLS = "SingularityCutter"

EXPLANATION = (
    "Static conformance of SingularityCutter, decided on the flattened form of each method: the structural clauses of the property "
    "(faces in bijection and in order, corner positions copied, merges only across non-cut interior edges and only between copies of "
    "the same vertex, reference map inverse of the duplicate table, cut-graph book-keeping and pruning of non-singular leaves, Kruskal "
    "over the singular vertices, dual Dijkstra skeleton, ownership of the exclusion sets and of the cut data). The topological clauses "
    "(disk, one border loop, Euler characteristic 1, connectivity of the cut graph) are NOT decided.")

RULES = {
    "C16-F1": "exactly one output face is appended per input face, unconditionally and in input order; later the rows are only rewritten element-wise at the same index",
    "C16-V1": "output face i is [k, k+1, .., k+n-1]; vertex k+j is appended with the position of the j-th vertex of input face i; the offset k starts at 0 and advances by n after the row",
    "C16-U1": "vertex copies are merged only for interior edges not in cut_edges, pairing the copy of a (resp. b) in one face with the copy of a (resp. b) in the other",
    "C16-M1": "compaction renumbers merged copies in order of first appearance; ref_vertex is the inverse of the duplicate table mapped through the same renumbering",
    "C16-K1": "Kruskal over the singular vertices and the border sentinel: every pair / border candidate is recorded and weighed unconditionally, sorted ascending, selected exactly when its ends are not yet connected (record + union under one test), and every consecutive pair of every selected path is flagged",
    "C16-K2": "with features: every singular vertex is linked to the feature graph by a fully flagged path; the feature graph is spanned breadth-first from every landing point, each tree edge flagged",
    "C16-D1": "the two dual Dijkstra loops satisfy the skeleton obligations of C09-D1..D4 (pop-min, visited discipline, strict relaxation with label+predecessor under one test, push of the updated label)",
    "C16-D2": "the dual tree never crosses an edge of the singularity spanning tree, records the crossed edge as predecessor, reaches the face opposite across that edge, and returns every recorded edge",
    "C16-A1": "the exclusion set a spanning tree borrows from its caller is never mutated by the tree; cut_edges / cut_adj / ref_vertex are written only by the cutter itself",
    "C16-R1": "the face spanning tree / forest that delimits the feature regions obeys the breadth-first skeleton of C10 (never crosses a forbidden edge, "
              "marks and parents each face once, children / edges built from the parent table)",
    "C16-C1": "cut edges = all edges minus the dual-tree edges; the cut adjacency is symmetric; pruning removes only leaves that are not singular, symmetrically, together with their edge",
}

OUTF = "self._output_mesh.faces"
OUTV = "self._output_mesh.vertices"
INF = "self.input_mesh.faces"


class _AnchorGone(Exception):
    """a private method the rules are anchored on does not exist under its name any more (merged / renamed by a refactoring)"""


def run(ctx):
    ctx = hr.Gate(ctx)
    for rule_fn, rid in ((f1_v1_faces_and_corners, "C16-F1"), (u1_merges, "C16-U1"), (m1_maps, "C16-M1"), (c1_cut_graph, "C16-C1"),
                         (k1_spanning_tree_no_features, "C16-K1"), (k2_spanning_tree_with_features, "C16-K2"), (d1_dual_trees, "C16-D1"),
                         (r1_region_tree, "C16-R1")):
        try:
            rule_fn(ctx)
        except _AnchorGone as ex:
            ctx.undecided(rid, ctx.site(CUT, CLS), f"the private method `{ex}` of the cutter the rule is written about is not found under this name", "")
    a1_ownership(getattr(ctx, "_ctx", ctx))        # a specific statement outside the cutter is the finding: not subject to the subset gate


def _absent(ctx, F, region, rule, site, construct, what):
    """report that something is missing: a violation only when the region is fully visible to the rules, undecided otherwise"""
    if F.opaque(region):
        ctx.undecided(rule, site, construct, "part of the code concerned is not visible to the rule (a helper that was not inlined, a staged list ..)")
    else:
        ctx.fail(rule, site, construct, what)


def _fn(ctx, name):
    if not ctx.repo.has_func(CUT, f"{CLS}.{name}"):
        raise _AnchorGone(name)
    return ctx.repo.func(CUT, f"{CLS}.{name}")


def _flat(ctx, name):
    fn0 = _fn(ctx, name)
    cache = getattr(ctx.repo, "_hf_flatfn", None)
    if cache is None:
        cache = ctx.repo._hf_flatfn = {}
    k = (CUT, id(fn0))
    if k not in cache:
        from . import c09
        c09._flat(ctx, CUT, fn0)          # the same flattened function as the Dijkstra rules use (heapq calls written as queue operations)
    return fn0, cache[k]


# --------------------------------------------------------------------------------------------- traversals
def _traversal(F, lp, container):
    """`lp` visits every element of `container` (a table key such as self.input_mesh.faces) in order:
    for x in C -> (None, x) ; for i, x in enumerate(C) -> (i, x) ; for i in range(len(C)) / C-ids -> (i, None).  None otherwise."""
    it, tg = lp.iter, lp.target
    if F.table_key(it, lp) == container and isinstance(tg, ast.Name):
        return (None, tg.id)
    if isinstance(it, ast.Call) and au.call_tail(it) == "enumerate" and len(it.args) == 1 and F.table_key(it.args[0], lp) == container \
            and isinstance(tg, ast.Tuple) and len(tg.elts) == 2 and all(isinstance(x, ast.Name) for x in tg.elts):
        return (tg.elts[0].id, tg.elts[1].id)
    if isinstance(it, ast.Call) and au.call_tail(it) == "range" and len(it.args) == 1 and isinstance(tg, ast.Name):
        n = F.b.resolve(it.args[0], at=lp, keep=("self",))
        if isinstance(n, ast.Call) and au.call_tail(n) == "len" and len(n.args) == 1 and F.table_key(n.args[0], lp) == container:
            return (tg.id, None)
    if isinstance(tg, ast.Name) and isinstance(it, ast.Attribute) and it.attr.startswith("id_") and container.endswith("." + it.attr[3:]) \
            and F.table_key(it.value, lp) == container.rsplit(".", 1)[0]:
        return (tg.id, None)
    return None


def _is_row(F, e, at, container, idx, row):
    """expression e denotes the row of the traversal: the row variable, or container[idx]"""
    if isinstance(e, ast.Name) and row is not None and F.root(e.id, at) == row:
        return True
    if isinstance(e, ast.Subscript) and idx is not None and isinstance(e.slice, ast.Name) and F.root(e.slice.id, at) == idx \
            and F.table_key(e.value, at) == container:
        return True
    if isinstance(e, ast.Name):
        d = F.b.reaching(e.id, at)
        if d is not None and not isinstance(d, ast.Name):
            return _is_row(F, d, at, container, idx, row)
    return False


def _offset_discipline(F, lp, k, row_len_of):
    """the offset variable k starts at 0 before `lp`, is advanced exactly once per iteration by the size of the row, after its uses:
    True / False (recognised violation, text) / None"""
    incs = [s for s in au.stmts(lp.body) if (i := au.increment(s)) is not None and i[0] == k]
    others = [s for s in au.stmts(lp.body) if k in [n for t in au.assign_targets(s) for n in au.assigned_names(t)] and au.increment(s) is None]
    if others or not str(k).isidentifier() or k not in F.b.count:
        return None
    if len(incs) != 1:
        # never advanced: a name bound once (before the loop) and left alone
        return (False, "the running offset is not advanced exactly once per face") if not incs and F.b.count.get(k) == 1 \
            and F.b.reaching(k, lp) is not None else None
    inc = incs[0]
    if not any(inc is s for s in lp.body):
        return None
    _, sign, amount = au.increment(inc)
    amt = F.b.resolve(amount, at=inc, keep=("self",))
    if not (sign == 1 and row_len_of(amt)):
        c = order.fold_const(amt)
        if c is not None:
            return (False, f"the running offset advances by the constant {c:g}, not by the number of corners of the face")
        return None
    uses = [n for n in au.walk(lp) if isinstance(n, ast.Name) and n.id == k and isinstance(n.ctx, ast.Load) and au.enclosing_stmt(n) is not inc]
    if any(F.before(inc, u) for u in uses):
        return None         # used after the increment: the uses may compensate (k - len + j)
    init = F.b.reaching(k, lp)
    if init is None:
        return None
    if au.const(init) is None or isinstance(au.const(init), bool):
        return None
    if au.const(init) != 0:
        return (False, "the running offset does not start at 0")
    return True


def _out_mesh(F):
    """table key of the mesh object that is being built: the name / attribute bound to RawMeshData()"""
    keys = []
    for st in au.stmts(F.fn.body):
        if isinstance(st, (ast.Assign, ast.AnnAssign)) and isinstance(st.value, ast.Call) and au.call_tail(st.value) == "RawMeshData" and not st.value.args:
            for t in au.assign_targets(st):
                if isinstance(t, ast.Name):
                    keys.append(t.id)
                elif isinstance(t, ast.Attribute):
                    keys.append(au.src(t))
    return keys[0] if len(keys) == 1 else None


def _mesh_key(F, e, at, OUT):
    """table key of expression e with every alias of the output mesh written as OUT"""
    k = F.table_key(e, at)
    if isinstance(e, ast.Attribute):
        base = F.table_key(e.value, at)
        if base == OUT or (isinstance(e.value, ast.Name) and F.root(e.value.id, at) == OUT):
            return OUT + "." + e.attr
    return k


class _Corners:
    """numbering of the corners in a traversal `for F in faces: for [j,] v in [enumerate](F)` of the input faces:
    corner j of face i has number N(i, j) = (number of corners of the faces before i) + j.  An expression denotes N(i, j) when it is
      (A) k + j   with k an offset that starts at 0 and advances by len(F) once per face after its uses, j the enumerate / range index;
      (B) c       a counter that starts at 0 and advances by 1 once per corner after its uses."""

    def __init__(self, F, face_loop, idx, row):
        self.F, self.lp, self.idx, self.row = F, face_loop, idx, row

    def is_len_row(self, e):
        return isinstance(e, ast.Call) and au.call_tail(e) == "len" and len(e.args) == 1 and _is_row(self.F, e.args[0], self.lp, INF, self.idx, self.row)

    def corner_loops(self):
        """[(loop, index name or None, vertex name)] : loops over the corners of the current face (inside the face loop)"""
        out = []
        for s in au.stmts(self.lp.body):
            if not isinstance(s, ast.For):
                continue
            it = s.iter
            if _is_row(self.F, it, s, INF, self.idx, self.row) and isinstance(s.target, ast.Name):
                out.append((s, None, s.target.id))
            elif isinstance(it, ast.Call) and au.call_tail(it) == "enumerate" and len(it.args) == 1 and _is_row(self.F, it.args[0], s, INF, self.idx, self.row) \
                    and isinstance(s.target, ast.Tuple) and len(s.target.elts) == 2 and all(isinstance(x, ast.Name) for x in s.target.elts):
                out.append((s, s.target.elts[0].id, s.target.elts[1].id))
            elif isinstance(it, ast.Call) and au.call_tail(it) == "range" and len(it.args) == 1 and isinstance(s.target, ast.Name) \
                    and self.is_len_row(self.F.b.resolve(it.args[0], at=s, keep=("self", self.row or "_"))):
                out.append((s, s.target.id, None))
        return out

    def counter(self, c, cl):
        """c is a per-corner counter of the corner loop cl: True | (False, text) | None"""
        F = self.F
        incs = [s for s in au.stmts(self.lp.body) if (i := au.increment(s)) is not None and i[0] == c]
        others = [s for s in au.stmts(self.lp.body) if c in [n for t in au.assign_targets(s) for n in au.assigned_names(t)] and au.increment(s) is None]
        if others or len(incs) != 1:
            return None
        inc = incs[0]
        if not any(inc is s for s in cl.body):
            return None
        _, sign, amount = au.increment(inc)
        if sign != 1 or au.const(amount) != 1:
            return None
        uses = [n for n in au.walk(cl) if isinstance(n, ast.Name) and n.id == c and isinstance(n.ctx, ast.Load) and au.enclosing_stmt(n) is not inc]
        if any(F.before(inc, u) for u in uses):
            return None         # used after the increment: the uses may compensate (counter - 1)
        init = F.b.reaching(c, self.lp)
        if init is None:
            return None
        if au.const(init) is None or isinstance(au.const(init), bool):
            return None
        if au.const(init) != 0:
            return (False, "the corner counter does not start at 0")
        return True

    def number(self, e, at):
        """does expression e (evaluated at `at`, inside a corner loop) denote N(i, j)?  True | (False, text) | None"""
        F = self.F
        cls_ = [c for c in self.corner_loops() if F.inside(at, c[0])]
        if len(cls_) != 1:
            return None
        cl, j, v = cls_[0]
        er = F.resolve(e, at, keep=tuple(x for x in (j, v, self.row) if x))
        p = sym.to_poly(er)
        names = [a for a in p.atoms()]
        if j is not None and j in names:
            rest = [a for a in names if a != j]
            if len(rest) == 1 and rest[0].isidentifier() and p == sym.Poly.atom(rest[0]) + sym.Poly.atom(j):
                return _offset_discipline(F, self.lp, rest[0], self.is_len_row)
            return None
        if len(names) == 1 and names[0].isidentifier() and p == sym.Poly.atom(names[0]):
            c = names[0]
            r = self.counter(c, cl)
            if r is None and j is not None:
                od = _offset_discipline(F, self.lp, c, self.is_len_row)
                if od is True:
                    return (False, "the corner index is missing: every corner of the face gets the number of its first corner")
            return r
        return None


def _is_trivial_guard(F, e, p, at):
    """a guard that cannot select corners / faces by their identity: a None test, a comparison of lengths"""
    if isinstance(e, ast.Compare) and len(e.ops) == 1 and isinstance(e.ops[0], (ast.Is, ast.IsNot)) and hr.is_none(e.comparators[0]):
        return True
    er = F.resolve(e, at, keep=("self",))
    if isinstance(er, ast.Compare) and len(er.ops) == 1 and isinstance(er.ops[0], (ast.Eq, ast.LtE, ast.GtE)) and au.src(er.left) == au.src(er.comparators[0]):
        return True             # x == x
    return False


def f1_v1_faces_and_corners(ctx):
    fn0, F = _flat(ctx, "_build_mesh_with_cuts")
    fn = F.fn
    site = ctx.site(CUT, fn0)
    b = F.b

    def S(n):
        return ctx.site(CUT, fn0, n)
    OUT = _out_mesh(F)
    if OUT is None:
        ctx.undecided("C16-F1", site, "the mesh object that is being built is not recognised", "no single `<x> = RawMeshData()`")
        return
    OF, OV = OUT + ".faces", OUT + ".vertices"

    def tk(e, at):
        return _mesh_key(F, e, at, OUT)
    apps = [c for c in au.calls(fn) if au.call_tail(c) == "append" and isinstance(c.func, ast.Attribute) and tk(c.func.value, c) == OF and len(c.args) == 1]
    lp = None
    trav = None
    if len(apps) == 1:
        loops = [a for a in au.ancestors(apps[0]) if isinstance(a, (ast.For, ast.While))]
        trav = _traversal(F, loops[0], INF) if len(loops) == 1 and isinstance(loops[0], ast.For) else None
        if trav is None:
            ctx.undecided("C16-F1", site, "the loop that creates the output faces is not a traversal of the input faces", "")
        else:
            lp = loops[0]
            conds = F.conds(apps[0], stop=lp)
            lvars_ = set(au.assigned_names(lp.target))
            if conds and not any((au.names(e_) | au.names(F.resolve(e_, apps[0], keep=tuple(lvars_) + ("self",)))) & lvars_ for e_, p_ in conds):
                ctx.undecided("C16-F1", S(apps[0]), "the output faces are created under a condition that does not depend on the face", "")
            elif conds and all(_is_trivial_guard(F, e_, p_, apps[0]) for e_, p_ in conds):
                ctx.undecided("C16-F1", S(apps[0]), "the output faces are created under a sanity test the rule cannot evaluate", "")
            elif conds:
                ctx.fail("C16-F1", S(apps[0]), "output faces are not appended exactly once per input face, unconditionally, in input order",
                         "the cut mesh must have exactly the input faces in the same order: a face is created only under a condition")
            elif au.raw_guards(lp):
                ctx.undecided("C16-F1", S(lp), "the loop that creates the output faces is conditional", "")
            else:
                ctx.ok("C16-F1", site, "one append per input face")
    elif not apps:
        ctx.undecided("C16-F1", site, "the creation of the output faces is not recognised", "no append to the faces of the output mesh")
    else:
        ctx.undecided("C16-F1", site, "the output faces are appended at several places", f"{len(apps)} appends")
    # no other structural edit of the face container
    bad = [c for c in au.calls(fn) if isinstance(c.func, ast.Attribute) and tk(c.func.value, c) == OF
           and c.func.attr in ("pop", "remove", "insert", "sort", "reverse")]
    cleared = [c for c in au.calls(fn) if isinstance(c.func, ast.Attribute) and tk(c.func.value, c) == OF and c.func.attr == "clear"]
    if cleared:
        ctx.undecided("C16-F1", site, "the output face container is emptied and filled again", "")
    bad += [st for st in au.stmts(fn.body) if isinstance(st, ast.Delete) and any(isinstance(t, ast.Subscript) and tk(t.value, st) == OF for t in st.targets)]
    ctx.check(not bad, "C16-F1", site, "the output face container is structurally edited after the faces were created",
              "faces would no longer be in bijection with the input faces", note="faces never removed / reordered")
    # rewrites: faces[i] = <element-wise image of row i>
    for st, tg, val in hr.item_stores(fn):
        if tk(tg.value, st) != OF or val is None:
            continue
        loops = [a for a in au.ancestors(st) if isinstance(a, ast.For)]
        tr = _traversal_k(F, loops[0], OF, tk) if loops else None
        if tr is None or tr[0] is None or not (isinstance(tg.slice, ast.Name) and F.root(tg.slice.id, st) == tr[0]):
            ctx.undecided("C16-F1", S(st), "a row of the output faces is rewritten outside a traversal of the faces by index", "")
            continue
        verdict = _elementwise(F, val, st, loops[0], tr[0], tr[1], OF, tk)
        if F.conds(st, stop=loops[0]):
            verdict = None
        if verdict is True:
            ctx.ok("C16-F1", S(st), "row rewritten element-wise in place")
        elif verdict is None:
            ctx.undecided("C16-F1", S(st), "the new value of a row of the output faces is not recognised as an element-wise image of the old row", "")
        else:
            ctx.fail("C16-F1", S(st), "a row of the output faces is not rewritten element by element from its own old entries",
                     f"corner k of output face i must stay the image of corner k of input face i: {verdict}")
    if lp is None:
        return
    iF, Frow = trav
    if Frow is None:
        ctx.undecided("C16-V1", S(lp), "the faces are visited by index only", "")
        return
    CN = _Corners(F, lp, iF, Frow)
    # ---- V1: the row of face i is [N(i,0), .., N(i,n-1)]
    row = apps[0].args[0]
    okrow = None
    why = ""
    if isinstance(row, ast.ListComp) and len(row.generators) == 1 and isinstance(row.generators[0].target, ast.Name) and not row.generators[0].ifs:
        j = row.generators[0].target.id
        p = sym.to_poly(row.elt)
        itr = row.generators[0].iter
        if isinstance(itr, ast.Call) and au.call_tail(itr) == "range" and len(itr.args) == 1:
            n_ = b.resolve(itr.args[0], at=apps[0], keep=(Frow, "self"))
            if p.coeff(j) == sym.Poly.const(1):
                rest = p.without(j)
                ats = rest.atoms()
                if len(ats) == 1 and rest == sym.Poly.atom(next(iter(ats))):
                    if CN.is_len_row(n_):
                        okrow = _offset_discipline(F, lp, next(iter(ats)), CN.is_len_row)
                    elif order.fold_const(n_) is not None:
                        okrow = (False, "the row has a constant number of entries, not one per corner of the face")
            elif j not in au.names(row.elt) and not any(isinstance(n, (ast.Call, ast.NamedExpr, ast.Yield, ast.Await)) for n in ast.walk(row.elt)):
                okrow = (False, "every entry of the row is the same number")
    elif isinstance(row, ast.Call) and au.call_tail(row) == "list" and len(row.args) == 1 and isinstance(row.args[0], ast.Call) \
            and au.call_tail(row.args[0]) == "range" and len(row.args[0].args) == 2:
        lo, hi = (sym.to_poly(b.resolve(x, at=apps[0], keep=(Frow, "self")), atom_of=lambda e: "LEN" if CN.is_len_row(e) else None) for x in row.args[0].args)
        if len(lo.atoms()) == 1 and lo == sym.Poly.atom(next(iter(lo.atoms()))) and (hi - lo) == sym.Poly.atom("LEN"):
            okrow = _offset_discipline(F, lp, next(iter(lo.atoms())), CN.is_len_row)
    elif isinstance(row, ast.Name):
        # a local list filled with the corner numbers, one per corner
        d = b.reaching(row.id, apps[0])
        fresh = (isinstance(d, ast.List) and not d.elts) or (isinstance(d, ast.Call) and au.call_tail(d) == "list" and not d.args)
        fills = [c for c in au.calls(lp) if au.call_tail(c) == "append" and isinstance(c.func.value, ast.Name) and c.func.value.id == row.id and len(c.args) == 1]
        inside_face = fresh and any(getattr(b, "_last_def_stmt", None) is s for s in lp.body)
        if inside_face and len(fills) == 1:
            cls_ = [c for c in CN.corner_loops() if F.inside(fills[0], c[0])]
            if cls_ and not F.conds(fills[0], stop=lp):
                okrow = CN.number(fills[0].args[0], fills[0])
            elif cls_:
                okrow = (False, "a corner enters the row only under a condition")
    if okrow is True:
        ctx.ok("C16-V1", S(apps[0]), "fresh copy per corner, numbered in order")
    elif okrow is None:
        ctx.undecided("C16-V1", S(apps[0]), "the row created for an input face is not recognised", "")
    else:
        ctx.fail("C16-V1", S(apps[0]), "output face i is not the list of the numbers of its own corners, in order",
                 "every corner of every face gets its own vertex copy before merging, copies of different faces must not overlap: " + okrow[1])
    # ---- vertices: one append per corner, in a traversal faces x corners, with the position of the corner
    vapps = [c for c in au.calls(fn) if au.call_tail(c) == "append" and isinstance(c.func, ast.Attribute) and tk(c.func.value, c) == OV and len(c.args) == 1]
    if len(vapps) == 1:
        va = vapps[0]
        fl = [a for a in au.ancestors(va) if isinstance(a, ast.For)]
        tr_f = _traversal(F, fl[-1], INF) if fl else None
        if tr_f is None or len(fl) != 2:
            ctx.undecided("C16-V1", S(va), "the vertex copies are not created in a traversal faces x corners of the input faces", "")
        else:
            CN2 = CN if fl[-1] is lp else _Corners(F, fl[-1], tr_f[0], tr_f[1])
            cls_ = [c for c in CN2.corner_loops() if c[0] is fl[0]]
            if not cls_ or cls_[0][2] is None:
                ctx.undecided("C16-V1", S(va), "the vertex copies are not created in a loop over the corners of the face", "")
            elif F.conds(va, stop=fl[-1]) and not any((au.names(e_) | au.names(F.resolve(e_, va, keep=tuple(au.assigned_names(fl[0].target)) + tuple(au.assigned_names(fl[-1].target)) + ("self",))))
                                                      & (set(au.assigned_names(fl[0].target)) | set(au.assigned_names(fl[-1].target)))
                                                      for e_, p_ in F.conds(va, stop=fl[-1])):
                ctx.undecided("C16-V1", S(va), "the vertex copies are created under a condition that does not depend on the corner", "")
            elif F.conds(va, stop=fl[-1]) and all(_is_trivial_guard(F, e_, p_, va) for e_, p_ in F.conds(va, stop=fl[-1])):
                ctx.undecided("C16-V1", S(va), "the vertex copies are created under a sanity test the rule cannot evaluate", "")
            elif F.conds(va, stop=fl[-1]):
                ctx.fail("C16-V1", S(va), "the copy made for corner j of face i is not appended once with the position of F[j]",
                         "a vertex copy is created only under a condition: the copies no longer correspond to the corners")
            else:
                cl, j, v = cls_[0]
                pos = F.resolve(va.args[0], va, keep=tuple(x for x in (v, j, tr_f[1]) if x))
                if isinstance(pos, ast.Subscript) and F.table_key(pos.value, va) == "self.input_mesh.vertices" and isinstance(pos.slice, ast.Name):
                    if pos.slice.id == v:
                        ctx.ok("C16-V1", S(va), "vertex copy of corner j at the position of F[j]")
                    else:
                        ctx.fail("C16-V1", S(va), "the copy made for corner j of face i is not appended once with the position of F[j]",
                                 "each output face must have the same corner positions as the input face: the position is read at another index")
                else:
                    ctx.undecided("C16-V1", S(va), "the position given to a vertex copy is not recognised", "")
    elif not vapps:
        ctx.undecided("C16-V1", site, "the creation of the vertex copies is not recognised", "")
    else:
        ctx.undecided("C16-V1", site, "vertex copies are appended at several places", "")
    # ---- the duplicate table: D[v].add(N(i, j)) for every corner
    adds = []
    for c in au.calls(fn):
        if au.call_tail(c) == "add" and isinstance(c.func.value, ast.Subscript) and isinstance(c.func.value.value, ast.Name) and len(c.args) == 1:
            loops = [a for a in au.ancestors(c) if isinstance(a, ast.For)]
            if len(loops) == 2 and _traversal(F, loops[-1], INF) is not None:
                adds.append((c, loops))
    if len(adds) != 1:
        ctx.undecided("C16-V1", site, "the table recording the copies of each input vertex is not recognised", f"{len(adds)} candidate(s)")
        return
    c, loops = adds[0]
    tr2 = _traversal(F, loops[-1], INF)
    CN3 = CN if loops[-1] is lp else _Corners(F, loops[-1], tr2[0], tr2[1])
    cls_ = [x for x in CN3.corner_loops() if x[0] is loops[0]]
    if not cls_ or cls_[0][2] is None:
        ctx.undecided("C16-V1", S(c), "the copies of each input vertex are not recorded in a loop over the corners of the face", "")
        return
    cl, j, v = cls_[0]
    key_ok = isinstance(c.func.value.slice, ast.Name) and c.func.value.slice.id == v
    num = CN3.number(c.args[0], c) if not F.conds(c, stop=loops[-1]) else None
    if key_ok and num is True:
        ctx.ok("C16-V1", S(c), "duplicates[v] gets the number of the corner")
    elif key_ok and isinstance(num, tuple):
        ctx.fail("C16-V1", S(c), "the duplicate table does not record the number of the corner under the original vertex of that corner", num[1])
    elif not key_ok and j is not None and isinstance(c.func.value.slice, ast.Name) and c.func.value.slice.id == j:
        ctx.fail("C16-V1", S(c), "the duplicate table does not record the number of the corner under the original vertex of that corner", "the table is keyed by the corner index")
    else:
        ctx.undecided("C16-V1", S(c), "what the duplicate table records is not recognised", "")


def _traversal_k(F, lp, container, tk):
    """_traversal with the container compared through the mesh-alias aware key function tk"""
    it, tg = lp.iter, lp.target
    if tk(it, lp) == container and isinstance(tg, ast.Name):
        return (None, tg.id)
    if isinstance(it, ast.Call) and au.call_tail(it) == "enumerate" and len(it.args) == 1 and tk(it.args[0], lp) == container \
            and isinstance(tg, ast.Tuple) and len(tg.elts) == 2 and all(isinstance(x, ast.Name) for x in tg.elts):
        return (tg.elts[0].id, tg.elts[1].id)
    if isinstance(it, ast.Call) and au.call_tail(it) == "range" and len(it.args) == 1 and isinstance(tg, ast.Name):
        n = F.b.resolve(it.args[0], at=lp, keep=("self",))
        if isinstance(n, ast.Call) and au.call_tail(n) == "len" and len(n.args) == 1 and tk(n.args[0], lp) == container:
            return (tg.id, None)
    return None


def _is_row_k(F, e, at, container, idx, row, tk):
    if isinstance(e, ast.Name) and row is not None and F.root(e.id, at) == row:
        return True
    if isinstance(e, ast.Subscript) and idx is not None and isinstance(e.slice, ast.Name) and F.root(e.slice.id, at) == idx and tk(e.value, at) == container:
        return True
    if isinstance(e, ast.Name):
        d = F.b.reaching(e.id, at)
        if d is not None and not isinstance(d, ast.Name):
            return _is_row_k(F, d, at, container, idx, row, tk)
    return False


def _elementwise(F, val, st, lp, idx, row, OF, tk):
    """val (assigned to faces[idx] inside traversal lp) is built from the old row one element per element, in order:
    True | None (unknown) | text of the recognised violation"""
    b = F.b
    v = val
    if isinstance(v, ast.Name):
        d = b.reaching(v.id, st)
        if isinstance(d, ast.List) and not d.elts or (isinstance(d, ast.Call) and au.call_tail(d) == "list" and not d.args):
            # a list filled by appends in an inner loop over the row
            apps = [c for c in au.calls(lp) if au.call_tail(c) == "append" and isinstance(c.func.value, ast.Name) and c.func.value.id == v.id]
            if len(apps) != 1:
                return None
            inner = [a for a in au.ancestors(apps[0]) if isinstance(a, ast.For) and F.inside(a, lp)]
            if len(inner) != 1 or not isinstance(inner[0].target, ast.Name):
                return None
            it = inner[0].iter
            if isinstance(it, ast.Call) and au.call_tail(it) == "map" and len(it.args) == 2:
                it = it.args[1]
            if not _is_row_k(F, it, inner[0], OF, idx, row, tk):
                return None
            if sk.path_conds(apps[0], stop=inner[0]):
                return "an element of the row is kept only under a condition"
            if not F.before(apps[0], st):
                return None
            return True
        if d is not None:
            v = d
    wrap = None
    while isinstance(v, ast.Call) and au.call_tail(v) in ("list", "tuple", "sorted", "set", "frozenset") and len(v.args) == 1 and not v.keywords:
        if au.call_tail(v) in ("sorted", "set", "frozenset"):
            wrap = au.call_tail(v)
        v = v.args[0]
    if isinstance(v, (ast.ListComp, ast.GeneratorExp)) and len(v.generators) == 1 and isinstance(v.generators[0].target, ast.Name):
        g = v.generators[0]
        it = g.iter
        if isinstance(it, ast.Call) and au.call_tail(it) == "map" and len(it.args) == 2:
            it = it.args[1]
        if not _is_row_k(F, it, st, OF, idx, row, tk):
            return None
        if g.ifs:
            if all(isinstance(t_, ast.Compare) and len(t_.ops) == 1 and isinstance(t_.ops[0], ast.In) and au.src(t_.left) == g.target.id
                   and any(isinstance(n_, ast.Subscript) and hr.same(n_.value, t_.comparators[0]) for n_ in ast.walk(v.elt)) for t_ in g.ifs):
                return None             # `[m[v] for v in F if v in m]` : a filter on the very map that is applied
            return "the comprehension filters the corners"
        if g.target.id not in au.names(v.elt):
            return "the new entries do not depend on the old ones"
        if wrap:
            return f"{wrap}(..) loses the order of the corners"
        return True
    if isinstance(v, ast.Call) and au.call_tail(v) == "map" and len(v.args) == 2 and _is_row_k(F, v.args[1], st, OF, idx, row, tk):
        return True if not wrap else f"{wrap}(..) loses the order of the corners"
    return None


# --------------------------------------------------------------------------------------------- C16-U1
def u1_merges(ctx):
    fn0, F = _flat(ctx, "_build_mesh_with_cuts")
    fn = F.fn
    site = ctx.site(CUT, fn0)

    def S(n):
        return ctx.site(CUT, fn0, n)
    OUT = _out_mesh(F)
    if OUT is None:
        ctx.undecided("C16-U1", site, "the mesh object that is being built is not recognised", "")
        return
    OF = OUT + ".faces"
    unions = [c for c in au.calls(fn) if au.call_tail(c) == "union" and len(c.args) == 2 and not any(isinstance(a_, ast.Starred) for a_ in c.args)]
    if not unions and [c for c in au.calls(fn) if au.call_tail(c) == "union"]:
        ctx.undecided("C16-U1", site, "the union calls that merge the vertex copies are not recognised", "")
        return
    if not unions:
        has_uf = any(isinstance(c, ast.Call) and au.call_tail(c) == "UnionFind" for c in au.calls(fn))
        finds = [c for c in au.calls(fn) if au.call_tail(c) == "find"]
        if F.impure_self_calls(fn) or F.opaque(fn) or not (has_uf and finds):
            ctx.undecided("C16-U1", site, "the merging of the vertex copies is not visible", "")
        else:
            ctx.fail("C16-U1", site, "vertex copies are never merged (no union call)", "every edge of the mesh is opened")
        return
    lps = [a for a in au.ancestors(unions[0]) if isinstance(a, ast.For)]
    if not lps:
        ctx.undecided("C16-U1", site, "merging is not done in a loop over the edges", "")
        return
    lp = lps[-1]
    # domain: interior edges, or all edges with an edge-level border test
    it, tg = lp.iter, lp.target
    e = None
    ends = None
    domain = None
    if isinstance(tg, ast.Name) and F.table_key(it, lp) == "self.input_mesh.interior_edges":
        e, domain = tg.id, "interior"
    elif isinstance(tg, ast.Name) and (F.table_key(it, lp) == "self.input_mesh.id_edges" or
                                       (isinstance(it, ast.Call) and au.call_tail(it) == "range" and "input_mesh.edges" in au.src(F.b.resolve(it.args[0], at=lp, keep=("self",))))):
        e, domain = tg.id, "all"
    elif isinstance(it, ast.Call) and au.call_tail(it) == "enumerate" and len(it.args) == 1 and F.table_key(it.args[0], lp) == "self.input_mesh.edges" \
            and isinstance(tg, ast.Tuple) and len(tg.elts) == 2 and isinstance(tg.elts[0], ast.Name):
        e, domain = tg.elts[0].id, "all"
        if isinstance(tg.elts[1], ast.Tuple) and len(tg.elts[1].elts) == 2 and all(isinstance(x, ast.Name) for x in tg.elts[1].elts):
            ends = [x.id for x in tg.elts[1].elts]
    if e is None:
        ctx.undecided("C16-U1", S(lp), "the loop that merges the vertex copies does not range over the edges in a recognised way", "")
        return
    role = {}
    for st in au.stmts(lp.body):
        if isinstance(st, ast.Assign) and isinstance(st.targets[0], ast.Tuple) and len(st.targets[0].elts) == 2 \
                and isinstance(st.value, ast.Subscript) and F.table_key(st.value.value, st) == "self.input_mesh.edges" \
                and isinstance(st.value.slice, ast.Name) and st.value.slice.id == e and all(isinstance(x, ast.Name) for x in st.targets[0].elts):
            ends = [x.id for x in st.targets[0].elts]
        if isinstance(st, ast.Assign) and isinstance(st.targets[0], ast.Tuple) and len(st.targets[0].elts) == 3 \
                and isinstance(st.value, ast.Call) and au.call_tail(st.value) == "direct_face" and len(st.value.args) == 3 \
                and au.const(st.value.args[2]) is True and all(isinstance(x, ast.Name) for x in st.targets[0].elts):
            def _arg_name(x_):
                return F.root(x_.id, st) if isinstance(x_, ast.Name) else au.src(x_)
            a, b_ = _arg_name(st.value.args[0]), _arg_name(st.value.args[1])
            names = [x.id for x in st.targets[0].elts]
            role[names[0]] = ("face", (a, b_))
            role[names[1]] = ("idx", a, (a, b_))
            role[names[2]] = ("idx", b_, (a, b_))
    if ends is None:
        ctx.undecided("C16-U1", S(lp), "the end points of the edge being closed are not recognised", "")
        return

    def classify(t, pol):
        """'cut-ok' | 'cut-bad' | 'border-ok' | 'border-bad' | 'vertex-border' | 'other' for a guard atom of a union"""
        if isinstance(t, ast.Compare) and len(t.ops) == 1 and isinstance(t.ops[0], ast.In) and isinstance(t.left, ast.Name) and t.left.id == e:
            tab = F.table_key(t.comparators[0], lp)
            if tab == "self.cut_edges":
                return "cut-ok" if not pol else "cut-bad"
            if tab == "self.input_mesh.boundary_edges":
                return "border-ok" if not pol else "border-bad"
            if tab == "self.input_mesh.interior_edges":
                return "border-ok" if pol else "border-bad"
        if isinstance(t, ast.Call) and au.call_tail(t) == "is_edge_on_border":
            return "border-ok" if not pol else "border-bad"
        # not (A and B and ..) / (not A or not B or ..): the merge is skipped when every conjunct holds
        conj = None
        if isinstance(t, ast.BoolOp) and isinstance(t.op, ast.And) and not pol:
            conj = list(t.values)
        elif isinstance(t, ast.BoolOp) and isinstance(t.op, ast.Or) and pol and all(isinstance(v_, ast.UnaryOp) and isinstance(v_.op, ast.Not) for v_ in t.values):
            conj = [v_.operand for v_ in t.values]
        if conj is not None:
            ks = [classify(v_, False) for v_ in conj]
            if all(k_ == "vertex-border" for k_ in ks):
                return "vertex-border"
            if "border-ok" in ks and all(k_ in ("border-ok", "vertex-border") for k_ in ks):
                return "border-ok"       # a border edge has its two end points on the border: the vertex tests are implied
            return "other"
        if isinstance(t, ast.BoolOp):
            return "other"
        if any(isinstance(n, ast.Call) and au.call_tail(n) == "is_vertex_on_border" for n in ast.walk(t)) or \
                any(isinstance(n, ast.Attribute) and n.attr in ("boundary_vertices", "is_vertex_on_border") for n in ast.walk(t)):
            return "vertex-border"
        x = t.left if isinstance(t, ast.Compare) and len(t.ops) == 1 and isinstance(t.ops[0], (ast.Is, ast.Eq)) and hr.is_none(t.comparators[0]) else None
        if x is not None and not pol:
            return "not-none"
        return "other"
    for c in unions:
        kinds = [classify(t, pol) for t, pol in F.conds(c, stop=lp)]
        if "cut-bad" in kinds:
            ctx.fail("C16-U1", S(c), "copies are merged across the edges that ARE in self.cut_edges",
                     "only the edges reported as cut may be opened, and every other interior edge must be closed")
        elif "vertex-border" in kinds:
            ctx.fail("C16-U1", S(c), "the merge across an edge depends on its end points lying on the border (a vertex test, not an edge test)",
                     "an interior edge whose two end points are border vertices is taken for a border edge and stays open although it is not "
                     "reported in cut_edges")
        elif "border-bad" in kinds:
            ctx.fail("C16-U1", S(c), "copies are merged only across border edges", "")
        elif "other" in kinds:
            ctx.undecided("C16-U1", S(c), "a merge of vertex copies has a guard the rule does not recognise", "")
        elif "cut-ok" not in kinds:
            _absent(ctx, F, lp, "C16-U1", S(c), "copies are merged across an edge without the test `edge not in self.cut_edges`",
                    "only the edges reported as cut may be opened, and every other interior edge must be closed")
        elif domain == "all" and "border-ok" not in kinds and "not-none" not in kinds:
            ctx.undecided("C16-U1", S(c), "merging ranges over all edges and relies on the border edges being cut edges", "")
        else:
            ctx.ok("C16-U1", S(c), "merge iff interior and not a cut edge")
        good = None
        verts = []
        for a in c.args:
            if isinstance(a, ast.Subscript) and isinstance(a.value, ast.Name):
                d_ = F.definition(a.value.id, c)          # face1 = out.faces[F1] ; face1[iA1]
                if isinstance(d_, ast.Subscript):
                    a = ast.Subscript(value=d_, slice=a.slice, ctx=ast.Load())
            if isinstance(a, ast.Subscript) and isinstance(a.value, ast.Subscript) and _mesh_key(F, a.value.value, c, OUT) == OF \
                    and isinstance(a.value.slice, ast.Name) and isinstance(a.slice, ast.Name):
                rf, ri = role.get(a.value.slice.id), role.get(a.slice.id)
                if rf and ri and rf[0] == "face" and ri[0] == "idx" and ri[2] == rf[1]:
                    verts.append((ri[1], rf[1]))
        if len(verts) == 2:
            good = verts[0][0] == verts[1][0] and verts[0][1] == (verts[1][1][1], verts[1][1][0]) and verts[0][0] in ends
            if not good and not all(x_ in ends for v_ in verts for x_ in (v_[0],) + tuple(v_[1])):
                good = None         # direct_face is called on names that are not the plain end points of the edge
        if good is True:
            ctx.ok("C16-U1", S(c), "copy of x in F1 merged with copy of x in F2")
        elif good is False:
            ctx.fail("C16-U1", S(c), "a merge does not pair the copy of one endpoint in the face on one side with the copy of the SAME endpoint on the other side",
                     "direct_face(a, b, True) returns (face, index of a, index of b): merging the copy of a with a copy of b collapses the edge")
        else:
            ctx.undecided("C16-U1", S(c), "the two vertex copies merged by a union are not recognised", "")
    merged = set()
    for c in unions:
        for a in c.args[:1]:
            if isinstance(a, ast.Subscript) and isinstance(a.slice, ast.Name):
                r = role.get(a.slice.id)
                if r:
                    merged.add(r[1])
    if merged == set(ends):
        ctx.ok("C16-U1", site, "both endpoints merged")
    elif merged and merged < set(ends) and len(unions) == 1:
        _absent(ctx, F, lp, "C16-U1", site, "only one end point of a closed edge is merged", "both endpoints of a closed edge must be merged")
    else:
        ctx.undecided("C16-U1", site, "which end points of a closed edge are merged is not recognised", "")


# --------------------------------------------------------------------------------------------- C16-M1
def m1_maps(ctx):
    fn0, F = _flat(ctx, "_build_mesh_with_cuts")
    fn = F.fn
    site = ctx.site(CUT, fn0)
    b = F.b

    def S(n):
        return ctx.site(CUT, fn0, n)
    OUT = _out_mesh(F)
    if OUT is None:
        ctx.undecided("C16-M1", site, "the mesh object that is being built is not recognised", "")
        return
    OF, OV = OUT + ".faces", OUT + ".vertices"

    def tk(e, at):
        return _mesh_key(F, e, at, OUT)
    ufn = [t.id for w in au.stmts(fn.body) if isinstance(w, (ast.Assign, ast.AnnAssign)) and isinstance(w.value, ast.Call) and au.call_tail(w.value) == "UnionFind"
           for t in au.assign_targets(w) if isinstance(t, ast.Name)]
    UF = ufn[0] if len(ufn) == 1 else None

    def is_find(e, of=None):
        return isinstance(e, ast.Call) and isinstance(e.func, ast.Attribute) and e.func.attr == "find" and isinstance(e.func.value, ast.Name) \
            and e.func.value.id == UF and len(e.args) == 1 and (of is None or au.src(e.args[0]) == of)

    def is_find_fn(e):
        return isinstance(e, ast.Attribute) and e.attr == "find" and isinstance(e.value, ast.Name) and e.value.id == UF
    # ---- first-appearance renumbering: for F in faces: for v in F: [x = v | uf.find(v)]; if x not in imap: imap[x] = counter; counter += 1
    imap = None
    verdict = None
    for st, tg, val in hr.item_stores(fn):
        if not (isinstance(tg.value, ast.Name) and isinstance(tg.slice, ast.Name)) or val is None:
            continue
        loops = [a for a in au.ancestors(st) if isinstance(a, ast.For)]
        if len(loops) != 2:
            continue
        tr = _traversal_k(F, loops[1], OF, tk)
        if tr is None:
            continue
        inner = loops[0]
        it = inner.iter
        through_find = False
        if isinstance(it, ast.Call) and au.call_tail(it) == "map" and len(it.args) == 2 and is_find_fn(it.args[0]):
            it, through_find = it.args[1], True
        if not (_is_row_k(F, it, inner, OF, tr[0], tr[1], tk) and isinstance(inner.target, ast.Name)):
            continue
        d, x = tg.value.id, tg.slice.id
        vcorner = inner.target.id
        xr = b.reaching(x, st) if x != vcorner else None
        is_corner = x == vcorner or F.root(x, st) == vcorner or (xr is not None and is_find(xr, vcorner))
        if not is_corner:
            continue
        conds = au.canon_conditions(st, stop=inner)
        guarded = conds == [f"{x} not in {d}"]
        counter_ok = None
        if isinstance(val, ast.Call) and au.call_tail(val) == "len" and len(val.args) == 1 and au.src(val.args[0]) == d:
            counter_ok = True
        elif isinstance(val, ast.Name):
            cnt = val.id
            incs = [s for s in au.stmts(inner.body) if (i := au.increment(s)) is not None and i[0] == cnt]
            init = b.reaching(cnt, loops[1])
            if len(incs) == 1 and au.increment(incs[0])[1] == 1 and au.const(au.increment(incs[0])[2]) == 1 \
                    and au.canon_conditions(incs[0], stop=inner) == conds and F.before(st, incs[0]) and init is not None and au.const(init) == 0 \
                    and len([s for s in au.stmts(fn.body) if (i := au.increment(s)) is not None and i[0] == cnt]) == 1:
                counter_ok = True
            elif not incs and isinstance(b.reaching(cnt, st), ast.Call) and au.call_tail(b.reaching(cnt, st)) == "len" \
                    and len(b.reaching(cnt, st).args) == 1 and au.src(b.reaching(cnt, st).args[0]) == d:
                counter_ok = True                       # n = len(imap) taken just before the store
            elif not incs and init is not None and not any(cnt in [n_ for t_ in au.assign_targets(s_) for n_ in au.assigned_names(t_)]
                                                           or (isinstance(s_, ast.For) and cnt in au.assigned_names(s_.target))
                                                           for s_ in au.stmts(loops[1].body)) and cnt not in au.assigned_names(loops[1].target):
                counter_ok = False                      # set before the loops and never changed inside them
        imap = d
        others_same_map = [s2_ for s2_, tg2_, v2_ in hr.item_stores(fn) if s2_ is not st and isinstance(tg2_.value, ast.Name) and F.root(tg2_.value.id, s2_) == F.root(d, st)]
        in_try = bool(others_same_map) or any(isinstance(a_, (ast.Try, ast.ExceptHandler)) for a_ in au.ancestors(st) if F.inside(a_, inner) or a_ is inner) or \
            any(isinstance(x_, ast.Try) for x_ in au.walk(inner))
        if in_try:
            verdict = None          # membership decided by an exception handler: not modelled
        elif guarded and counter_ok is True:
            verdict = True
        elif counter_ok is False:
            verdict = "the index given to a merged class never advances: every class gets the same index"
        elif not guarded and not conds and counter_ok:
            verdict = "a class is renumbered every time one of its copies is met"
        else:
            verdict = None
        break
    if verdict is True:
        ctx.ok("C16-M1", site, "first-appearance renumbering")
    elif verdict is None:
        ctx.undecided("C16-M1", site, "the renumbering of the merged vertex copies is not recognised", "")
    else:
        ctx.fail("C16-M1", site, "merged copies are not renumbered 0,1,2,.. in order of first appearance (once each)",
                 "the cut mesh must index its vertices contiguously and each merged class exactly once: " + verdict)
    if not imap:
        return
    IM = F.root(imap, fn.body[-1])

    def is_imap(e, at):
        return isinstance(e, ast.Name) and F.root(e.id, at) == IM
    # ---- positions follow: order[imap[u]] = vertices[u]
    okp = None
    for st, tg, val in hr.item_stores(fn):
        if val is None or not isinstance(tg.value, ast.Name):
            continue
        new_i, old_i = tg.slice, None
        # value: OUT.vertices[u]  |  Pu of `for u, Pu in enumerate(OUT.vertices)`
        if isinstance(val, ast.Subscript) and tk(val.value, st) == OV:
            old_i = val.slice
            while isinstance(old_i, ast.Call) and au.call_tail(old_i) in ("int", "index") and len(old_i.args) == 1:
                old_i = old_i.args[0]
        elif isinstance(val, ast.Name):
            for a in au.ancestors(st):
                if isinstance(a, ast.For) and isinstance(a.iter, ast.Call) and au.call_tail(a.iter) == "enumerate" and len(a.iter.args) == 1 \
                        and tk(a.iter.args[0], a) == OV and isinstance(a.target, ast.Tuple) and len(a.target.elts) == 2 \
                        and isinstance(a.target.elts[1], ast.Name) and a.target.elts[1].id == val.id:
                    old_i = a.target.elts[0]
        if old_i is None:
            continue
        # new index: imap[old]  |  new_u of `for u, new_u in imap.items()`
        if isinstance(new_i, ast.Subscript) and is_imap(new_i.value, st):
            okp = True if au.src(new_i.slice) == au.src(old_i) else \
                (False if isinstance(new_i.slice, ast.Name) and isinstance(old_i, ast.Name) and F.root(new_i.slice.id, st) != F.root(old_i.id, st)
                 and not is_find(F.resolve(new_i.slice, st)) and not any(is_find(n_) for n_ in ast.walk(F.resolve(new_i.slice, st)))
                 and not isinstance(F.definition(new_i.slice.id, st), (ast.Subscript, ast.Call)) else None)
        elif isinstance(new_i, ast.Name):
            for a in au.ancestors(st):
                if isinstance(a, ast.For) and isinstance(a.iter, ast.Call) and au.call_tail(a.iter) == "items" and is_imap(a.iter.func.value, a) \
                        and isinstance(a.target, ast.Tuple) and len(a.target.elts) == 2 and all(isinstance(x, ast.Name) for x in a.target.elts):
                    okp = True if (a.target.elts[1].id == new_i.id and au.src(old_i) == a.target.elts[0].id) else \
                        (False if isinstance(old_i, ast.Name) and a.target.elts[1].id == new_i.id else None)
    if okp is True:
        ctx.ok("C16-M1", site, "positions follow the renumbering")
    elif okp is False:
        ctx.fail("C16-M1", site, "vertex positions are not moved to their new index with the same renumbering", "")
    else:
        ctx.undecided("C16-M1", site, "how the vertex positions follow the renumbering is not recognised", "")
    # ---- ref_vertex: ref[u] = v for every u in the image (under imap[find(.)]) of the copies recorded for v
    # abstract description of the construction: (outer generator over D, inner iterable, key, value, node)
    desc = None
    refs = [(st, tg, val) for st, tg, val in hr.item_stores(fn) if F.table_key(tg.value, st) == "self.ref_vertex" and val is not None]
    whole = [st for st in au.stmts(fn.body) if isinstance(st, (ast.Assign, ast.AnnAssign)) and st.value is not None
             and any(au.is_self_attr(t, "ref_vertex") for t in au.assign_targets(st)) and isinstance(st.value, ast.DictComp)]
    if len(refs) == 1 and not whole:
        st, tg, val = refs[0]
        loops = [a for a in au.ancestors(st) if isinstance(a, ast.For)]
        if len(loops) == 2:
            desc = (loops[1].target, loops[1].iter, loops[0].target, loops[0].iter, tg.slice, val, st)
    elif len(whole) == 1 and not refs:
        dc = whole[0].value
        if len(dc.generators) == 2 and not dc.generators[0].ifs and not dc.generators[1].ifs:
            g0, g1 = dc.generators
            desc = (g0.target, g0.iter, g1.target, g1.iter, dc.key, dc.value, whole[0])
    if desc is None:
        ctx.undecided("C16-M1", site, "the construction of ref_vertex is not recognised", f"{len(refs)} item store(s)")
        return
    otg, oit, itg, iit, kexp, vexp, node = desc
    D = vname = cname = None
    if isinstance(otg, ast.Name) and isinstance(oit, ast.Name):
        D, vname = oit.id, otg.id
    elif isinstance(otg, ast.Name) and isinstance(oit, ast.Call) and au.call_tail(oit) == "keys" and isinstance(oit.func.value, ast.Name):
        D, vname = oit.func.value.id, otg.id
    elif isinstance(otg, ast.Tuple) and len(otg.elts) == 2 and isinstance(oit, ast.Call) and au.call_tail(oit) == "items" \
            and isinstance(oit.func.value, ast.Name) and all(isinstance(x, ast.Name) for x in otg.elts):
        D, vname, cname = oit.func.value.id, otg.elts[0].id, otg.elts[1].id
    if D is None or not isinstance(itg, ast.Name) or not isinstance(kexp, ast.Name) or not isinstance(vexp, ast.Name):
        ctx.undecided("C16-M1", S(node), "the loops that fill ref_vertex are not recognised", "")
        return
    uname = itg.id

    def mapping_of(e, D_, vn, cn):
        """'mapped' when e = {imap[find(u)] for u in <copies of vn>}, 'raw' when e = <copies>, ('bad', text) or None"""
        def is_copies(x):
            if cn and isinstance(x, ast.Name) and x.id == cn:
                return True
            return isinstance(x, ast.Subscript) and isinstance(x.value, ast.Name) and x.value.id == D_ and isinstance(x.slice, ast.Name) and x.slice.id == vn
        if is_copies(e):
            return "raw"
        if isinstance(e, (ast.SetComp, ast.ListComp, ast.GeneratorExp)) and len(e.generators) == 1 and isinstance(e.generators[0].target, ast.Name):
            g = e.generators[0]
            if not is_copies(g.iter):
                return None
            u = g.target.id
            elt = e.elt
            if isinstance(elt, ast.Subscript) and is_imap(elt.value, node) and is_find(elt.slice, u) and not g.ifs:
                return "mapped"
            if isinstance(elt, ast.Subscript) and is_imap(elt.value, node) and isinstance(elt.slice, ast.Name) and elt.slice.id == u:
                return ("bad", "the copies are renumbered without being taken to their merged representative (uf.find)")
            return None
        if isinstance(e, ast.Call) and au.call_tail(e) in ("set", "list", "sorted", "frozenset") and len(e.args) == 1:
            return mapping_of(e.args[0], D_, vn, cn)
        return None
    m_inner = mapping_of(iit, D, vname, cname)
    # a separate pass may have mapped the table before: D[v] = {imap[find(u)] for u in D[v]}  |  D = {v: {..} for v, c in D.items()}
    passes = []
    Droot = F.root(D, node)
    for st2, tg2, val2 in hr.item_stores(fn):
        if isinstance(tg2.value, ast.Name) and F.root(tg2.value.id, st2) == Droot and val2 is not None and F.before(st2, node) \
                and not (isinstance(val2, ast.Call) and au.call_tail(val2) not in ("set", "list", "frozenset", "sorted", "tuple")) and not (isinstance(val2, ast.Set)):
            if isinstance(val2, ast.Call) and not val2.args:
                continue                    # D[v] = set() : the creation of the table
            lp2 = [a for a in au.ancestors(st2) if isinstance(a, ast.For)]
            if lp2 and isinstance(lp2[0].target, ast.Name) and isinstance(tg2.slice, ast.Name) and tg2.slice.id == lp2[0].target.id \
                    and any(isinstance(n, ast.Name) and F.root(n.id, st2) == Droot for n in ast.walk(lp2[0].iter)):
                passes.append(mapping_of(val2, tg2.value.id, tg2.slice.id, None))
            elif lp2 and isinstance(lp2[0].target, ast.Tuple) and len(lp2[0].target.elts) == 2 and all(isinstance(x_, ast.Name) for x_ in lp2[0].target.elts) \
                    and isinstance(lp2[0].iter, ast.Call) and au.call_tail(lp2[0].iter) == "items" and isinstance(tg2.slice, ast.Name) \
                    and tg2.slice.id == lp2[0].target.elts[0].id and any(isinstance(n, ast.Name) and F.root(n.id, st2) == Droot for n in ast.walk(lp2[0].iter)):
                # for v, copies in D.items(): D[v] = {..}
                passes.append(mapping_of(val2, tg2.value.id, tg2.slice.id, lp2[0].target.elts[1].id))
    # the table walked by the ref_vertex loops is itself built from another table: D2 = {v: {imap[find(u)] for u in D[v]} for v in D}
    ddef = F.definition(D, node)
    if isinstance(ddef, ast.DictComp) and len(ddef.generators) == 1 and not ddef.generators[0].ifs:
        g = ddef.generators[0]
        src_tab = kv = cv = None
        if isinstance(g.iter, ast.Name) and isinstance(g.target, ast.Name):
            src_tab, kv = g.iter.id, g.target.id
        elif isinstance(g.iter, ast.Call) and au.call_tail(g.iter) in ("keys",) and isinstance(g.iter.func.value, ast.Name) and isinstance(g.target, ast.Name):
            src_tab, kv = g.iter.func.value.id, g.target.id
        elif isinstance(g.iter, ast.Call) and au.call_tail(g.iter) == "items" and isinstance(g.iter.func.value, ast.Name) and isinstance(g.target, ast.Tuple) \
                and len(g.target.elts) == 2 and all(isinstance(x_, ast.Name) for x_ in g.target.elts):
            src_tab, kv, cv = g.iter.func.value.id, g.target.elts[0].id, g.target.elts[1].id
        if src_tab is not None and au.src(ddef.key) == kv:
            passes.append(mapping_of(ddef.value, src_tab, kv, cv))
    store_ok = kexp.id == uname and vexp.id == vname
    store_rev = kexp.id == vname and vexp.id == uname
    n_mapped = (1 if m_inner == "mapped" else 0) + sum(1 for p_ in passes if p_ == "mapped")
    bad = [p_ for p_ in passes + [m_inner] if isinstance(p_, tuple)]
    find_at_record = [c_ for c_ in au.calls(fn) if au.call_tail(c_) in ("add", "append") and c_.args and is_find(F.resolve(c_.args[0], c_))]
    # entries of the table that do not come from the corner numbering of the creation loop (read off the output faces later ..)
    d_adds = [c_ for c_ in au.calls(fn) if au.call_tail(c_) in ("add", "append") and isinstance(c_.func.value, ast.Subscript) and isinstance(c_.func.value.value, ast.Name)
              and F.root(c_.func.value.value.id, c_) == Droot]
    late_adds = [c_ for c_ in d_adds if any(isinstance(n_, (ast.Attribute, ast.Name)) and tk(n_, c_) == OF for a_ in au.ancestors(c_) if isinstance(a_, ast.For)
                                            for n_ in ast.walk(a_.iter)) or any(isinstance(n_, ast.Subscript) and tk(n_.value, c_) == OF for n_ in ast.walk(c_))]
    late_adds = late_adds + [c_ for c_ in d_adds if c_.args and isinstance(F.resolve(c_.args[0], c_), (ast.Subscript, ast.Call))]
    find_at_record = find_at_record + late_adds
    if m_inner is None or any(p_ is None for p_ in passes) or (bad and find_at_record):
        ctx.undecided("C16-M1", site, "how the recorded copies are taken to the final vertex indices is not recognised", "")
    elif bad:
        ctx.fail("C16-M1", site, "the duplicate table is not mapped through the same merge + renumbering as the faces", bad[0][1])
    elif n_mapped == 1:
        ctx.ok("C16-M1", site, "duplicates -> imap[find(u)]")
    elif n_mapped == 0 and late_adds:
        ctx.undecided("C16-M1", site, "the recorded copies are read off the output faces", "")
    elif n_mapped == 0 and [n_ for n_ in au.walk(fn) if isinstance(n_, ast.Subscript) and is_imap(n_.value, n_) and isinstance(n_.ctx, ast.Load)
                            and not any(isinstance(a_, ast.Assign) and isinstance(a_.targets[0], ast.Subscript) and
                                        (tk(a_.targets[0].value, a_) == OF or is_imap(a_.targets[0].value, a_) or
                                         (isinstance(a_.targets[0].slice, ast.Subscript) and is_imap(a_.targets[0].slice.value, a_)))
                                        for a_ in [au.enclosing_stmt(n_)])]:
        ctx.undecided("C16-M1", site, "the renumbering map is applied to other tables in a way the rule does not follow", "")
    elif n_mapped == 0 and [n_ for n_ in au.walk(fn) if isinstance(n_, ast.Subscript) and is_imap(n_.value, n_)
                            and (is_find(n_.slice) or is_find(F.resolve(n_.slice, au.enclosing_stmt(n_))))
                            and not any(F.table_key(a_.targets[0].value, a_) == OF if isinstance(a_, ast.Assign) and isinstance(a_.targets[0], ast.Subscript) else False
                                        for a_ in [au.enclosing_stmt(n_)])]:
        ctx.undecided("C16-M1", site, "the merge + renumbering is applied to the recorded copies in a way the rule does not follow", "")
    elif n_mapped == 0:
        _absent(ctx, F, fn, "C16-M1", site, "the duplicate table is not mapped through the same merge + renumbering as the faces",
                "ref_vertex is keyed by the corner numbers of the un-merged mesh")
    else:
        ctx.fail("C16-M1", site, "the duplicate table is not mapped through the same merge + renumbering as the faces", "the renumbering is applied twice")
    if store_ok:
        ctx.ok("C16-M1", S(node), "ref_vertex inverse")
    elif store_rev:
        ctx.fail("C16-M1", S(node), "ref_vertex is not the inverse of the duplicate table (ref[u] = v for every copy u of v)",
                 "the map is stored the wrong way round: every cut vertex must map to the original vertex it is a copy of")
    else:
        ctx.undecided("C16-M1", S(node), "what ref_vertex stores is not recognised", "")


# --------------------------------------------------------------------------------------------- C16-C1
def _base(e):
    while isinstance(e, ast.Subscript):
        e = e.value
    return e


def _singular_container(ctx, F, e, at):
    """is the container expression `e` the set of singular vertices the spanning-tree step uses?  True | None | (False, text)"""
    k = F.table_key(e, at)
    if k == "self.singularities":
        return True
    if isinstance(e, ast.Name):
        d = F.definition(e.id, at)
        if d is None and e.id in F.params:
            # an optional parameter that defaults to None and is replaced under `<p> is None`: on the default call it is that value
            fa = F.orig.args
            dflt = {x_.arg: d_ for x_, d_ in zip((fa.posonlyargs + fa.args)[len(fa.posonlyargs + fa.args) - len(fa.defaults):], fa.defaults)}
            dflt.update({x_.arg: d_ for x_, d_ in zip(fa.kwonlyargs, fa.kw_defaults) if d_ is not None})
            if hr.is_none(dflt.get(e.id)):
                binds = [(st_, v_) for st_ in au.stmts(F.fn.body) for nm_, v_ in sym.split_assign(st_) if nm_ == e.id]
                if len(binds) == 1 and any(isinstance(c_, ast.Compare) and isinstance(c_.ops[0], ast.Is) and hr.is_none(c_.comparators[0]) and p_
                                           and isinstance(c_.left, ast.Name) and c_.left.id == e.id for c_, p_ in F.conds(binds[0][0])):
                    d = binds[0][1]
        if isinstance(d, ast.Call) and au.call_tail(d) in ("set", "frozenset", "list", "tuple") and len(d.args) == 1 and F.table_key(d.args[0], at) == "self.singularities":
            return True
        return None
    if isinstance(e, ast.Attribute) and au.is_self_attr(e):
        # another field: how does __init__ build it?
        init = ctx.repo.func(CUT, f"{CLS}.__init__")
        ps = set(au.params(init))
        vals = [st.value for st in au.stmts(init.body) if isinstance(st, (ast.Assign, ast.AnnAssign)) and st.value is not None
                and any(au.is_self_attr(t, e.attr) for t in au.assign_targets(st))]
        if not vals:
            return None
        from_list = all(isinstance(v, ast.Call) and au.call_tail(v) in ("set", "frozenset") and len(v.args) == 1 and au.is_self_attr(v.args[0], "singularities") for v in vals)
        if from_list:
            return True
        from_param = [v for v in vals if isinstance(v, ast.Call) and v.args and isinstance(v.args[0], ast.Name) and v.args[0].id in ps]
        if from_param:
            return (False, f"self.{e.attr} is built by __init__ from the raw argument (a second consumption of the iterable, and a snapshot that does not "
                           "follow self.singularities), while the spanning tree is built from self.singularities")
        return None
    return None


def c1_cut_graph(ctx):
    fn0, F = _flat(ctx, "_build_cut_edges_tree")
    fn = F.fn
    site = ctx.site(CUT, fn0)
    R = "C16-C1"
    ps = au.params(fn0, skip_self=True)
    ev = ps[0] if ps else None
    stores = [st for st in au.stmts(fn.body) if isinstance(st, (ast.Assign, ast.AnnAssign)) and st.value is not None
              and any(au.is_self_attr(t, "cut_edges") for t in au.assign_targets(st))]
    verdict = None
    if len(stores) == 1 and ev:
        v = F.b.resolve(stores[0].value, at=stores[0], keep=("self", ev))
        dom = sub = None
        if isinstance(v, ast.BinOp) and isinstance(v.op, ast.Sub):
            dom, sub = v.left, v.right
        elif isinstance(v, ast.Call) and isinstance(v.func, ast.Attribute) and v.func.attr == "difference" and len(v.args) == 1:
            dom, sub = v.func.value, v.args[0]
        elif isinstance(v, ast.SetComp) and len(v.generators) == 1 and len(v.generators[0].ifs) == 1 and isinstance(v.generators[0].target, ast.Name) \
                and au.src(v.elt) == v.generators[0].target.id:
            t = v.generators[0].ifs[0]
            if au.canon_test(t) == f"{v.elt.id} not in {ev}":
                dom, sub = v.generators[0].iter, ast.Name(id=ev, ctx=ast.Load())
        if dom is not None:
            d = dom.args[0] if isinstance(dom, ast.Call) and au.call_tail(dom) in ("set", "frozenset") and len(dom.args) == 1 else dom
            dk = au.src(d)
            sub_ok = isinstance(sub, ast.Name) and sub.id == ev or (isinstance(sub, ast.Call) and au.call_tail(sub) == "set" and au.src(sub.args[0]) == ev)
            if dk in ("self.input_mesh.id_edges", "range(len(self.input_mesh.edges))") and sub_ok:
                verdict = True
            elif dk in ("self.input_mesh.interior_edges", "self.input_mesh.boundary_edges") and sub_ok:
                verdict = "the complement is taken among the " + dk.rsplit(".", 1)[1].replace("_", " ") + " only: the original border must be part of the cut graph"
    completed = [c_ for c_ in au.calls(fn) if isinstance(c_.func, ast.Attribute) and c_.func.attr in ("update", "add", "union", "__ior__") and au.is_self_attr(c_.func.value, "cut_edges")] + \
        [st_ for st_ in au.stmts(fn.body) if isinstance(st_, ast.AugAssign) and au.is_self_attr(st_.target, "cut_edges")]
    if verdict is not True and verdict is not None and completed:
        verdict = None
    if verdict is True:
        ctx.ok(R, site, "complement of the dual tree")
    elif verdict is None:
        ctx.undecided(R, site, "how self.cut_edges is computed from the dual-tree edges is not recognised", "")
    else:
        ctx.fail(R, site, "cut edges are not `all edges minus the edges crossed by the dual tree`", verdict)
    # the adjacency: the dictionary stored in self.cut_adj (built in place, or in a local that is stored afterwards)
    adj_keys = {"self.cut_adj"}
    for st in au.stmts(fn.body):
        if isinstance(st, (ast.Assign, ast.AnnAssign)) and st.value is not None and any(au.is_self_attr(t, "cut_adj") for t in au.assign_targets(st)):
            if isinstance(st.value, ast.Name):
                adj_keys.add(F.root(st.value.id, st))
            elif isinstance(st.value, (ast.DictComp, ast.Call)):
                # self.cut_adj = {v: adj[v] for v in ids} / dict(adj): the local table the adjacency is copied from
                for n_ in ast.walk(st.value):
                    if isinstance(n_, ast.Name) and n_.id in F.b.count and isinstance(F.definition(n_.id, st), ast.Call) \
                            and au.call_tail(F.definition(n_.id, st)) in ("defaultdict", "dict"):
                        adj_keys.add(F.root(n_.id, st))

    def is_adj(e, at):
        return F.table_key(e, at) in adj_keys or (isinstance(e, ast.Name) and F.root(e.id, at) in adj_keys)
    adds = []
    for c in au.calls(fn):
        if au.call_tail(c) == "add" and isinstance(c.func.value, ast.Subscript) and is_adj(c.func.value.value, c) and len(c.args) == 1:
            adds.append((au.src(c.func.value.slice), au.src(c.args[0]), c))
    if len(adds) == 2 and adds[0][:2] == adds[1][:2][::-1] and adds[0][0] != adds[0][1]:
        lps = [a for a in au.ancestors(adds[0][2]) if isinstance(a, ast.For)]
        over = False
        if lps:
            it = lps[-1].iter
            if F.table_key(it, lps[-1]) == "self.cut_edges":
                over = True
            elif isinstance(it, (ast.GeneratorExp, ast.ListComp)) and len(it.generators) == 1 and not it.generators[0].ifs \
                    and F.table_key(it.generators[0].iter, lps[-1]) == "self.cut_edges" and isinstance(it.elt, ast.Subscript) \
                    and F.table_key(it.elt.value, lps[-1]) == "self.input_mesh.edges" and au.src(it.elt.slice) == au.src(it.generators[0].target):
                over = True
        over = over and not F.conds(adds[0][2], stop=lps[-1]) and not F.conds(adds[1][2], stop=lps[-1])
        if over:
            ctx.ok(R, site, "cut_adj symmetric")
        else:
            ctx.undecided(R, site, "the loop filling the cut adjacency is not recognised", "")
    elif len(adds) == 1 and [nm_ for st_ in au.stmts(fn.body) for nm_, v_ in sym.split_assign(st_) if isinstance(v_, ast.Subscript) and is_adj(_base(v_), st_)] + \
            [st_ for st_ in au.stmts(fn.body) if isinstance(st_, ast.AugAssign) and is_adj(_base(st_.target), st_)] + \
            [st_ for st_, tg_, v_ in hr.item_stores(fn) if isinstance(tg_.value, (ast.Name, ast.Attribute)) and is_adj(tg_.value, st_)
             and not (isinstance(v_, ast.Call) and au.call_tail(v_) == "set" and not v_.args)] + \
            [c_ for c_ in au.calls(fn) if isinstance(c_.func, ast.Attribute) and c_.func.attr in ("update", "union", "setdefault") and is_adj(_base(c_.func.value), c_)]:
        ctx.undecided(R, site, "the cut adjacency is filled in a way the rule does not follow", "")
    elif len(adds) == 1 and len([a for a in au.ancestors(adds[0][2]) if isinstance(a, ast.For)]) == 1 and \
            F.table_key([a for a in au.ancestors(adds[0][2]) if isinstance(a, ast.For)][0].iter, adds[0][2]) != "self.cut_edges":
        ctx.undecided(R, site, "the cut adjacency is filled over a domain the rule does not recognise", "")
    elif len(adds) == 1 and len([a for a in au.ancestors(adds[0][2]) if isinstance(a, ast.For)]) == 1:
        _absent(ctx, F, fn, R, site, "the cut adjacency is filled in one direction only", "cut_adj must be symmetric: pruning and the cut graph walk it from both ends")
    else:
        ctx.undecided(R, site, "the filling of the cut adjacency is not recognised", f"{len(adds)} insert(s)")
    # ---- pruning
    fn0, F = _flat(ctx, "_prune_edge_tree")
    fn = F.fn
    site = ctx.site(CUT, fn0)

    def S(n):
        return ctx.site(CUT, fn0, n)
    qs = {t.id for st in au.stmts(fn.body) if isinstance(st, (ast.Assign, ast.AnnAssign)) and isinstance(st.value, ast.Call) and au.call_tail(st.value) in ("deque", "list")
          and not st.value.args for t in au.assign_targets(st) if isinstance(t, ast.Name)}
    qs |= {t.id for st in au.stmts(fn.body) if isinstance(st, ast.Assign) and isinstance(st.value, ast.List) and not st.value.elts for t in st.targets if isinstance(t, ast.Name)}
    wl = [st for st in au.stmts(fn.body) if isinstance(st, ast.While) and qs & au.names(st)]
    if len(wl) != 1:
        ctx.undecided(R, site, "the work-list loop of the pruning is not recognised", "")
        return
    loop = wl[0]
    Qs = [q for q in qs if any(isinstance(c.func, ast.Attribute) and isinstance(c.func.value, ast.Name) and c.func.value.id == q and c.func.attr in ("pop", "popleft")
                              for c in au.calls(loop))]
    if len(Qs) != 1:
        ctx.undecided(R, site, "the work-list of the pruning is not recognised", "")
        return
    Q = Qs[0]
    apps = [c for c in au.calls(fn) if isinstance(c.func, ast.Attribute) and c.func.attr in ("append", "appendleft", "add") and isinstance(c.func.value, ast.Name)
            and c.func.value.id == Q and len(c.args) == 1]
    if not apps:
        ctx.undecided(R, site, "the pruning never enqueues a vertex", "")
    for c in apps:
        x = c.args[0]
        if not isinstance(x, ast.Name):
            ctx.undecided(R, S(c), "the element queued for pruning is not a variable", "")
            continue
        xr = F.root(x.id, c)
        deg = sing = None
        other = False
        for e, p in F.conds(c, stop=None if not F.inside(c, loop) else loop):
            # degree: len(cut_adj[x]) == 1  (through locals)
            if isinstance(e, ast.Compare) and len(e.ops) == 1 and isinstance(e.ops[0], ast.Eq):
                sides = [F.resolve(e.left, c, keep=(x.id, xr)), F.resolve(e.comparators[0], c, keep=(x.id, xr))]
                one = [s_ for s_ in sides if au.const(s_) == 1]
                ln = [s_ for s_ in sides if isinstance(s_, ast.Call) and au.call_tail(s_) == "len" and len(s_.args) == 1]
                if one and ln:
                    a = ln[0].args[0]
                    if isinstance(a, ast.Name):
                        d_ = F.definition(a.id, c)
                        a = d_ if d_ is not None else a
                    if isinstance(a, ast.Subscript) and F.table_key(a.value, c) == "self.cut_adj" and isinstance(a.slice, ast.Name):
                        if deg is None or not deg[0]:
                            deg = (F.root(a.slice.id, c) == xr, p)
                        continue
            if isinstance(e, ast.Compare) and len(e.ops) == 1 and isinstance(e.ops[0], ast.In) and isinstance(e.left, ast.Name):
                sc = _singular_container(ctx, F, e.comparators[0], c)
                if sc is not None:
                    if sing is None or not sing[0]:
                        sing = (F.root(e.left.id, c) == xr, p, sc)
                    continue
            if isinstance(e, ast.Compare) and len(e.ops) == 1 and isinstance(e.ops[0], ast.In) and "singu" in au.src(e.comparators[0]):
                if sing is None or not sing[0]:
                    sing = (isinstance(e.left, ast.Name) and F.root(e.left.id, c) == xr, p, None)
                continue
            other = True
        if (deg is None or sing is None) and other:
            ctx.undecided(R, S(c), "the conditions under which a vertex is queued for pruning are not recognised", "")
            continue
        why = "pruning must stop at singular vertices: every singularity keeps a copy on the border of the cut mesh"
        # mentions of the singular vertices that guard neither this enqueue nor (as its own `if`) another one: an iteration domain, a precomputed
        # set, a test made when the vertex is popped .. may exclude the singular vertices for this enqueue as well
        def direct_guards(call_):
            out_ = set()
            for a_ in au.ancestors(call_):
                if isinstance(a_, ast.If):
                    out_ |= {id(n_) for n_ in ast.walk(a_.test)}
                if isinstance(a_, (ast.For, ast.While, ast.FunctionDef)):
                    break
            return out_
        mine_ = {id(n_) for t_, pol_ in sk.path_conds(c, stop=None) for n_ in ast.walk(t_)} | direct_guards(c)
        theirs_ = set()
        for c2_ in apps:
            if c2_ is not c:
                theirs_ |= direct_guards(c2_)
        sing_elsewhere = [n_ for n_ in au.walk(fn) if isinstance(n_, ast.Attribute) and ("singu" in n_.attr) and id(n_) not in mine_ and id(n_) not in theirs_]
        if sing is None and sing_elsewhere:
            ctx.undecided(R, S(c), "the singular vertices are excluded from the pruning in a way the rule does not follow", "")
        elif sing is None:
            _absent(ctx, F, fn, R, S(c), "a vertex is queued for pruning without the tests `cut degree == 1 and not singular`", why + " (no test against the singular vertices)")
        elif not sing[0]:
            ctx.fail(R, S(c), "a vertex is queued for pruning without the tests `cut degree == 1 and not singular`", why + " (the singularity test is made on another vertex)")
        elif sing[1] and (sing[2] is None or isinstance(sing[2], tuple)):
            ctx.undecided(R, S(c), "the container the pruning tests for singular vertices is not recognised", "")
        elif sing[1]:
            ctx.fail(R, S(c), "a vertex is queued for pruning without the tests `cut degree == 1 and not singular`", why + " (the test is inverted)")
        elif isinstance(sing[2], tuple):
            ctx.fail(R, S(c), "the pruning tests membership in a container that is not the list of singular vertices the spanning tree was built from",
                     sing[2][1])
        elif sing[2] is None:
            ctx.undecided(R, S(c), "the container the pruning tests for singular vertices is not recognised", "")
        elif deg is None:
            _absent(ctx, F, fn, R, S(c), "a vertex is queued for pruning without the tests `cut degree == 1 and not singular`", "only leaves of the cut graph may be pruned (no degree test)")
        elif not deg[0] or not deg[1]:
            ctx.fail(R, S(c), "a vertex is queued for pruning without the tests `cut degree == 1 and not singular`", "the degree test is not `len(cut_adj[x]) == 1` on the queued vertex")
        else:
            ctx.ok(R, S(c), "only non-singular leaves pruned")
    loops = [st for st in au.stmts(loop.body) if isinstance(st, ast.For) and isinstance(st.target, ast.Name)]
    nb_loops = []
    for st in loops:
        it = st.iter
        if isinstance(it, ast.Call) and au.call_tail(it) in ("list", "tuple", "set", "sorted") and len(it.args) == 1:
            it = it.args[0]
        if isinstance(it, ast.Name):
            d_ = F.definition(it.id, st)
            it = d_ if d_ is not None else it
            if isinstance(it, ast.Call) and au.call_tail(it) in ("list", "tuple", "set", "sorted") and len(it.args) == 1:
                it = it.args[0]
        if isinstance(it, ast.Subscript) and F.table_key(it.value, st) == "self.cut_adj" and isinstance(it.slice, ast.Name):
            nb_loops.append((st, it.slice.id))
    if len(nb_loops) != 1:
        ctx.undecided(R, S(loop), "the loop over the cut neighbours of a pruned leaf is not recognised", "")
        return
    nl, A = nb_loops[0]
    B = nl.target.id

    def adj_of(e, who, at):
        if isinstance(e, ast.Name):
            d_ = F.definition(e.id, at)
            e = d_ if d_ is not None else e
        return isinstance(e, ast.Subscript) and F.table_key(e.value, at) == "self.cut_adj" and isinstance(e.slice, ast.Name) and F.root(e.slice.id, at) == who
    rm_adj = [c for c in au.calls(nl) if au.call_tail(c) in ("remove", "discard") and isinstance(c.func, ast.Attribute) and adj_of(c.func.value, B, c)
              and len(c.args) == 1 and isinstance(c.args[0], ast.Name) and F.root(c.args[0].id, c) == F.root(A, c) and not F.conds(c, stop=nl)]
    rm_edge = []
    for c in au.calls(nl):
        if au.call_tail(c) in ("remove", "discard") and isinstance(c.func, ast.Attribute) and F.table_key(c.func.value, c) == "self.cut_edges" and len(c.args) == 1:
            k = F.resolve(c.args[0], c, keep=(A, B))
            if isinstance(k, ast.Call) and au.call_tail(k) == "edge_id" and {au.src(a) for a in k.args} == {A, B} and not F.conds(c, stop=nl):
                rm_edge.append(c)
    blk_after = [st for st in au.stmts(loop.body) if not F.inside(st, nl) and st is not nl]
    clr = False
    for st in blk_after:
        if isinstance(st, ast.Assign) and len(st.targets) == 1 and adj_of(st.targets[0], A, st) and \
                (isinstance(st.value, ast.Call) and au.call_tail(st.value) == "set" and not st.value.args):
            clr = True
        if isinstance(st, ast.Expr) and isinstance(st.value, ast.Call) and au.call_tail(st.value) == "clear" and adj_of(st.value.func.value, A, st):
            clr = True
    for c in au.calls(nl):
        if au.call_tail(c) in ("remove", "discard") and isinstance(c.func, ast.Attribute) and adj_of(c.func.value, A, c) and len(c.args) == 1 \
                and isinstance(c.args[0], ast.Name) and F.root(c.args[0].id, c) == B:
            clr = True
    for st in blk_after:
        if isinstance(st, ast.Delete) and any(adj_of(t, A, st) for t in st.targets):
            clr = True
        if isinstance(st, ast.Expr) and isinstance(st.value, ast.Call) and au.call_tail(st.value) == "pop" and F.table_key(st.value.func.value, st) == "self.cut_adj":
            clr = True
    known = {id(x) for x in rm_adj + rm_edge}
    strange = [c for c in au.calls(loop) if isinstance(c.func, ast.Attribute) and c.func.attr in MUTATORS and id(c) not in known
               and ("cut_adj" in F.table_key(_base(c.func.value), c) or "cut_edges" in F.table_key(_base(c.func.value), c))
               and not (isinstance(c.func.value, ast.Name) and c.func.value.id == Q)]
    for st_, tg_, val_ in hr.item_stores(loop):
        kb_ = F.table_key(_base(tg_), st_) or ""
        is_reset = isinstance(val_, ast.Call) and au.call_tail(val_) == "set" and not val_.args and adj_of(tg_, A, st_)
        if ("cut_adj" in kb_ or "cut_edges" in kb_) and not is_reset:
            strange.append(st_)
    for st_ in au.stmts(fn.body):
        if isinstance(st_, (ast.Assign, ast.AnnAssign, ast.AugAssign)) and any(au.is_self_attr(t_, "cut_edges") or au.is_self_attr(t_, "cut_adj") for t_ in au.assign_targets(st_)):
            strange.append(st_)         # the table itself is re-bound (a local copy published afterwards ..)
    for st_ in au.stmts(loop.body):
        if isinstance(st_, (ast.Delete, ast.AugAssign)) and (not clr or isinstance(st_, ast.AugAssign)) and any(("cut_adj" in (F.table_key(_base(t_), st_) or "") or "cut_edges" in (F.table_key(_base(t_), st_) or ""))
                                                                          for t_ in (st_.targets if isinstance(st_, ast.Delete) else [st_.target])):
            strange.append(st_)
    for n_ in au.walk(fn):
        if F.inside(n_, loop) or n_ is loop:
            continue
        if isinstance(n_, ast.Call) and isinstance(n_.func, ast.Attribute) and n_.func.attr in MUTATORS and \
                ("cut_adj" in (F.table_key(_base(n_.func.value), n_) or "") or "cut_edges" in (F.table_key(_base(n_.func.value), n_) or "")):
            strange.append(n_)
        if isinstance(n_, ast.Subscript) and isinstance(n_.ctx, (ast.Store, ast.Del)) and "cut_adj" in (F.table_key(_base(n_), n_) or ""):
            strange.append(n_)
    if rm_adj and rm_edge and clr:
        ctx.ok(R, site, "leaf removal keeps the three tables consistent")
    elif F.impure_self_calls(loop) or F.opaque(loop, {A, B}) or strange:
        ctx.undecided(R, site, "the removal of a pruned leaf is not fully visible", "")
    else:
        miss = [t for t, ok_ in (("the neighbour's adjacency", rm_adj), ("the cut-edge set", rm_edge), ("the leaf's own adjacency", clr)) if not ok_]
        ctx.fail(R, site, "removing a leaf does not update both adjacency sides, the cut-edge set and the leaf itself",
                 "the reported cut edges must be exactly the edges of the pruned cut graph; not updated: " + ", ".join(miss))


# =============================================================================================== spanning trees (C16-K1 / K2)
def _consecutive_pairs(F, loop):
    """Does `loop` enumerate every consecutive pair of one sequence P?  Returns the AST of P or None.
    Accepted idioms: for i in range(1, len(P)): x, y = P[i-1], P[i]      for i in range(len(P) - 1): x, y = P[i], P[i+1]
                     for x, y in zip(P, P[1:]) / zip(P[:-1], P[1:]) / pairwise(P)
    returns ('bad', text) when the loop visits consecutive pairs but not all of them"""
    it = loop.iter
    if isinstance(it, ast.Call) and au.call_tail(it) == "zip" and len(it.args) == 2:
        a0, a1 = it.args
        if isinstance(a1, ast.Subscript) and isinstance(a1.slice, ast.Slice) and au.const(a1.slice.lower) == 1 and a1.slice.upper is None and a1.slice.step is None:
            P = a1.value
            if hr.same(a0, P) or (isinstance(a0, ast.Subscript) and isinstance(a0.slice, ast.Slice) and a0.slice.lower is None
                                  and au.const(a0.slice.upper) == -1 and hr.same(a0.value, P)):
                return P
        return None
    if isinstance(it, ast.Call) and au.call_tail(it) in ("consecutive_pairs", "pairwise") and len(it.args) == 1:
        return it.args[0]
    if not (isinstance(it, ast.Call) and au.call_tail(it) == "range" and isinstance(loop.target, ast.Name)):
        return None
    i = loop.target.id
    if len(it.args) > 2:
        return None
    lo = sym.Poly.const(0) if len(it.args) == 1 else sym.to_poly(it.args[0])
    hi = it.args[0] if len(it.args) == 1 else it.args[1]
    lens = [n for n in ast.walk(hi) if isinstance(n, ast.Call) and au.call_tail(n) == "len" and len(n.args) == 1]
    if len(lens) != 1:
        return None
    P = lens[0].args[0]
    hip = sym.to_poly(hi, atom_of=lambda e: "LEN" if e is lens[0] else None)
    if hip.coeff("LEN") != sym.Poly.const(1):
        return None
    hi_off = hip.without("LEN")
    if not (lo.is_const() and hi_off.is_const()):
        return None
    lo_c, hi_c = lo.const_value(), hi_off.const_value()
    offs = set()
    for n in au.walk(loop):
        if isinstance(n, ast.Subscript) and hr.same(n.value, P) and not isinstance(n.slice, ast.Slice):
            p = sym.to_poly(n.slice)
            if p.coeff(i) != sym.Poly.const(1) or not p.without(i).is_const():
                return None
            offs.add(p.without(i).const_value())
    if len(offs) != 2 or max(offs) - min(offs) != 1:
        return None
    # first pair is (P[0], P[1]), last pair is (P[len-2], P[len-1])
    first, last = lo_c + min(offs), hi_c - 1 + max(offs)
    if first == 0 and last == -1:
        return P
    if first >= 0 and last <= -1:
        return ("bad", ("the first" if first > 0 else "the last") + " pair of the path is skipped")
    return None


def _class_constants(ctx):
    cls = ctx.repo.cls(CUT, CLS)
    out = {}
    for st in cls.body:
        if isinstance(st, (ast.Assign, ast.AnnAssign)) and st.value is not None:
            for t in au.assign_targets(st):
                if isinstance(t, ast.Name):
                    out[t.id] = st.value
    return out


def _is_sentinel(ctx, F, e, at):
    """e denotes a negative integer constant: a local bound once, a class constant read through self / the class, a module constant"""
    def neg(v):
        c = au.const(v)
        return isinstance(c, int) and not isinstance(c, bool) and c < 0
    if neg(e):
        return True
    if isinstance(e, ast.Name):
        d = F.definition(e.id, at)
        if d is not None:
            return neg(d) or _is_sentinel(ctx, F, d, at) if not isinstance(d, ast.Name) else False
        mod = ctx.repo.module(CUT)
        for st in mod.tree.body:
            if isinstance(st, ast.Assign) and any(isinstance(t, ast.Name) and t.id == e.id for t in st.targets):
                return neg(st.value)
        return False
    if isinstance(e, ast.Attribute) and isinstance(e.value, ast.Name) and e.value.id in ("self", "cls", CLS):
        cc = _class_constants(ctx)
        return e.attr in cc and neg(cc[e.attr])
    return False


def _drops_single(e, p, exclude=()):
    """the atom (e, p) is a test on a length that FAILS for a sequence of one element (a zero-length path: a singular vertex lying on the
    border): True / False, or None when the test cannot be evaluated"""
    class _L(ast.NodeTransformer):
        def visit_Call(self, n):
            if au.call_tail(n) == "len" and len(n.args) == 1 and isinstance(_base(n.args[0]), ast.Name) and _base(n.args[0]).id != "self" \
                    and _base(n.args[0]).id not in exclude:
                return ast.copy_location(ast.Constant(value=1), n)      # the length of a local sequence (a path)
            return self.generic_visit(n)
    import copy
    t = ast.fix_missing_locations(_L().visit(copy.deepcopy(e)))
    if any(not isinstance(n, (ast.Compare, ast.BoolOp, ast.UnaryOp, ast.BinOp, ast.Constant, ast.cmpop, ast.boolop, ast.unaryop, ast.operator,
                              ast.expr_context)) for n in ast.walk(t)):
        return None
    try:
        val = eval(compile(ast.Expression(body=t), "<len>", "eval"), {"__builtins__": {}}, {})
    except Exception:
        return None
    return bool(val) != bool(p)


def _weigh_conds(tests, atoms, exclude=()):
    """conditions under which a candidate is weighed: True (none, or only `a != b` on the two end points) | 'cond' (a test on the
    length of the path: the zero-length link to the border is dropped) | None (unknown)"""
    rest = [(e, p) for e, p in atoms if not (isinstance(e, ast.Compare) and len(e.ops) == 1 and isinstance(e.ops[0], ast.Eq) and not p
                                             and isinstance(e.left, ast.Name) and isinstance(e.comparators[0], ast.Name))]
    if not rest:
        return True
    if any(_drops_single(e, p, exclude) is True for e, p in rest):
        return "cond"
    return None


def foreign_nonborder(foreign):
    """conditions of the border store that are about neither the singular vertex nor the existence of a border (those were skipped before)"""
    return [(e, p) for e, p in foreign]


def _none_selector(F, e, p, at):
    """`x is None` / `x is not None` where x = (A if t else None) with A a non-None value: the atom is the test t itself"""
    if isinstance(e, ast.Compare) and len(e.ops) == 1 and isinstance(e.ops[0], (ast.Is, ast.IsNot)) and hr.is_none(e.comparators[0]) \
            and isinstance(e.left, ast.Name):
        d = F.definition(e.left.id, at)
        if isinstance(d, ast.IfExp) and (hr.is_none(d.body) != hr.is_none(d.orelse)):
            other = d.orelse if hr.is_none(d.body) else d.body
            o = F.resolve(other, at)
            known = (isinstance(o, ast.Constant) and o.value is not None) or \
                (isinstance(o, ast.UnaryOp) and isinstance(o.operand, ast.Constant) and o.operand.value is not None)
            if known:
                is_not_none = isinstance(e.ops[0], ast.IsNot) == bool(p)      # the atom says `x is not None`
                t_true = is_not_none != hr.is_none(d.body)                   # ... which holds exactly when t is True (body is the value)
                if isinstance(d.test, ast.UnaryOp) and isinstance(d.test.op, ast.Not):
                    return d.test.operand, not t_true
                return d.test, t_true
    return e, p


def k1_spanning_tree_no_features(ctx):
    fn0, F = _flat(ctx, "_build_singularity_spanning_tree_no_features")
    fn = F.fn
    site = ctx.site(CUT, fn0)
    b = F.b
    R = "C16-K1"

    def S(n):
        return ctx.site(CUT, fn0, n)
    why_tree = ("the selected paths must join every singular vertex (and the border, when there is one) into one tree: a singular vertex "
                "that is left out has no copy on the border of the cut mesh")
    # --- union-find over the singular vertices plus the border sentinel
    ufs = [(st, t.id) for st in au.stmts(fn.body) if isinstance(st, (ast.Assign, ast.AnnAssign)) and isinstance(st.value, ast.Call)
           and au.call_tail(st.value) == "UnionFind" for t in au.assign_targets(st) if isinstance(t, ast.Name)]
    if len(ufs) != 1:
        ctx.undecided(R, site, "the union-find of Kruskal's algorithm over the singular vertices was not recognised", "")
        return
    ufst, uf = ufs[0]
    if ufst.value.args:
        dom = ufst.value.args[0]
        # resolve local names but keep what they are made of visible
        domr = F.resolve(dom, ufst, keep=("self",))
        if isinstance(domr, ast.Name):
            d_ = F.definition(domr.id, ufst)
            domr = d_ if d_ is not None else domr
        has_sing = any(F.table_key(n, ufst) == "self.singularities" for n in ast.walk(domr) if isinstance(n, (ast.Attribute, ast.Name)))
        has_sent = any(_is_sentinel(ctx, F, n, ufst) for n in ast.walk(domr) if isinstance(n, (ast.Name, ast.Attribute, ast.UnaryOp, ast.Constant)))
        if has_sing and has_sent:
            ctx.ok(R, S(ufst), "union-find over singularities + BORDER")
        elif has_sing and not has_sent and au.is_self_attr(domr, "singularities") and \
                [c_ for c_ in au.calls(fn) if isinstance(c_.func, ast.Attribute) and isinstance(c_.func.value, ast.Name) and c_.func.value.id == uf
                 and c_.func.attr not in ("union", "connected", "find")]:
            ctx.undecided(R, S(ufst), "elements are added to the union-find of Kruskal's algorithm after its creation", "")
        elif has_sing and not has_sent and au.is_self_attr(domr, "singularities"):
            ctx.fail(R, S(ufst), "the union-find ranges over the singular vertices without the border sentinel", why_tree)
        else:
            ctx.undecided(R, S(ufst), "the domain of the union-find of Kruskal's algorithm is not recognised", "")
    else:
        ctx.ok(R, S(ufst), "union-find filled by union")
    # --- candidates: a dict filled for every pair and for (BORDER, a) inside a loop over the singular vertices
    cand = {}
    for st, tg, val in hr.item_stores(fn):
        if not isinstance(tg.value, ast.Name) or val is None:
            continue
        loops = [a for a in au.ancestors(st) if isinstance(a, ast.For)]
        if loops and any(F.table_key(n, loops[-1]) == "self.singularities" for n in ast.walk(loops[-1].iter) if isinstance(n, (ast.Attribute, ast.Name))):
            cand.setdefault(F.root(tg.value.id, st), []).append((st, tg, val, loops))
    cands = [k for k, v in cand.items() if len(v) >= 2]
    if len(cands) != 1:
        ctx.undecided(R, site, "the table of candidate paths (singularity to singularity, singularity to border) was not recognised", "")
        return
    D = cands[0]
    n_border = n_pair = 0
    for st, tg, val, loops in cand[D]:
        outer = loops[-1]
        conds = F.conds(st, stop=outer)
        vr = F.resolve(val, st, keep=("self",))
        if isinstance(vr, ast.Call) and au.call_tail(vr) == "shortest_path_to_border":
            n_border += 1
            bad = []
            foreign = []
            lvars = set()
            for l_ in loops:
                lvars |= set(au.assigned_names(l_.target))
            for e, p in conds:
                e, p = _none_selector(F, e, p, st)
                er = F.resolve(e, st, keep=("self",))
                if p and "boundary" in au.src(er) and not any(isinstance(n, ast.Call) and au.call_tail(n) in ("is_vertex_on_border",) for n in ast.walk(er)):
                    continue
                # contradicted only by a test on the singular vertex itself; a condition on anything else is not understood
                if au.names(e) & lvars or au.names(F.resolve(e, st, keep=tuple(lvars) + ("self",))) & lvars:
                    bad.append((e, p))
                else:
                    foreign.append((e, p))
            key = tg.slice
            okk = isinstance(key, ast.Tuple) and len(key.elts) == 2 and any(_is_sentinel(ctx, F, e, st) for e in key.elts)
            if not okk and isinstance(key, ast.Tuple) and len(key.elts) == 2:
                # key part `x` with x = (BORDER if t else None), the store being under `x is not None`
                for k_ in key.elts:
                    d_ = F.definition(k_.id, st) if isinstance(k_, ast.Name) else None
                    if isinstance(d_, ast.IfExp) and hr.is_none(d_.body) != hr.is_none(d_.orelse) \
                            and _is_sentinel(ctx, F, d_.orelse if hr.is_none(d_.body) else d_.body, st) \
                            and any(_none_selector(F, e, p, st)[0] is not e and isinstance(e, ast.Compare) and isinstance(e.left, ast.Name)
                                    and e.left.id == k_.id for e, p in conds):
                        okk = True
            n_border_stores = len([1 for st2_, tg2_, v2_, lp2_ in cand[D] if isinstance(tg2_.slice, ast.Tuple) and hr.same(tg2_.slice, tg.slice)])
            self_tests = [e_ for e_, p_ in bad if isinstance(e_, ast.Compare) and isinstance(e_.ops[0], (ast.In, ast.NotIn)) and
                          any(isinstance(n_, ast.Name) and F.root(n_.id, st) == D for n_ in ast.walk(e_.comparators[0]))]
            flag_tests = [e_ for e_, p_ in bad if hr.flag_test(e_, p_) is not None]
            # the candidate is skipped exactly for the singular vertices that lie on the border: `a not in <boundary vertices>` / `not is_vertex_on_border(a)`
            skip_on_border = []
            for e_, p_ in bad:
                er_ = F.resolve(e_, st, keep=tuple(lvars) + ("self",))
                for x_, q_ in ((e_, p_), (er_, p_)):
                    while isinstance(x_, ast.UnaryOp) and isinstance(x_.op, ast.Not):
                        x_, q_ = x_.operand, not q_
                    if isinstance(x_, ast.Compare) and len(x_.ops) == 1 and isinstance(x_.ops[0], (ast.In, ast.NotIn)) and isinstance(x_.left, ast.Name) \
                            and x_.left.id in lvars:
                        rhs_ = F.resolve(x_.comparators[0], st, keep=("self",))
                        if isinstance(rhs_, ast.Name) and F.definition(rhs_.id, st) is not None:
                            rhs_ = F.definition(rhs_.id, st)
                        inside_ = isinstance(x_.ops[0], ast.In) == q_
                        if any(isinstance(n_, ast.Attribute) and n_.attr == "boundary_vertices" for n_ in ast.walk(rhs_)) and not inside_:
                            skip_on_border.append(e_)
                            break
                    if isinstance(x_, ast.Call) and au.call_tail(x_) == "is_vertex_on_border" and len(x_.args) == 1 and isinstance(x_.args[0], ast.Name) \
                            and x_.args[0].id in lvars and not q_:
                        skip_on_border.append(e_)
                        break
            n_unions = len([c_ for c_ in au.calls(fn) if isinstance(c_.func, ast.Attribute) and c_.func.attr == "union"])
            if bad and len(skip_on_border) == len(bad) and n_border_stores == 1 and not self_tests and not foreign_nonborder(foreign) and okk and n_unions <= 1:
                ctx.fail(R, S(st), "the link to the border is not recorded for a singular vertex that lies on the border",
                         "every singular vertex needs its candidate link to the border whenever the mesh has one, the zero-length link of a border vertex "
                         "included: without it Kruskal never joins that vertex to the BORDER node and links it to the border a second time through "
                         "another singular vertex (the cut closes a loop)")
            elif bad and (n_border_stores > 1 or self_tests or len(flag_tests) == len(bad)):
                ctx.undecided(R, S(st), "the border candidate is recorded on several branches / under a test on the candidate table itself", "")
            elif not bad and not foreign and okk:
                ctx.ok(R, S(st), "(BORDER, a) candidate for every singularity")
            elif not bad and foreign:
                ctx.undecided(R, S(st), "the condition under which the border candidate is recorded is not recognised", "")
            elif bad:
                ctx.fail(R, S(st), "the path from a singular vertex to the border is recorded only under an extra condition",
                         "every singular vertex needs its candidate link to the border whenever the mesh has one (a zero-length link included)")
            else:
                ctx.undecided(R, S(st), "the key of the border candidate is not recognised", "")
        else:
            n_pair += 1
            conds = [(e, p) for e, p in conds if not (isinstance(e, ast.Compare) and len(e.ops) == 1 and isinstance(e.ops[0], ast.Eq) and not p
                                                      and isinstance(e.left, ast.Name) and isinstance(e.comparators[0], ast.Name))]
            # `if targets:` around the search: with no target left there is no pair to record
            targs_ = {au.src(a_) for c_ in au.calls(fn) if au.call_tail(c_) == "shortest_path" and len(c_.args) >= 3 for a_ in [c_.args[2]]}
            conds = [(e, p) for e, p in conds if not (p and isinstance(e, ast.Name) and e.id in targs_)
                     and not (p and isinstance(e, ast.Call) and au.call_tail(e) == "len" and len(e.args) == 1 and au.src(e.args[0]) in targs_)]
            if conds:
                ctx.undecided(R, S(st), "a candidate path between two singular vertices is recorded under a condition the rule does not recognise", "")
            elif False:
                ctx.fail(R, S(st), "a candidate path between two singular vertices is recorded only under a condition", why_tree)
            else:
                ctx.ok(R, S(st), "pair candidates recorded unconditionally")
    if not (n_border == 1 and n_pair >= 1):
        ctx.undecided(R, site, "candidate links singularity-border / singularity-singularity are not both recognised", "")
    # shortest_path targets cover the remaining singular vertices
    for c in au.calls(fn):
        if au.call_tail(c) == "shortest_path" and len(c.args) >= 3:
            t = F.b.resolve(c.args[2], at=au.enclosing_stmt(c), keep=("self",))
            sl = [n for n in ast.walk(t) if isinstance(n, ast.Subscript) and isinstance(n.slice, ast.Slice) and au.is_self_attr(n.value, "singularities")]
            whole = any(au.is_self_attr(n, "singularities") or au.is_self_attr(n, "singu_set") for n in ast.walk(t)) and not sl
            if whole:
                ctx.ok(R, S(c), "targets = the singular vertices")
            elif sl:
                lo = sl[0].slice.lower
                enum = [a for a in au.ancestors(c) if isinstance(a, ast.For) and isinstance(a.iter, ast.Call) and au.call_tail(a.iter) == "enumerate"]
                iname = enum[0].target.elts[0].id if enum and isinstance(enum[0].target, ast.Tuple) else None
                if sl[0].slice.upper is None and lo is not None and iname and au.src(lo) == iname:
                    ctx.ok(R, S(c), "targets = the remaining singular vertices")
                elif sl[0].slice.upper is None and lo is not None and iname and au.src(lo).replace(" ", "") == iname + "+1":
                    ctx.ok(R, S(c), "targets = the remaining singular vertices")
                else:
                    ctx.undecided(R, S(c), "the targets of the pair candidates are a slice the rule does not recognise", "")
            else:
                ctx.undecided(R, S(c), "the targets of the pair candidates are not recognised", "")
    # --- every candidate enters the weighed list, unconditionally; the list is sorted ascending
    L = None
    weighed = None          # True / 'cond' / None
    sorted_ok = None
    # (a) append loop over D
    for c in au.calls(fn):
        if au.call_tail(c) == "append" and isinstance(c.func.value, ast.Name) and c.args and isinstance(c.args[0], ast.Tuple):
            loops = [a for a in au.ancestors(c) if isinstance(a, ast.For)]
            if loops and any(isinstance(n, ast.Name) and F.root(n.id, loops[0]) == D for n in ast.walk(loops[0].iter)):
                L = c.func.value.id
                weighed = _weigh_conds([e for e, p_ in F.conds(c, stop=loops[0])], [(e, p_) for e, p_ in F.conds(c, stop=loops[0])],
                                       exclude=set(au.assigned_names(loops[0].target)) if isinstance(loops[0].iter, ast.Name) else ())
                wl_node = c
    # (b) comprehension over D
    if L is None:
        for st in au.stmts(fn.body):
            for nm, v in sym.split_assign(st):
                comp = v
                srt = False
                if isinstance(comp, ast.Call) and au.call_tail(comp) in ("sorted", "list") and len(comp.args) == 1:
                    srt = au.call_tail(comp) == "sorted" and not any(k.arg == "reverse" and au.const(k.value) is not False for k in comp.keywords) \
                        and not any(k.arg == "key" for k in comp.keywords)
                    comp = comp.args[0]
                if isinstance(comp, (ast.ListComp, ast.GeneratorExp)) and len(comp.generators) == 1 and isinstance(comp.elt, ast.Tuple) \
                        and any(isinstance(n, ast.Name) and F.root(n.id, st) == D for n in ast.walk(comp.generators[0].iter)):
                    L = nm
                    weighed = _weigh_conds(list(comp.generators[0].ifs), sk.atoms([(t_, True) for t_ in comp.generators[0].ifs]),
                                           exclude=set(au.assigned_names(comp.generators[0].target)) if isinstance(comp.generators[0].iter, ast.Name) else ())
                    wl_node = st
                    if srt:
                        sorted_ok = True
    if L is None:
        ctx.undecided(R, site, "the list of (length, candidate) pairs built from every candidate path was not recognised", "")
        return
    if weighed is True:
        ctx.ok(R, S(wl_node), "every candidate is weighed")
    elif weighed is None:
        ctx.undecided(R, S(wl_node), "a candidate path enters Kruskal's list under a condition the rule does not recognise", "")
    else:
        ctx.fail(R, S(wl_node), "a candidate path enters Kruskal's list only under a condition on its length",
                 "a candidate that is filtered out (e.g. the zero-length link of a singular vertex lying on the border) leaves its end points "
                 "to be joined through a longer path or not at all")
    # selection loop
    sel_loops = [st for st in au.stmts(fn.body) if isinstance(st, ast.For) and any(isinstance(n, ast.Name) and F.root(n.id, st) == F.root(L, st) for n in ast.walk(st.iter))
                 and any(au.call_tail(c) == "union" for c in au.calls(st))]
    if len(sel_loops) != 1:
        ctx.undecided(R, site, "Kruskal's selection loop over the weighed candidates was not recognised", "")
        return
    sel = sel_loops[0]
    if sorted_ok is None:
        if isinstance(sel.iter, ast.Call) and au.call_tail(sel.iter) == "sorted" and not sel.iter.keywords:
            sorted_ok = True
        else:
            sorts = [c for c in au.calls(fn) if au.call_tail(c) == "sort" and isinstance(c.func, ast.Attribute) and isinstance(c.func.value, ast.Name)
                     and F.root(c.func.value.id, c) == F.root(L, c) and F.before(c, sel) and F.before(wl_node, c)]
            if len(sorts) == 1 and not sorts[0].keywords and F.unconditional(sorts[0], sel):
                sorted_ok = True
            elif len(sorts) == 1 and any(k.arg == "reverse" and au.const(k.value) is True for k in sorts[0].keywords):
                sorted_ok = None if (isinstance(sel.iter, ast.Call) and au.call_tail(sel.iter) == "reversed") or \
                    any(isinstance(n_, ast.Slice) and n_.step is not None for n_ in ast.walk(sel.iter)) else False
            elif not sorts and not F.opaque(fn, {L}):
                d_ = F.definition(L, sel)
                sortish = [c for c in au.calls(fn) if "sort" in (au.call_tail(c) or "") or (au.call_tail(c) or "").startswith("heap")
                           or (au.call_tail(c) or "") in ("min", "max", "nsmallest", "nlargest", "bisect", "bisect_left", "bisect_right")]
                if isinstance(d_, ast.Call) and au.call_tail(d_) == "sorted":
                    sorted_ok = True
                elif not sortish:
                    sorted_ok = False
    if sorted_ok is True:
        ctx.ok(R, S(sel), "sorted ascending")
    elif sorted_ok is False:
        ctx.fail(R, S(sel), "the candidates are not sorted by increasing length before the selection",
                 "Kruskal on unsorted candidates still spans but the cut is no longer the minimal one the cutter documents")
    else:
        ctx.undecided(R, S(sel), "the sort of the weighed candidates is not recognised", "")
    # selection: record + union under `not connected`
    unions = [c for c in au.calls(sel) if au.call_tail(c) == "union" and isinstance(c.func.value, ast.Name) and c.func.value.id == uf and len(c.args) == 2]
    selected = None
    if len(unions) == 1:
        u = unions[0]
        conds = F.conds(u, stop=sel)
        def as_connected(e):
            """uf.connected(a, b) / uf.find(a) == uf.find(b) -> the pair of arguments, else None"""
            if isinstance(e, ast.Call) and au.call_tail(e) == "connected":
                return e
            if isinstance(e, ast.Compare) and len(e.ops) == 1 and isinstance(e.ops[0], ast.Eq):
                sides = [e.left, e.comparators[0]]
                if all(isinstance(x, ast.Call) and au.call_tail(x) == "find" and len(x.args) == 1 for x in sides):
                    return ast.Call(func=ast.Name(id="connected", ctx=ast.Load()), args=[x.args[0] for x in sides], keywords=[])
            return None
        g = [(as_connected(e), p) for e, p in conds if as_connected(e) is not None]
        rest = [(e, p) for e, p in conds if as_connected(e) is None]
        same_pair = g and {au.src(a) for a in g[0][0].args} == {au.src(a) for a in u.args}
        ukey = {(hr.key(e), p) for e, p in conds}
        recs = [c for c in au.calls(sel) if au.call_tail(c) in ("append", "add") and isinstance(c.func.value, ast.Name) and len(c.args) == 1]
        if len(g) == 1 and same_pair and not g[0][1] and not rest:
            same = [c for c in recs if {(hr.key(e), p) for e, p in F.conds(c, stop=sel)} == ukey]
            if len(recs) == 1 and len(same) == 1:
                ctx.ok(R, S(sel), "selected iff not connected; union with the record")
                selected = recs[0].func.value.id
            elif len(recs) == 1:
                ctx.fail(R, S(sel), "a candidate is not selected exactly when its end points are not yet connected (record + union under one test)",
                         "the record of the selected candidate and the union are not executed under the same test")
            elif not recs:
                # no list of selected candidates: the edges of a path are flagged as soon as the path is selected (same test as the union)
                inner_ = [s_ for s_ in au.stmts(sel.body) if isinstance(s_, ast.For) and {(hr.key(e), p) for e, p in F.conds(s_, stop=sel)} == ukey]
                fused = None
                if len(inner_) == 1:
                    P_ = _consecutive_pairs(F, inner_[0])
                    st_ = [(s_, tg_, v_) for s_, tg_, v_ in hr.item_stores(inner_[0]) if v_ is not None and au.const(v_) is True]
                    if isinstance(P_, tuple):
                        fused = P_[1]
                    elif P_ is not None and len(st_) == 1 and not F.conds(st_[0][0], stop=inner_[0]):
                        Pr_ = P_
                        if isinstance(Pr_, ast.Name):
                            d_ = F.definition(Pr_.id, inner_[0])
                            Pr_ = d_ if d_ is not None else Pr_
                        key_ = F.resolve(st_[0][1].slice, st_[0][0], keep=("self",))
                        from_D_ = isinstance(Pr_, ast.Subscript) and isinstance(Pr_.value, ast.Name) and F.root(Pr_.value.id, inner_[0]) == D
                        cand_key = sel.target.elts[-1] if isinstance(sel.target, ast.Tuple) else sel.target
                        right_key = from_D_ and (hr.same(Pr_.slice, cand_key) or
                                                 (isinstance(Pr_.slice, ast.Tuple) and {au.src(x_) for x_ in Pr_.slice.elts} == {au.src(a_) for a_ in u.args}))
                        if right_key and isinstance(key_, ast.Call) and au.call_tail(key_) == "edge_id" and len(key_.args) == 2:
                            fused = True
                if fused is True:
                    ctx.ok(R, S(sel), "selected iff not connected; the edges of the path are flagged with the union")
                elif isinstance(fused, str):
                    ctx.fail(R, site, "the edges of the selected paths are not all flagged (every consecutive pair of every selected path, unconditionally)",
                             "an unflagged edge of the spanning tree may be crossed by the dual tree: the singular vertices are then no longer joined by cuts: " + fused)
                else:
                    ctx.undecided(R, S(sel), "the record of the selected candidates is not recognised", "")
            else:
                ctx.undecided(R, S(sel), "the record of the selected candidates is not recognised", "")
        elif len(g) == 1 and same_pair and g[0][1] and not rest:
            ctx.fail(R, S(sel), "a candidate is not selected exactly when its end points are not yet connected (record + union under one test)",
                     "the test is inverted: only candidates that close a cycle are selected")
        elif not conds:
            r_conds = [F.conds(c, stop=sel) for c in recs]
            if len(recs) == 1 and r_conds[0] and all(as_connected(e_) is not None and not p_ for e_, p_ in r_conds[0]):
                ctx.ok(R, S(sel), "record under `not connected`; the unconditional union changes nothing for connected end points")
                selected = recs[0].func.value.id
            else:
                ctx.undecided(R, S(sel), "Kruskal's selection is not recognised", "")
        else:
            ctx.undecided(R, S(sel), "the guard of Kruskal's union is not recognised", "")
    else:
        ctx.undecided(R, S(sel), "Kruskal's union call is not recognised", f"{len(unions)} union call(s)")
    if selected is None:
        return
    # --- flagging: every consecutive pair of every selected path
    flag_loops = [st for st in au.stmts(fn.body) if isinstance(st, ast.For) and F.before(sel, st) and not F.inside(st, sel)
                  and any(isinstance(n, ast.Name) and F.root(n.id, st) == F.root(selected, st) for n in ast.walk(st.iter))]
    flag_loops = [l for l in flag_loops if not any(l is not o and F.inside(l, o) for o in flag_loops)]
    verdict = None
    if len(flag_loops) == 1:
        fl = flag_loops[0]
        inner = [s for s in au.stmts(fl.body) if isinstance(s, ast.For)]
        if len(inner) == 1:
            P = _consecutive_pairs(F, inner[0])
            stores = [(s, tg, val) for s, tg, val in hr.item_stores(inner[0]) if val is not None and au.const(val) is True]
            extra_flags = [s_ for s_, tg_, val_ in hr.item_stores(fl) if val_ is not None and au.const(val_) is True and not F.inside(s_, inner[0])]
            if isinstance(P, tuple) and extra_flags:
                verdict = None          # a pair handled outside the loop (peeled iteration)
            elif isinstance(P, tuple):
                verdict = P[1]
            elif P is not None and len(stores) == 1 and not F.conds(stores[0][0], stop=fl):
                Pr = P
                if isinstance(Pr, ast.Name):
                    d_ = F.definition(Pr.id, inner[0])
                    Pr = d_ if d_ is not None else Pr
                key = F.resolve(stores[0][1].slice, stores[0][0], keep=("self",))
                from_D = isinstance(Pr, ast.Subscript) and isinstance(Pr.value, ast.Name) and F.root(Pr.value.id, inner[0]) == D
                if from_D and isinstance(key, ast.Call) and au.call_tail(key) == "edge_id" and len(key.args) == 2:
                    verdict = True
            elif P is not None and len(stores) == 1:
                verdict = None
    if verdict is True:
        ctx.ok(R, site, "all edges of all selected paths flagged")
    elif verdict is None:
        ctx.undecided(R, site, "the flagging of the edges of the selected paths is not recognised", "")
    else:
        ctx.fail(R, site, "the edges of the selected paths are not all flagged (every consecutive pair of every selected path, unconditionally)",
                 "an unflagged edge of the spanning tree may be crossed by the dual tree: the singular vertices are then no longer joined by cuts: " + verdict)


def _k2_mark_on_push(F, fn, w, Q, v, closest):
    """for e in vertex_to_edges(v): [e in feature_edges] nv = other_edge_end(e, v) ; [not visited[nv]] visited[nv] = True ; flags[e] = True ; Q.append(nv)
    with every landing point marked and queued (unconditionally) before the loop.  First discovery = first pop in a FIFO search: same tree as marking at the pop."""
    pushes = [c for c in au.calls(w) if isinstance(c.func, ast.Attribute) and isinstance(c.func.value, ast.Name) and c.func.value.id == Q and c.func.attr == "append" and len(c.args) == 1]
    if len(pushes) != 1 or not isinstance(pushes[0].args[0], ast.Name):
        return False
    c = pushes[0]
    nv = pushes[0].args[0].id
    loops = [a for a in au.ancestors(c) if isinstance(a, ast.For) and F.inside(a, w)]
    if len(loops) != 1 or not isinstance(loops[0].target, ast.Name):
        return False
    lp = loops[0]
    e = lp.target.id
    it = lp.iter
    if not (isinstance(it, ast.Call) and au.call_tail(it) == "vertex_to_edges" and len(it.args) == 1 and isinstance(it.args[0], ast.Name) and F.root(it.args[0].id, lp) == v):
        return False
    nvd = F.definition(nv, c)
    if not (isinstance(nvd, ast.Call) and au.call_tail(nvd) == "other_edge_end" and len(nvd.args) == 2 and
            sorted(F.root(a.id, c) if isinstance(a, ast.Name) else "?" for a in nvd.args) == sorted([e, v])):
        return False
    conds = F.conds(c, stop=w)
    VIS = None
    feat = False
    for t, p in conds:
        ft = hr.flag_test(t, p)
        if isinstance(t, ast.Compare) and isinstance(t.ops[0], ast.In) and isinstance(t.left, ast.Name) and t.left.id == e and "feature_edges" in (F.table_key(t.comparators[0], c) or ""):
            if not p:
                return False
            feat = True
        elif ft and isinstance(ft[0], ast.Name) and isinstance(ft[1], ast.Name) and ft[1].id == nv and ft[2] is False:
            VIS = ft[0].id
        else:
            return False
    if not feat or VIS is None:
        return False
    ckey = {(hr.key(t), p) for t, p in conds}
    marks = [st for st in au.stmts(lp.body) if (fm := hr.flag_mark(st)) and isinstance(fm[0], ast.Name) and fm[0].id == VIS and isinstance(fm[1], ast.Name) and fm[1].id == nv
             and fm[2] is True and {(hr.key(t), p) for t, p in F.conds(st, stop=w)} == ckey]
    flags = [(st, tg, val) for st, tg, val in hr.item_stores(lp) if val is not None and au.const(val) is True and isinstance(tg.value, ast.Name) and tg.value.id != VIS
             and isinstance(tg.slice, ast.Name) and F.root(tg.slice.id, st) == e and {(hr.key(t), p) for t, p in F.conds(st, stop=w)} == ckey]
    if len(marks) != 1 or len(flags) != 1:
        return False
    # landing points: marked and queued before the loop, unconditionally, for every element of `closest`
    seeds = [c2 for c2 in au.calls(fn) if isinstance(c2.func, ast.Attribute) and isinstance(c2.func.value, ast.Name) and c2.func.value.id == Q and c2.func.attr == "append"
             and F.before(c2, w) and not F.inside(c2, w)]
    if len(seeds) != 1 or not isinstance(seeds[0].args[0], ast.Name):
        return False
    sl = [a for a in au.ancestors(seeds[0]) if isinstance(a, ast.For)]
    if not sl or not any(isinstance(n, ast.Name) and F.root(n.id, sl[0]) == F.root(closest, sl[0]) for n in ast.walk(sl[0].iter)) or F.conds(seeds[0], stop=sl[0]):
        return False
    smarks = [st for st in au.stmts(sl[0].body) if (fm := hr.flag_mark(st)) and isinstance(fm[0], ast.Name) and F.root(fm[0].id, st) == F.root(VIS, w)
              and isinstance(fm[1], ast.Name) and fm[1].id == seeds[0].args[0].id and fm[2] is True and not F.conds(st, stop=sl[0])]
    iv, found = F.initial_values(VIS, sl[0])
    all_false = found and iv and all(isinstance(x, ast.Constant) and x.value is False for x in iv)
    return len(smarks) == 1 and bool(all_false) and not F.opaque(w)


def k2_spanning_tree_with_features(ctx):
    fn0, F = _flat(ctx, "_build_singularity_spanning_tree_with_features")
    fn = F.fn
    site = ctx.site(CUT, fn0)
    R = "C16-K2"
    why = "with feature edges the singular vertices are joined to the feature graph, which is then spanned: every link must be cut"

    def S(n):
        return ctx.site(CUT, fn0, n)
    loops = [st for st in au.stmts(fn.body) if isinstance(st, ast.For) and F.table_key(st.iter, st) in ("self.singularities", "self.singu_set")]
    loops = [l for l in loops if any(au.call_tail(c) == "shortest_path_to_vertex_set" for c in au.calls(l))]
    closest = None
    verdict = None
    if len(loops) == 1:
        lp = loops[0]
        calls = [c for c in au.calls(lp) if au.call_tail(c) == "shortest_path_to_vertex_set"]
        inner = [s for s in au.stmts(lp.body) if isinstance(s, ast.For)]
        adds = [c for c in au.calls(lp) if au.call_tail(c) in ("add", "append") and isinstance(c.func.value, ast.Name) and len(c.args) == 1]
        if len(calls) == 1 and len(inner) == 1 and len(adds) == 1 and not F.conds(adds[0], stop=lp):
            closest = adds[0].func.value.id
            P = _consecutive_pairs(F, inner[0])
            stores = [(s, tg, val) for s, tg, val in hr.item_stores(inner[0]) if val is not None and au.const(val) is True]
            tgt = au.src(F.b.resolve(calls[0].args[2], at=au.enclosing_stmt(calls[0]), keep=("self",))) if len(calls[0].args) >= 3 else ""
            if isinstance(P, tuple):
                verdict = P[1]
            elif P is not None and len(stores) == 1 and "feature_vertices" in tgt:
                if F.conds(stores[0][0], stop=lp):
                    verdict = None
                else:
                    key = F.resolve(stores[0][1].slice, stores[0][0], keep=("self",))
                    if isinstance(key, ast.Call) and au.call_tail(key) == "edge_id":
                        verdict = True
    if verdict is True:
        ctx.ok(R, site, "singularity -> feature graph links flagged edge by edge")
    elif verdict is None:
        ctx.undecided(R, site, "the linking of the singular vertices to the feature graph is not recognised", "")
    else:
        ctx.fail(R, site, "not every singular vertex is linked to the feature graph by a fully flagged shortest path", why + ": " + verdict)
    # BFS over the feature graph from every landing point
    wl = [st for st in au.stmts(fn.body) if isinstance(st, ast.While)]
    if len(wl) != 1 or not closest:
        ctx.undecided(R, site, "the breadth-first spanning of the feature graph is not recognised", "")
        return
    w = wl[0]
    pops = [c for c in au.calls(w) if au.call_tail(c) in ("popleft", "pop") and isinstance(c.func.value, ast.Name)]
    if len(pops) != 1:
        ctx.undecided(R, S(w), "the work-list of the feature-graph search is not recognised", "")
        return
    Q = pops[0].func.value.id
    fifo = pops[0].func.attr == "popleft"
    pst = au.enclosing_stmt(pops[0])
    pair = [x.id for x in pst.targets[0].elts] if isinstance(pst, ast.Assign) and isinstance(pst.targets[0], ast.Tuple) and len(pst.targets[0].elts) == 2 \
        and all(isinstance(x, ast.Name) for x in pst.targets[0].elts) else None
    if pair is None and isinstance(pst, ast.Assign) and len(pst.targets) == 1 and isinstance(pst.targets[0], ast.Name) and pst.value is pops[0] and fifo:
        # breadth-first search that marks a vertex when it is discovered: entries are plain vertices, the tree edge is flagged at the discovery
        v1 = pst.targets[0].id
        ok_ = _k2_mark_on_push(F, fn, w, Q, v1, closest)
        if ok_:
            ctx.ok(R, site, "BFS tree of the feature graph flagged (vertices marked when discovered)")
        else:
            ctx.undecided(R, S(w), "the feature-graph search marks vertices when they are discovered in a form the rule does not recognise", "")
        return
    if pair is None:
        ctx.undecided(R, S(w), "the entry popped by the feature-graph search is not a (vertex, previous) pair", "")
        return
    v, prev = pair
    seeds = [c for c in au.calls(fn) if isinstance(c.func, ast.Attribute) and isinstance(c.func.value, ast.Name) and c.func.value.id == Q and c.func.attr == "append"
             and F.before(c, w) and not F.inside(c, w)]
    seed_ok = None
    if len(seeds) == 1:
        sl = [a for a in au.ancestors(seeds[0]) if isinstance(a, ast.For)]
        if sl and any(isinstance(n, ast.Name) and F.root(n.id, sl[0]) == F.root(closest, sl[0]) for n in ast.walk(sl[0].iter)):
            seed_ok = not F.conds(seeds[0], stop=sl[0])
    flags = [(s, tg, val) for s, tg, val in hr.item_stores(w) if val is not None and au.const(val) is True
             and isinstance(F.resolve(tg.slice, s, keep=("self",)), ast.Call) and au.call_tail(F.resolve(tg.slice, s, keep=("self",))) == "edge_id"]
    flag_v = None
    if len(flags) == 1:
        s, tg, val = flags[0]
        key = F.resolve(tg.slice, s, keep=("self", v, prev))
        rest = []
        for e, p in F.conds(s, stop=w):
            ft = hr.flag_test(e, p)
            if ft and isinstance(ft[1], ast.Name) and ft[1].id == v and ft[2] is False:
                continue
            x = e.left if isinstance(e, ast.Compare) and len(e.ops) == 1 and isinstance(e.ops[0], (ast.Is, ast.Eq)) and hr.is_none(e.comparators[0]) else None
            if x is not None and isinstance(x, ast.Name) and x.id == prev and not p:
                continue
            rest.append((e, p))
        if {au.src(a) for a in key.args} == {v, prev} and not rest and not any(F.inside(s, a) for a in au.stmts(w.body) if isinstance(a, ast.For)):
            flag_v = True
        elif {au.src(a) for a in key.args} == {v, prev} and rest:
            flag_v = None
            if any(isinstance(e, ast.Compare) and isinstance(e.ops[0], ast.In) and p and isinstance(e.left, ast.Name) and e.left.id == prev
                   and isinstance(e.comparators[0], ast.Name) and F.root(e.comparators[0].id, s) == F.root(closest, s) for e, p in rest):
                flag_v = "a tree edge of the feature graph is flagged only when it leaves a landing point"
        elif any(F.inside(s, a) for a in au.stmts(w.body) if isinstance(a, ast.For)) and not any(hr.flag_test(e, p) for e, p in F.conds(s, stop=w)) \
                and not F.opaque(w, set()):
            flag_v = "edges are flagged when a vertex is discovered, not when it enters the tree: non-tree feature edges get flagged"
    feat_guard = None
    for c in au.calls(w):
        if isinstance(c.func, ast.Attribute) and isinstance(c.func.value, ast.Name) and c.func.value.id == Q and c.func.attr == "append":
            has = False
            for e, p in F.conds(c, stop=w):
                if isinstance(e, ast.Compare) and len(e.ops) == 1 and isinstance(e.ops[0], ast.In) and "feature_edges" in F.table_key(e.comparators[0], c):
                    has = p
            feat_guard = has if feat_guard is None else (feat_guard and has)
    if seed_ok and fifo and flag_v is True and feat_guard:
        ctx.ok(R, site, "BFS tree of the feature graph flagged")
    elif isinstance(flag_v, str):
        ctx.fail(R, site, "the feature graph is not spanned breadth-first from every landing point with each tree edge flagged", why + ": " + flag_v)
    else:
        ctx.undecided(R, site, "the breadth-first spanning of the feature graph is not recognised", "")


# =============================================================================================== dual Dijkstra (C16-D*)
class _Renamed:
    """view of a Ctx that files the obligations of a sibling rule set (C09-D1..D4) under this property's rule names"""

    def __init__(self, ctx, mapping):
        self._ctx, self._map = ctx, mapping

    def __getattr__(self, k):
        return getattr(self._ctx, k)

    def ok(self, rule, site, note=""):
        return self._ctx.ok(self._map.get(rule, rule), site, note)

    def fail(self, rule, site, construct, what, **detail):
        return self._ctx.fail(self._map.get(rule, rule), site, construct, what, **detail)

    def undecided(self, rule, site, construct, what="", **detail):
        return self._ctx.undecided(self._map.get(rule, rule), site, construct, what, **detail)

    def check(self, cond, rule, site, construct, what, note="", **detail):
        return self._ctx.check(cond, self._map.get(rule, rule), site, construct, what, note=note, **detail)


DUAL = ("_build_dual_tree_no_features", "_build_dual_tree_with_features")


def d1_dual_trees(ctx):
    from . import c09
    sub = _Renamed(ctx, {"C09-D1": "C16-D1", "C09-D2": "C16-D1", "C09-D3": "C16-D1", "C09-D4": "C16-D1", "C09-Q1": "C16-D1"})
    item = c09.q1_priority_queue(_Renamed(ctx, {k: "C16-D1" for k in c09.RULES}))
    # the dual searches are found by role: the methods of the cutter that drive a PriorityQueue (the historical names first)
    names = [n_ for n_ in DUAL if ctx.repo.has_func(CUT, f"{CLS}.{n_}")]
    if len(names) < len(DUAL):
        cls_node = ctx.repo.cls(CUT, CLS)
        for m_ in cls_node.body:
            if isinstance(m_, ast.FunctionDef) and m_.name not in names and any(isinstance(c_, ast.Call) and au.call_tail(c_) == "PriorityQueue" for c_ in ast.walk(m_)):
                names.append(m_.name)
    if not names:
        ctx.undecided("C16-D1", ctx.site(CUT, CLS), "no method of the cutter drives a PriorityQueue: the dual search is not found", "")
        return
    for name in names:
        fn0, F = _flat(ctx, name)
        fn = F.fn
        site = ctx.site(CUT, fn0)

        def S(n):
            return ctx.site(CUT, fn0, n)
        n, roles = c09.dijkstra(sub, CUT, fn0, item, want_roles=True)
        if n != 1 or not roles or "LBL" not in roles[0]:
            if n != 1:
                ctx.undecided("C16-D1", site, "the dual Dijkstra loop was not recognised", "")
            continue
        r = roles[0]
        loop, v, nv, LBL, PRED = r["loop"], r["v"], r["nv"], r["LBL"], r.get("PRED")
        Fd = r["F"]
        ps = au.params(fn0, skip_self=True)
        forb = ps[0] if ps else None
        if forb is None:
            ctx.undecided("C16-D2", site, "the table of the spanning-tree edges is not a parameter of the dual search", "")
            continue
        # the tree never crosses an edge of the singularity spanning tree
        relax = [(st, tg, val) for st, tg, val in hr.item_stores(loop) if isinstance(tg.value, ast.Name) and tg.value.id in (LBL, PRED)]
        pushes = [c for c in au.calls(loop) if au.call_tail(c) == "push"]
        evar = None
        okx = True
        unknown = False
        for node in [x[0] for x in relax] + pushes:
            hit = []
            for e, p in Fd.conds(node, stop=loop):
                if isinstance(e, ast.Subscript) and isinstance(e.value, ast.Name) and Fd.root(e.value.id, node) == forb:
                    hit.append((e, p))
                elif isinstance(e, ast.Compare) and len(e.ops) == 1 and isinstance(e.ops[0], ast.In) and isinstance(e.comparators[0], ast.Name) \
                        and Fd.root(e.comparators[0].id, node) == forb:
                    hit.append((ast.Subscript(value=e.comparators[0], slice=e.left, ctx=ast.Load()), p))
            if len(hit) == 1 and hit[0][1] is False:
                evar = au.src(hit[0][0].slice)
            elif len(hit) == 1:
                okx = False
            elif not hit:
                okx = False
            else:
                unknown = True
        eloops = [a for x in relax for a in au.ancestors(x[0]) if isinstance(a, ast.For) and Fd.inside(a, loop)]
        plain_source = bool(eloops) and all(isinstance(a.iter, ast.Call) and au.call_tail(a.iter) in ("face_to_edges", "enumerate", "zip") for a in eloops)
        if okx and evar and not unknown and relax and pushes:
            ctx.ok("C16-D2", S(loop), "spanning-tree edges never crossed")
        elif unknown or not relax or not pushes or not plain_source or \
                [n_ for n_ in au.walk(fn) if isinstance(n_, ast.Name) and Fd.root(n_.id, n_) == forb and isinstance(n_.ctx, ast.Load)
                 and not any(n_ is m_ for x_ in [x[0] for x in relax] + pushes for e_, p_ in Fd.conds(x_, stop=loop) for m_ in ast.walk(e_))]:
            # the table of the spanning-tree edges is consulted somewhere the rule does not follow (a set built from it, a conditional expression ..)
            ctx.undecided("C16-D2", S(loop), "the test that keeps the dual tree off the spanning-tree edges is not recognised", "")
        else:
            _absent(ctx, Fd, loop, "C16-D2", S(loop), "a dual edge is relaxed / queued without the test `not forbidden[edge]`",
                    "the dual tree must not cross the edges that join the singular vertices: those edges have to end up in the cut graph, "
                    "otherwise a singular vertex has no copy on the border")
        # predecessor = the very edge that was tested and crossed
        if PRED is None or evar is None:
            ctx.undecided("C16-D2", S(loop), "the edge recorded for a reached face is not recognised", "")
            continue
        pst = [(st, tg, val) for st, tg, val in relax if tg.value.id == PRED]
        pvals = [Fd.resolve(val, st, keep=(evar,)) if val is not None else None for st, tg, val in pst]
        if pst and all(x is not None and au.src(x) == evar for x in pvals):
            ctx.ok("C16-D2", S(loop), "predecessor edge = crossed edge")
        elif pst and any(isinstance(x, ast.Name) and x.id != evar and x.id in (v, nv) for x in pvals):
            ctx.fail("C16-D2", S(loop), "the edge recorded for a reached face is not the edge that was tested and crossed",
                     "the cut graph is the complement of the recorded dual edges: a face is recorded instead of the edge")
        else:
            ctx.undecided("C16-D2", S(loop), "what is recorded for a reached face is not recognised", "")
        # the neighbour face is the face on the other side of that same edge
        okn = None
        nvd = Fd.definition(nv, pst[0][0]) if pst else None
        if isinstance(nvd, ast.Call) and au.call_tail(nvd) == "opposite_face" and len(nvd.args) == 2 and isinstance(nvd.args[0], ast.Starred) \
                and isinstance(nvd.args[0].value, ast.Subscript) and Fd.table_key(nvd.args[0].value.value, pst[0][0]) == "self.input_mesh.edges" \
                and au.src(nvd.args[0].value.slice) == evar:
            lt = [a for a in au.ancestors(pst[0][0]) if isinstance(a, ast.For) and evar in au.assigned_names(a.target)]
            from_cur = lt and isinstance(lt[0].iter, ast.Call) and au.call_tail(lt[0].iter) == "face_to_edges" and lt[0].iter.args \
                and isinstance(lt[0].iter.args[0], ast.Name) and Fd.root(lt[0].iter.args[0].id, lt[0]) == v
            cur_ok = isinstance(nvd.args[1], ast.Name) and Fd.root(nvd.args[1].id, pst[0][0]) == v
            okn = True if (from_cur and cur_ok) else (False if lt and not cur_ok and isinstance(nvd.args[1], ast.Name) else None)
        elif isinstance(nvd, ast.Call) and au.call_tail(nvd) == "opposite_face" and len(nvd.args) == 3:
            ends = {au.src(a) for a in nvd.args[:2]}
            e_def = [s for s in au.stmts(loop.body) if isinstance(s, ast.Assign) and isinstance(s.targets[0], ast.Tuple)
                     and {x.id for x in s.targets[0].elts if isinstance(x, ast.Name)} == ends
                     and isinstance(s.value, ast.Subscript) and Fd.table_key(s.value.value, s) == "self.input_mesh.edges" and au.src(s.value.slice) == evar]
            lt = [a for a in au.ancestors(pst[0][0]) if isinstance(a, ast.For) and evar in au.assigned_names(a.target)]
            from_cur = lt and isinstance(lt[0].iter, ast.Call) and au.call_tail(lt[0].iter) == "face_to_edges" and lt[0].iter.args \
                and isinstance(lt[0].iter.args[0], ast.Name) and Fd.root(lt[0].iter.args[0].id, lt[0]) == v
            cur_ok = isinstance(nvd.args[2], ast.Name) and Fd.root(nvd.args[2].id, pst[0][0]) == v
            if e_def and from_cur and cur_ok:
                okn = True
            elif e_def and lt and not cur_ok and isinstance(nvd.args[2], ast.Name):
                okn = False
        if okn is True:
            ctx.ok("C16-D2", S(loop), "neighbour across the tested edge")
        elif okn is False:
            ctx.fail("C16-D2", S(loop), "the face reached through the tested edge is not opposite_face(ends of that edge, current face)", "")
        else:
            ctx.undecided("C16-D2", S(loop), "how the face on the other side of the crossed edge is obtained is not recognised", "")
        # result: every recorded edge, nothing else
        rets = [st for st in au.stmts(fn.body) if isinstance(st, ast.Return) and st.value is not None]
        okr = None
        if len(rets) == 1:
            vv = Fd.b.resolve(rets[0].value, at=rets[0], keep=("self", PRED, r.get("VIS") or "_", LBL))
            comp = vv if isinstance(vv, (ast.SetComp,)) else (vv.args[0] if isinstance(vv, ast.Call) and au.call_tail(vv) in ("set", "frozenset") and vv.args
                                                            and isinstance(vv.args[0], (ast.GeneratorExp, ast.ListComp, ast.SetComp)) else None)
            if comp is not None and len(comp.generators) == 1:
                g = comp.generators[0]
                over_faces = au.src(g.iter) in ("self.input_mesh.id_faces", "range(len(self.input_mesh.faces))")
                over_pred = isinstance(g.iter, ast.Name) and Fd.root(g.iter.id, rets[0]) == Fd.root(PRED, rets[0])
                if over_faces and isinstance(comp.elt, ast.Subscript) and isinstance(comp.elt.value, ast.Name) and Fd.root(comp.elt.value.id, rets[0]) == Fd.root(PRED, rets[0]) \
                        and au.src(comp.elt.slice) == au.src(g.target):
                    if len(g.ifs) == 1 and au.canon_test(g.ifs[0]) == au.canon_test(ast.parse(f"{au.src(comp.elt)} is not None", mode="eval").body):
                        okr = True
                    elif len(g.ifs) >= 1 and any(hr.same(t_, comp.elt) for t_ in g.ifs):
                        okr = False          # truthiness of the recorded edge: edge 0 is dropped
                elif over_pred and isinstance(g.target, ast.Name) and au.src(comp.elt) == g.target.id:
                    if len(g.ifs) == 1 and au.canon_test(g.ifs[0]) == f"{g.target.id} is not None":
                        okr = True
                    elif len(g.ifs) == 1 and isinstance(g.ifs[0], ast.Name):
                        okr = False          # truthiness drops edge 0
        if okr is True:
            ctx.ok("C16-D2", site, "returns every dual tree edge")
        elif okr is False:
            ctx.fail("C16-D2", site, "the returned set is not {edge recorded for f : every face f with a recorded edge}",
                     "a dual edge missing from the result is reported as cut and opened (an extra or a truthiness filter drops recorded edges)")
        else:
            ctx.undecided("C16-D2", site, "the set returned by the dual search is not recognised", "")


# =============================================================================================== face regions (C16-R1)
def r1_region_tree(ctx):
    """_build_feature_regions grows a FaceSpanningForest over the faces with the feature / spanning-tree edges as exclusions: the face tree must
    respect them (obligations of C10 on FaceSpanningTree.compute, filed under C16-R1)"""
    from . import c10
    fr0, Fr = _flat(ctx, "_build_feature_regions")
    uses = [c for c in au.calls(Fr.fn) if au.call_tail(c) in ("FaceSpanningForest", "FaceSpanningTree")]
    if not uses:
        ctx.ok("C16-R1", ctx.site(CUT, fr0), "the feature regions are not computed with a face spanning tree")
        return
    sub = _Renamed(ctx, {k: "C16-R1" for k in c10.RULES})
    fn = ctx.repo.func(c10.FACE, "FaceSpanningTree.compute")
    c10.bfs_tree(sub, c10.FACE, "FaceSpanningTree", fn, "faces", ("in", "forbidden_edges"))


# =============================================================================================== ownership of the cut data (C16-A1)
MUTATORS = {"add", "remove", "discard", "update", "clear", "pop", "append", "extend", "insert", "difference_update",
            "intersection_update", "symmetric_difference_update", "sort", "reverse", "setdefault", "popitem"}
TREE_MODULES = ("processing.trees.base", "processing.trees.edge_sp", "processing.trees.face_sp", "processing.trees.cell_sp")
_A1_FIXTURE = """
class T:
    def __init__(self, mesh, forbidden=None):
        if forbidden is None:
            self.forbidden = set()
        else:
            self.forbidden = forbidden
    def compute(self):
        for e in self.mesh.id_edges:
            self.forbidden.add(e)
"""


def _may_be_param(v, ps):
    """the value may be the very object of a parameter: p, `p if c else x`, `p or x`"""
    if isinstance(v, ast.Name) and v.id in ps:
        return v.id
    if isinstance(v, ast.IfExp):
        return _may_be_param(v.body, ps) or _may_be_param(v.orelse, ps)
    if isinstance(v, ast.BoolOp):
        for x in v.values:
            r = _may_be_param(x, ps)
            if r:
                return r
    if isinstance(v, ast.NamedExpr):
        return _may_be_param(v.value, ps)
    return None


def _borrowed_fields(cls):
    """fields that `__init__` binds directly to one of its parameters (the object stays shared with the caller)"""
    out = {}
    for st in cls.body:
        if isinstance(st, ast.FunctionDef) and st.name == "__init__":
            ps = set(au.params(st, skip_self=True))
            for s in au.stmts(st.body):
                if isinstance(s, (ast.Assign, ast.AnnAssign)) and s.value is not None:
                    p = _may_be_param(s.value, ps)
                    if p:
                        for t in au.assign_targets(s):
                            if au.is_self_attr(t):
                                out[t.attr] = p
    return out


def _field_mutations(cls, fields):
    for st in cls.body:
        if not isinstance(st, ast.FunctionDef):
            continue
        # local aliases of the field (`forbidden = self.forbidden_edges`) mutate the same object
        alias = {}
        for s in au.stmts(st.body):
            if isinstance(s, ast.Assign) and len(s.targets) == 1 and isinstance(s.targets[0], ast.Name) and au.is_self_attr(s.value) and s.value.attr in fields:
                alias[s.targets[0].id] = s.value.attr

        def field_of(r):
            while isinstance(r, ast.Subscript):
                r = r.value
            if au.is_self_attr(r) and r.attr in fields:
                return r.attr
            if isinstance(r, ast.Name) and r.id in alias:
                return alias[r.id]
            return None
        for n in au.walk(st, into_funcs=True):
            if isinstance(n, ast.Call) and isinstance(n.func, ast.Attribute) and n.func.attr in MUTATORS:
                f = field_of(n.func.value)
                if f:
                    yield st, n, f, f"self.{f}.{n.func.attr}(..)"
            elif isinstance(n, ast.AugAssign):
                f = field_of(n.target)
                if f:
                    yield st, n, f, f"augmented assignment on self.{f}"
            elif isinstance(n, (ast.Assign, ast.Delete)):
                for t in n.targets:
                    if isinstance(t, ast.Subscript):
                        f = field_of(t)
                        if f:
                            yield st, n, f, f"item store / delete on self.{f}"


def a1_ownership(ctx):
    R = "C16-A1"
    # positive fixture: the matcher must see a borrowed exclusion set being filled
    tree = ast.parse(_A1_FIXTURE)
    for x in ast.walk(tree):
        for c in ast.iter_child_nodes(x):
            c._parent = x
    fx = tree.body[0]
    bf = _borrowed_fields(fx)
    from ..core import AnalysisError
    if bf != {"forbidden": "forbidden"} or len(list(_field_mutations(fx, bf))) != 1:
        raise AnalysisError("C16-A1: built-in fixture (tree filling the exclusion set it borrowed) not recognised")
    n_cls = 0
    for modname in TREE_MODULES:
        m = ctx.repo.module(modname)
        for q, cls in m.classes.items():
            bf = _borrowed_fields(cls)
            other_bf = {k: v for k, v in bf.items() if k not in ("mesh",) and not any(w_ in k.lower() for w_ in ("forbid", "avoid", "excl", "skip", "block"))}
            bf = {k: v for k, v in bf.items() if k not in ("mesh",) and k not in other_bf}
            for fn_, node_, f_, how_ in _field_mutations(cls, other_bf):
                ctx.undecided(R, ctx.site(modname, f"{q}.{fn_.name}", node_), f"{q}: a table handed to the constructor (not an exclusion set) is changed", "")
            if not bf:
                continue
            n_cls += 1
            hits = list(_field_mutations(cls, bf))
            for fn, node, f, how in hits:
                ctx.fail(R, ctx.site(modname, f"{q}.{fn.name}", node), f"{q}: {how} changes the object the caller passed to the constructor",
                         "the exclusion set handed to a tree (the cutter's cut_edges, in the parametrisation code) stays the caller's object: "
                         "filling it during a traversal changes the reported cut edges after the fact")
            if not hits:
                ctx.ok(R, ctx.site(modname, q), f"{q}: borrowed {sorted(bf)} never mutated")
    if n_cls == 0:
        ctx.ok(R, ctx.site(TREE_MODULES[2], "FaceSpanningTree"), "no spanning tree keeps an object of its caller")
    # cutter results are written by the cutter only
    fields = {"cut_edges", "cut_adj", "ref_vertex"}
    n_w = 0
    for modname, m in sorted(ctx.repo.modules.items()):
        for n in ast.walk(m.tree):
            recv = None
            how = None
            if isinstance(n, ast.Call) and isinstance(n.func, ast.Attribute) and n.func.attr in MUTATORS:
                r = n.func.value
                while isinstance(r, ast.Subscript):
                    r = r.value
                if isinstance(r, ast.Attribute) and r.attr in fields:
                    recv, how = r, f".{n.func.attr}(..)"
            elif isinstance(n, (ast.Assign, ast.AugAssign, ast.Delete, ast.AnnAssign)):
                ts = n.targets if isinstance(n, (ast.Assign, ast.Delete)) else [n.target]
                for t in ts:
                    r = t
                    sub = False
                    while isinstance(r, ast.Subscript):
                        r, sub = r.value, True
                    if isinstance(r, ast.Attribute) and r.attr in fields and (sub or isinstance(n, ast.AugAssign) or not au.is_self_attr(r)):
                        recv, how = r, "store"
            if recv is None:
                continue
            fn = au.enclosing_func(n)
            q = getattr(fn, "_qualname", "") if fn is not None else ""
            inside = modname.endswith(CUT) and au.is_self_attr(recv) and q.split(".<locals>.")[0].startswith(CLS + ".")
            n_w += 1
            if not inside and modname.endswith(CUT):
                # a helper of the cutting module itself (a function the cutter hands itself to): part of the cutter
                ctx.undecided(R, ctx.site(modname, q or "<module>", n), f"the cut data field `{recv.attr}` is written by a helper of the cutting module", "")
                continue
            ctx.check(inside, R, ctx.site(modname, q or "<module>", n),
                      f"the cut data field `{recv.attr}` is changed ({how}) outside the cutter's own methods",
                      "cut_edges / cut_adj / ref_vertex describe the cuts that were made; changing them elsewhere makes the report disagree with the cut mesh",
                      note="cut data written by the cutter")



# ----------------------------------------------------------------------- generic families (msa/rules/generic.py)
_run_specific = run


def run(ctx):
    _run_specific(ctx)
    from ..rules import generic
    generic.apply(ctx, "C16", stale_modules=('processing.cutting', 'processing.paths'))


def _generic_rule_texts():
    from ..rules import generic
    return generic.rule_texts("C16", stale=True)


RULES.update(_generic_rule_texts())
