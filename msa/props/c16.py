"""C16 - cutting along singularities: faces in bijection, corners in place, only cut edges opened (structural clauses).

The topological outcome (one component, one border loop, Euler characteristic 1) is a global invariant of a graph computed
at run time and is NOT decided.  What is visible in the shape of `SingularityCutter._build_mesh_with_cuts` and of the cut
graph book-keeping, and is decided here for all inputs at once:
  * one output face per input face, in the same order, with the same number of corners, never added to or removed later;
  * the k-th corner of output face i is a vertex placed at the position of the k-th vertex of input face i;
  * vertex copies are merged only across interior edges that are not reported as cut, and a copy of `a` is only ever
    merged with another copy of `a`;
  * the cut-vertex -> original-vertex map is the inverse of the duplicate table filled corner by corner;
  * the cut graph is the complement of the dual spanning tree, symmetric, and pruning removes only non-singular leaves.
"""
from __future__ import annotations
import ast
from .. import au, sym
from ..rules import common

CUT = "processing.cutting"
CLS = "SingularityCutter"

EXPLANATION = (
    "Static conformance of SingularityCutter: the structural clauses of the property (faces in bijection and in order, corner "
    "positions copied, merges only across non-cut interior edges and only between copies of the same vertex, reference map "
    "inverse of the duplicate table, cut-graph book-keeping and pruning of non-singular leaves). The topological clauses "
    "(disk, one border loop, Euler characteristic 1, connectivity of the cut graph) are NOT decided.")

RULES = {
    "C16-F1": "exactly one output face is appended per input face, unconditionally and in input order; later the rows are only rewritten element-wise at the same index",
    "C16-V1": "output face i is [k, k+1, .., k+n-1]; vertex k+j is appended with the position of the j-th vertex of input face i; the offset k starts at 0 and advances by n after the row",
    "C16-U1": "vertex copies are merged only for interior edges not in cut_edges, pairing the copy of a (resp. b) in one face with the copy of a (resp. b) in the other",
    "C16-M1": "compaction renumbers merged copies in order of first appearance; ref_vertex is the inverse of the duplicate table mapped through the same renumbering",
    "C16-K1": "Kruskal over the singular vertices and the border sentinel: every pair / border candidate is recorded and weighed unconditionally, sorted ascending, selected exactly when its ends are not yet connected (record + union in one block), and every consecutive pair of every selected path is flagged",
    "C16-K2": "with features: every singular vertex is linked to the feature graph by a fully flagged path; the feature graph is spanned breadth-first from every landing point, each tree edge flagged",
    "C16-D1": "the two dual Dijkstra loops satisfy the skeleton obligations of C09-D1..D4 (pop-min, visited discipline, strict relaxation with label+predecessor in one block, push of the updated label)",
    "C16-D2": "the dual tree never crosses an edge of the singularity spanning tree, records the crossed edge as predecessor, reaches the face opposite across that edge, and returns every recorded edge",
    "C16-A1": "the exclusion set a spanning tree borrows from its caller is never mutated by the tree; cut_edges / cut_adj / ref_vertex are written only by the cutter's construction steps",
    "C16-C1": "cut edges = all edges minus the dual-tree edges; the cut adjacency is symmetric; pruning removes only leaves that are not singular, symmetrically, together with their edge",
}


def run(ctx):
    f1_v1_faces_and_corners(ctx)
    u1_merges(ctx)
    m1_maps(ctx)
    c1_cut_graph(ctx)
    k1_spanning_tree_no_features(ctx)
    k2_spanning_tree_with_features(ctx)
    d1_dual_trees(ctx)
    a1_ownership(ctx)


def _fn(ctx, name):
    return ctx.repo.func(CUT, f"{CLS}.{name}")


def f1_v1_faces_and_corners(ctx):
    fn = _fn(ctx, "_build_mesh_with_cuts")
    site = ctx.site(CUT, fn)
    OUT = "self._output_mesh"
    apps = [c for c in au.calls(fn) if au.call_tail(c) == "append" and au.src(c.func.value) == f"{OUT}.faces"]
    ok = len(apps) == 1
    lp = None
    if ok:
        loops = [a for a in au.ancestors(apps[0]) if isinstance(a, ast.For)]
        ok = len(loops) == 1 and isinstance(loops[0].iter, ast.Call) and au.call_tail(loops[0].iter) == "enumerate" \
            and au.src(loops[0].iter.args[0]) == "self.input_mesh.faces" and not au.guards(apps[0], stop=loops[0]) \
            and any(au.enclosing_stmt(apps[0]) is s for s in loops[0].body)
        lp = loops[0] if loops else None
    ctx.check(ok, "C16-F1", site, "output faces are not appended exactly once per input face, unconditionally, in input order",
              "the cut mesh must have exactly the input faces in the same order", note="one append per input face")
    # no other structural edit of the face container
    bad = [c for c in au.calls(fn) if isinstance(c.func, ast.Attribute) and au.src(c.func.value) == f"{OUT}.faces"
           and c.func.attr in ("pop", "remove", "insert", "clear", "extend", "sort", "reverse")]
    bad += [st for st in au.stmts(fn.body) if isinstance(st, (ast.AugAssign, ast.Delete)) and f"{OUT}.faces" in au.src(st)]
    ctx.check(not bad, "C16-F1", site, "the output face container is structurally edited after the faces were created",
              "faces would no longer be in bijection with the input faces")
    # rewrites: faces[i] = [g(v) for v in ROW] with ROW the row at index i
    n_rw = 0
    for st in au.stmts(fn.body):
        if isinstance(st, ast.Assign) and isinstance(st.targets[0], ast.Subscript) and au.src(st.targets[0].value) == f"{OUT}.faces":
            n_rw += 1
            idx = au.src(st.targets[0].slice)
            loops = [a for a in au.ancestors(st) if isinstance(a, ast.For)]
            good = False
            if loops and isinstance(loops[0].iter, ast.Call) and au.call_tail(loops[0].iter) == "enumerate" \
                    and au.src(loops[0].iter.args[0]) == f"{OUT}.faces" and isinstance(loops[0].target, ast.Tuple):
                i, row = (x.id for x in loops[0].target.elts)
                v = st.value
                good = idx == i and isinstance(v, ast.ListComp) and len(v.generators) == 1 and not v.generators[0].ifs \
                    and au.src(v.generators[0].iter) == row and isinstance(v.generators[0].target, ast.Name) \
                    and v.generators[0].target.id in au.names(v.elt) and not au.guards(st, stop=loops[0])
            ctx.check(good, "C16-F1", ctx.site(CUT, fn, st),
                      f"`{au.src(st)[:80]}` does not rewrite row i element by element from its own old entries",
                      "corner k of output face i must stay the image of corner k of input face i", note="row rewritten element-wise in place")
    ctx.check(n_rw >= 2, "C16-F1", site, "the merge / renumbering passes over the output faces were not found", "")
    if lp is None or not isinstance(lp.target, ast.Tuple):
        return
    iF, F = (x.id for x in lp.target.elts)
    b = sym.Bindings(fn)
    # V1: row = [k + j for j in range(n)], n = len(F)
    row = apps[0].args[0]
    okrow = False
    kname = nname = None
    if isinstance(row, ast.ListComp) and len(row.generators) == 1 and isinstance(row.generators[0].target, ast.Name):
        j = row.generators[0].target.id
        p = sym.to_poly(row.elt)
        it = row.generators[0].iter
        if isinstance(it, ast.Call) and au.call_tail(it) == "range" and len(it.args) == 1 and p.coeff(j) == sym.Poly.const(1):
            rest = p.without(j)
            if len(rest.atoms()) == 1 and rest.coeff(next(iter(rest.atoms()))) == sym.Poly.const(1) and rest.without(next(iter(rest.atoms()))).is_zero():
                kname = next(iter(rest.atoms()))
                nname = au.src(it.args[0])
                okrow = au.src(b.resolve(it.args[0], at=apps[0], keep=(F,))) == f"len({F})"
    ctx.check(okrow, "C16-V1", ctx.site(CUT, fn, apps[0]), "output face i is not [k + j for j in range(len(F))]",
              "every corner of every face gets its own vertex copy before merging", note="fresh copy per corner")
    if not okrow:
        return
    # vertices appended once per corner with the corner's position
    inner = [s for s in lp.body if isinstance(s, ast.For) and isinstance(s.iter, ast.Call) and au.call_tail(s.iter) == "enumerate"
             and au.src(s.iter.args[0]) == F and isinstance(s.target, ast.Tuple)]
    okv = okd = False
    if len(inner) == 1:
        iv, v = (x.id for x in inner[0].target.elts)
        vapps = [c for c in au.calls(inner[0]) if au.call_tail(c) == "append" and au.src(c.func.value) == f"{OUT}.vertices"]
        if len(vapps) == 1 and not au.guards(vapps[0], stop=inner[0]):
            pos = b.resolve(vapps[0].args[0], at=au.enclosing_stmt(vapps[0]), keep=(v, iv, F))
            okv = au.src(pos) == f"self.input_mesh.vertices[{v}]"
        for c in au.calls(inner[0]):
            if au.call_tail(c) == "add" and isinstance(c.func.value, ast.Subscript) and au.src(c.func.value.slice) == v:
                p = sym.to_poly(c.args[0])
                okd = p == sym.Poly.atom(kname) + sym.Poly.atom(iv) and not au.guards(c, stop=inner[0])
    all_vapps = [c for c in au.calls(fn) if au.call_tail(c) == "append" and au.src(c.func.value) == f"{OUT}.vertices"]
    ctx.check(okv and len(all_vapps) == 1, "C16-V1", site, "the copy made for corner j of face i is not appended once with the position of F[j]",
              "each output face must have the same corner positions as the input face", note="vertex k+j at position of F[j]")
    ctx.check(okd, "C16-V1", site, "the duplicate table does not record copy k+j under the original vertex F[j]",
              "the map from cut vertices to original vertices must be consistent face by face", note="duplicates[v] gets k+j")
    # offset discipline
    def _inc(s):
        i = au.increment(s)
        return i if i is not None and i[0] == kname else None
    incs = [s for s in lp.body if _inc(s)]
    init = [s for s in fn.body if isinstance(s, ast.Assign) and isinstance(s.targets[0], ast.Name) and s.targets[0].id == kname and not _inc(s)]
    oko = len(incs) == 1 and _inc(incs[0])[1] == 1 and au.src(b.resolve(_inc(incs[0])[2], at=incs[0], keep=(F,))) == f"len({F})" \
        and incs[0].lineno > apps[0].lineno and (not inner or incs[0].lineno > inner[0].lineno) \
        and len(init) == 1 and au.const(init[0].value) == 0 and init[0].lineno < lp.lineno \
        and len([s for s in au.stmts(fn.body) if _inc(s)]) == 1
    ctx.check(oko, "C16-V1", site, f"running offset `{kname}` does not start at 0 and advance by the face size after the face's copies were made",
              "copies of different faces must not overlap", note="offset advanced by len(F) after its uses")


def u1_merges(ctx):
    fn = _fn(ctx, "_build_mesh_with_cuts")
    site = ctx.site(CUT, fn)
    OUT = "self._output_mesh"
    unions = [c for c in au.calls(fn) if au.call_tail(c) == "union"]
    if not unions:
        ctx.fail("C16-U1", site, "vertex copies are never merged (no union call)", "")
        return
    lp = [a for a in au.ancestors(unions[0]) if isinstance(a, ast.For)]
    ok_loop = bool(lp) and au.src(lp[0].iter) == "self.input_mesh.interior_edges" and isinstance(lp[0].target, ast.Name)
    ctx.check(ok_loop, "C16-U1", site, "merging does not range over the interior edges of the input mesh",
              "border edges have a single face: there is nothing to merge across them")
    if not ok_loop:
        return
    e = lp[0].target.id
    # endpoints and roles
    ends = None
    role = {}
    for st in au.stmts(lp[0].body):
        if isinstance(st, ast.Assign) and isinstance(st.targets[0], ast.Tuple) and len(st.targets[0].elts) == 2 \
                and au.src(st.value) == f"self.input_mesh.edges[{e}]":
            ends = [x.id for x in st.targets[0].elts]
        if isinstance(st, ast.Assign) and isinstance(st.targets[0], ast.Tuple) and len(st.targets[0].elts) == 3 \
                and isinstance(st.value, ast.Call) and au.call_tail(st.value) == "direct_face" and len(st.value.args) == 3 \
                and au.const(st.value.args[2]) is True:
            a, b_ = au.src(st.value.args[0]), au.src(st.value.args[1])
            names = [x.id for x in st.targets[0].elts]
            role[names[0]] = ("face", (a, b_))
            role[names[1]] = ("idx", a, (a, b_))
            role[names[2]] = ("idx", b_, (a, b_))
    for c in unions:
        gs = []
        for t, pol in au.guards(c, stop=lp[0]):
            while isinstance(t, ast.UnaryOp) and isinstance(t.op, ast.Not):
                t, pol = t.operand, not pol
            gs.append((t, pol))
        guarded = any(isinstance(t, ast.Compare) and isinstance(t.ops[0], ast.NotIn) and pol and au.src(t.left) == e
                      and au.src(t.comparators[0]) == "self.cut_edges" for t, pol in gs) or \
            any(isinstance(t, ast.Compare) and isinstance(t.ops[0], ast.In) and not pol and au.src(t.left) == e
                and au.src(t.comparators[0]) == "self.cut_edges" for t, pol in gs)
        ctx.check(guarded and len(gs) == 1, "C16-U1", ctx.site(CUT, fn, c),
                  "copies are merged across an edge without (only) the test `edge not in self.cut_edges`",
                  "only the edges reported as cut may be opened, and every other interior edge must be closed", note="merge iff not a cut edge")
        good = False
        if len(c.args) == 2 and ends:
            verts = []
            for a in c.args:
                # OUT.faces[Fk][idx]
                if isinstance(a, ast.Subscript) and isinstance(a.value, ast.Subscript) and au.src(a.value.value) == f"{OUT}.faces":
                    fk, ik = au.src(a.value.slice), au.src(a.slice)
                    rf, ri = role.get(fk), role.get(ik)
                    if rf and ri and rf[0] == "face" and ri[0] == "idx" and ri[2] == rf[1]:
                        verts.append((ri[1], rf[1]))
            good = len(verts) == 2 and verts[0][0] == verts[1][0] and verts[0][1] == (verts[1][1][1], verts[1][1][0]) \
                and verts[0][0] in ends
        ctx.check(good, "C16-U1", ctx.site(CUT, fn, c),
                  f"`{au.src(c)[:90]}` does not merge the copy of one endpoint in the face on one side with the copy of the SAME endpoint on the other side",
                  "direct_face(a, b, True) returns (face, index of a, index of b): merging the copy of a with a copy of b collapses the edge",
                  note="copy of x in F1 merged with copy of x in F2")
    merged = set()
    for c in unions:
        for a in c.args[:1]:
            if isinstance(a, ast.Subscript):
                r = role.get(au.src(a.slice))
                if r:
                    merged.add(r[1])
    ctx.check(ends is not None and merged == set(ends), "C16-U1", site,
              f"both endpoints of a closed edge must be merged; merged: {sorted(merged)}", "", note="both endpoints merged")


def m1_maps(ctx):
    fn = _fn(ctx, "_build_mesh_with_cuts")
    site = ctx.site(CUT, fn)
    OUT = "self._output_mesh"
    # first-appearance renumbering: for F in faces: for v in F: if v in imap: continue; imap[v] = i; i += 1
    ok = False
    imap = None
    for st in au.stmts(fn.body):
        if isinstance(st, ast.Assign) and isinstance(st.targets[0], ast.Subscript) and isinstance(st.targets[0].value, ast.Name) \
                and isinstance(st.value, ast.Name):
            loops = [a for a in au.ancestors(st) if isinstance(a, ast.For)]
            if len(loops) == 2 and au.src(loops[1].iter) == f"{OUT}.faces" and isinstance(loops[0].target, ast.Name) \
                    and au.src(st.targets[0].slice) == loops[0].target.id and au.src(loops[0].iter) == au.src(loops[1].target):
                d, cnt, v = st.targets[0].value.id, st.value.id, loops[0].target.id
                blk, _ = au.enclosing_block(st)
                inc = [s for s in blk if au.increment(s) is not None and au.increment(s)[0] == cnt and au.increment(s)[1] == 1
                       and au.const(au.increment(s)[2]) == 1]
                init = [s for s in fn.body if isinstance(s, ast.Assign) and au.src(s.targets[0]) == cnt and au.const(s.value) == 0]
                conds = au.canon_conditions(st, stop=loops[0])
                guarded = conds == [f"{v} not in {d}"]
                if len(inc) == 1 and guarded and init and inc[0].lineno > st.lineno:
                    ok, imap = True, d
    ctx.check(ok, "C16-M1", site, "merged copies are not renumbered 0,1,2,.. in order of first appearance (once each)",
              "the cut mesh must index its vertices contiguously and each merged class exactly once", note="first-appearance renumbering")
    if not imap:
        return
    # positions follow: order[imap[u]] = vertices[u] for u in imap
    okp = False
    for st in au.stmts(fn.body):
        if isinstance(st, ast.Assign) and isinstance(st.targets[0], ast.Subscript) and isinstance(st.targets[0].slice, ast.Subscript) \
                and au.src(st.targets[0].slice.value) == imap and isinstance(st.value, ast.Subscript) \
                and au.src(st.value.value) == f"{OUT}.vertices" and au.src(st.value.slice) == au.src(st.targets[0].slice.slice):
            okp = True
    ctx.check(okp, "C16-M1", site, "vertex positions are not moved to their new index with the same renumbering", "", note="positions follow the renumbering")
    # duplicates mapped through imap[uf.find(u)], ref_vertex inverse
    okd = okr = False
    for st in au.stmts(fn.body):
        if isinstance(st, ast.Assign) and isinstance(st.targets[0], ast.Subscript) and isinstance(st.value, ast.SetComp):
            g = st.value.generators[0]
            if au.src(st.targets[0].value) == au.src(g.iter.value if isinstance(g.iter, ast.Subscript) else g.iter) \
                    and isinstance(g.target, ast.Name):
                u = g.target.id
                ufn = [t.id for w in fn.body if isinstance(w, ast.Assign) and isinstance(w.value, ast.Call) and au.call_tail(w.value) == "UnionFind"
                       for t in w.targets if isinstance(t, ast.Name)]
                okd = len(ufn) == 1 and au.src(st.value.elt).replace(" ", "") == f"{imap}[{ufn[0]}.find({u})]" \
                    and au.src(g.iter.slice) == au.src(st.targets[0].slice)
        if isinstance(st, ast.Assign) and isinstance(st.targets[0], ast.Subscript) and au.is_self_attr(st.targets[0].value, "ref_vertex"):
            loops = [a for a in au.ancestors(st) if isinstance(a, ast.For)]
            if len(loops) == 2 and isinstance(loops[0].target, ast.Name) and isinstance(loops[1].target, ast.Name):
                u, v = loops[0].target.id, loops[1].target.id
                okr = au.src(st.targets[0].slice) == u and au.src(st.value) == v and au.src(loops[0].iter).endswith(f"[{v}]") \
                    and au.src(loops[0].iter).startswith(au.src(loops[1].iter))
    ctx.check(okd, "C16-M1", site, "the duplicate table is not mapped through the same merge + renumbering as the faces", "",
              note="duplicates -> imap[find(u)]")
    ctx.check(okr, "C16-M1", site, "ref_vertex is not the inverse of the duplicate table (ref[u] = v for every copy u of v)",
              "every cut vertex must map to the original vertex it is a copy of, and every original vertex must be hit", note="ref_vertex inverse")


def c1_cut_graph(ctx):
    fn = _fn(ctx, "_build_cut_edges_tree")
    site = ctx.site(CUT, fn)
    ev = au.params(fn, skip_self=True)[0]
    ok = any(isinstance(st, ast.Assign) and au.is_self_attr(st.targets[0], "cut_edges")
             and au.src(st.value).replace(" ", "") == f"set(self.input_mesh.id_edges)-{ev}" for st in fn.body)
    ctx.check(ok, "C16-C1", site, "cut edges are not `all edges minus the edges crossed by the dual tree`", "", note="complement of the dual tree")
    adds = []
    for c in au.calls(fn):
        if au.call_tail(c) == "add" and isinstance(c.func.value, ast.Subscript) and au.is_self_attr(c.func.value.value, "cut_adj"):
            adds.append((au.src(c.func.value.slice), au.src(c.args[0])))
    ctx.check(len(adds) == 2 and adds[0] == adds[1][::-1] and adds[0][0] != adds[0][1], "C16-C1", site,
              f"cut adjacency inserts {adds} are not the symmetric pair", "", note="cut_adj symmetric")
    fn = _fn(ctx, "_prune_edge_tree")
    site = ctx.site(CUT, fn)
    # every enqueue is guarded by degree == 1 and not singular
    apps = [c for c in au.calls(fn) if au.call_tail(c) == "append" and isinstance(c.func.value, ast.Name)]
    okq = len(apps) >= 2
    for c in apps:
        x = au.src(c.args[0])
        atoms = []
        for t, pol in au.guards(c, stop=fn):
            parts = t.values if isinstance(t, ast.BoolOp) and isinstance(t.op, ast.And) and pol else [t]
            atoms += [au.canon_test(q, pol) for q in parts]
        okq = okq and (f"{x} not in self.singularities" in atoms or f"{x} not in self.singu_set" in atoms) \
            and any(a.startswith("1 == ") or a.endswith(" == 1") for a in atoms)
    ctx.check(okq, "C16-C1", site, "a vertex is queued for pruning without the tests `cut degree == 1 and not singular`",
              "pruning must stop at singular vertices: every singularity keeps a copy on the border of the cut mesh", note="only non-singular leaves pruned")
    loops = [st for st in au.stmts(fn.body) if isinstance(st, ast.For) and isinstance(st.iter, ast.Subscript)
             and au.is_self_attr(st.iter.value, "cut_adj")]
    okr = False
    if loops:
        A = au.src(loops[0].iter.slice)
        B = loops[0].target.id
        rm_adj = any(au.call_tail(c) in ("remove", "discard") and au.src(c.func.value) == f"self.cut_adj[{B}]" and au.src(c.args[0]) == A
                     for c in au.calls(loops[0]))
        rm_edge = any(au.call_tail(c) in ("remove", "discard") and au.is_self_attr(c.func.value, "cut_edges") and isinstance(c.args[0], ast.Call)
                      and au.call_tail(c.args[0]) == "edge_id" and {au.src(a) for a in c.args[0].args} == {A, B} for c in au.calls(loops[0]))
        blk, _ = au.enclosing_block(loops[0])
        clr = any(isinstance(s, ast.Assign) and au.src(s.targets[0]) == f"self.cut_adj[{A}]" and au.src(s.value) in ("set()",) for s in blk)
        okr = rm_adj and rm_edge and clr
    ctx.check(okr, "C16-C1", site, "removing a leaf does not update both adjacency sides, the cut-edge set and the leaf itself",
              "the reported cut edges must be exactly the edges of the pruned cut graph", note="leaf removal keeps the three tables consistent")


# =============================================================================================== spanning trees (C16-K1 / K2)
def _dom(node, stop=None):
    return au.guards(node, stop=stop)


def _consecutive_pairs(loop, b):
    """Does `loop` enumerate every consecutive pair of one sequence P?  Returns (P source, names of the pair) or None.
    Accepted idioms: for i in range(1, len(P)): x, y = P[i-1], P[i]      for i in range(len(P) - 1): x, y = P[i], P[i+1]
                     for x, y in zip(P, P[1:]) / zip(P[:-1], P[1:]) / consecutive_pairs(P)"""
    it = loop.iter
    if isinstance(it, ast.Call) and au.call_tail(it) == "zip" and len(it.args) == 2:
        a0, a1 = it.args
        if isinstance(a1, ast.Subscript) and isinstance(a1.slice, ast.Slice) and au.const(a1.slice.lower) == 1 and a1.slice.upper is None:
            P = au.src(a1.value)
            if au.src(a0) == P or (isinstance(a0, ast.Subscript) and isinstance(a0.slice, ast.Slice) and a0.slice.lower is None
                                   and au.const(a0.slice.upper) == -1 and au.src(a0.value) == P):
                return P
        return None
    if isinstance(it, ast.Call) and au.call_tail(it) in ("consecutive_pairs",) and len(it.args) == 1:
        return au.src(it.args[0])
    if not (isinstance(it, ast.Call) and au.call_tail(it) == "range" and isinstance(loop.target, ast.Name)):
        return None
    i = loop.target.id
    lo = sym.Poly.const(0) if len(it.args) == 1 else sym.to_poly(it.args[0])
    hi = it.args[0] if len(it.args) == 1 else it.args[1]
    if len(it.args) > 2:
        return None
    hip = sym.to_poly(hi)
    lens = [a for a in hip.atoms() if str(a).strip("\u27e8\u27e9").startswith("len(")]
    if len(lens) != 1 or hip.coeff(lens[0]) != sym.Poly.const(1):
        return None
    P = str(lens[0]).strip("\u27e8\u27e9")[4:-1]
    hi_off = hip.without(lens[0])
    if not (lo.is_const() and hi_off.is_const()):
        return None
    lo_c, hi_c = lo.const_value(), hi_off.const_value()
    # index offsets used on P inside the loop
    offs = set()
    for n in au.walk(loop):
        if isinstance(n, ast.Subscript) and au.src(n.value) == P and not isinstance(n.slice, ast.Slice):
            p = sym.to_poly(n.slice)
            if p.coeff(i) != sym.Poly.const(1) or not p.without(i).is_const():
                return None
            offs.add(p.without(i).const_value())
    if len(offs) != 2 or max(offs) - min(offs) != 1:
        return None
    # first pair is (P[0], P[1]), last pair is (P[len-2], P[len-1])
    if lo_c + min(offs) == 0 and hi_c - 1 + max(offs) == -1:
        return P
    return None


def k1_spanning_tree_no_features(ctx):
    fn = _fn(ctx, "_build_singularity_spanning_tree_no_features")
    site = ctx.site(CUT, fn)
    b = sym.Bindings(fn)
    R = "C16-K1"
    why_tree = ("the selected paths must join every singular vertex (and the border, when there is one) into one tree: a singular vertex "
                "that is left out has no copy on the border of the cut mesh")
    # --- union-find over the singular vertices plus the border sentinel
    ufs = [(st, t.id) for st in au.stmts(fn.body) if isinstance(st, ast.Assign) and isinstance(st.value, ast.Call)
           and au.call_tail(st.value) == "UnionFind" for t in st.targets if isinstance(t, ast.Name)]
    if len(ufs) != 1:
        ctx.fail(R, site, "the union-find of Kruskal's algorithm over the singular vertices was not found", why_tree)
        return
    ufst, uf = ufs[0]
    sentinels = [t.id for st in fn.body if isinstance(st, ast.Assign) and isinstance(au.const(st.value), int) and au.const(st.value) < 0
                 for t in st.targets if isinstance(t, ast.Name)]
    dom = b.resolve(ufst.value.args[0], at=ufst, keep=tuple(sentinels)) if ufst.value.args else None
    txt = au.src(dom) if dom is not None else ""
    ok = "self.singularities" in txt and any(s in au.names(dom) for s in sentinels) if dom is not None else False
    ctx.check(ok, R, ctx.site(CUT, fn, ufst), f"the union-find ranges over `{txt[:80]}`, not over the singular vertices plus the border sentinel",
              why_tree, note="union-find over singularities + BORDER")
    # --- candidates: dict filled for every pair and for (BORDER, a)
    cand = {}
    for st in au.stmts(fn.body):
        if isinstance(st, ast.Assign) and isinstance(st.targets[0], ast.Subscript) and isinstance(st.targets[0].value, ast.Name) \
                and isinstance(st.value, (ast.Call, ast.Subscript)):
            loops = [a for a in au.ancestors(st) if isinstance(a, ast.For)]
            if loops and "self.singularities" in au.src(loops[-1].iter):
                cand.setdefault(st.targets[0].value.id, []).append((st, loops))
    cands = [k for k, v in cand.items() if len(v) >= 2]
    if len(cands) != 1:
        ctx.fail(R, site, "the table of candidate paths (singularity to singularity, singularity to border) was not found", why_tree)
        return
    D = cands[0]
    n_border = n_pair = 0
    for st, loops in cand[D]:
        outer = loops[-1]
        gs = _dom(st, stop=outer)
        if isinstance(st.value, ast.Call) and au.call_tail(st.value) == "shortest_path_to_border":
            n_border += 1
            bad = [au.src(t) for t, pol in gs if not (isinstance(t, ast.Name) and pol and "boundary" in au.src(b.resolve(t, at=st)))]
            key = st.targets[0].slice
            okk = isinstance(key, ast.Tuple) and len(key.elts) == 2 and any(isinstance(e, ast.Name) and e.id in sentinels for e in key.elts)
            ctx.check(not bad and okk, R, ctx.site(CUT, fn, st),
                      f"the path from a singular vertex to the border is recorded only under {bad or 'an unexpected key'}",
                      "every singular vertex needs its candidate link to the border whenever the mesh has one (a zero-length link included)",
                      note="(BORDER, a) candidate for every singularity")
        else:
            n_pair += 1
            ctx.check(not gs, R, ctx.site(CUT, fn, st), f"a candidate path between two singular vertices is recorded only under {[au.src(t) for t, _ in gs]}",
                      why_tree, note="pair candidates recorded unconditionally")
    ctx.check(n_border == 1 and n_pair >= 1, R, site, "candidate links singularity-border / singularity-singularity are not both recorded", why_tree)
    # shortest_path targets cover the remaining singular vertices
    for c in au.calls(fn):
        if au.call_tail(c) == "shortest_path" and len(c.args) >= 3:
            t = au.src(b.resolve(c.args[2], at=au.enclosing_stmt(c)))
            ctx.check("self.singularities" in t and "[i+1:]" not in t.replace(" ", "") or "self.singu_set" in t, R, ctx.site(CUT, fn, c),
                      f"pair candidates are computed towards `{t[:60]}` only", why_tree, note="targets = the remaining singular vertices")
    # --- every candidate enters the sorted list, unconditionally
    apps = []
    for c in au.calls(fn):
        if au.call_tail(c) == "append" and isinstance(c.func.value, ast.Name) and c.args and isinstance(c.args[0], ast.Tuple):
            loops = [a for a in au.ancestors(c) if isinstance(a, ast.For)]
            if loops and au.src(loops[0].iter).split(".")[0].split("(")[-1].strip() in (D,) or (loops and D in au.names(loops[0].iter)):
                apps.append((c, loops[0]))
    if len(apps) != 1:
        ctx.fail(R, site, "the list of (length, candidate) pairs built from every candidate path was not found", why_tree)
        return
    app, lp = apps[0]
    L = app.func.value.id
    gs = _dom(app, stop=lp)
    ctx.check(not gs, R, ctx.site(CUT, fn, app), f"a candidate path enters Kruskal's list only under {[au.src(t) for t, _ in gs]}",
              "a candidate that is filtered out (e.g. the zero-length link of a singular vertex lying on the border) leaves its end points "
              "to be joined through a longer path or not at all", note="every candidate is weighed")
    # sorted ascending before the selection loop
    sel_loops = [st for st in fn.body if isinstance(st, ast.For) and L in au.names(st.iter)
                 and any(au.call_tail(c) == "union" for c in au.calls(st))]
    if len(sel_loops) != 1:
        ctx.fail(R, site, "Kruskal's selection loop over the weighed candidates was not found", why_tree)
        return
    sel = sel_loops[0]
    sorted_ok = any(isinstance(st, ast.Expr) and isinstance(st.value, ast.Call) and au.call_tail(st.value) == "sort"
                    and au.src(st.value.func.value) == L and not st.value.keywords and st.lineno < sel.lineno and st.lineno > lp.lineno
                    for st in fn.body) or (isinstance(sel.iter, ast.Call) and au.call_tail(sel.iter) == "sorted" and not sel.iter.keywords)
    ctx.check(sorted_ok, R, ctx.site(CUT, fn, sel), "the candidates are not sorted by increasing length before the selection", 
              "Kruskal on unsorted candidates still spans but the cut is no longer the minimal one the cutter documents", note="sorted ascending")
    # selection: append + union in the block guarded by not connected
    unions = [c for c in au.calls(sel) if au.call_tail(c) == "union" and au.src(c.func.value) == uf]
    okb = False
    if len(unions) == 1:
        u = unions[0]
        gs = _dom(u, stop=sel)
        okg = len(gs) == 1 and isinstance(gs[0][0], ast.Call) and au.call_tail(gs[0][0]) == "connected" and gs[0][1] is False \
            and {au.src(a) for a in gs[0][0].args} == {au.src(a) for a in u.args}
        blk, _ = au.enclosing_block(au.enclosing_stmt(u))
        rec = [c for s in blk for c in au.calls(s) if au.call_tail(c) == "append"]
        okb = okg and len(rec) == 1
        selected = au.src(rec[0].func.value) if rec else None
    ctx.check(okb, R, ctx.site(CUT, fn, sel), "a candidate is not selected exactly when its end points are not yet connected (record + union in one block)",
              why_tree, note="selected iff not connected; union with the record")
    if not okb:
        return
    # --- flagging: every consecutive pair of every selected path
    flag_loops = [st for st in fn.body if isinstance(st, ast.For) and au.src(st.iter) == selected]
    okf = False
    if len(flag_loops) == 1:
        inner = [s for s in au.stmts(flag_loops[0].body) if isinstance(s, ast.For)]
        if len(inner) == 1:
            P = _consecutive_pairs(inner[0], b)
            stores = [s for s in au.stmts(inner[0].body) if isinstance(s, ast.Assign) and isinstance(s.targets[0], ast.Subscript)
                      and au.const(s.value) is True]
            if P is not None and len(stores) == 1 and not _dom(stores[0], stop=flag_loops[0]):
                pdef = au.src(b.resolve(ast.parse(P, mode="eval").body, at=inner[0], keep=(D,)))
                key = b.resolve(stores[0].targets[0].slice, at=stores[0])
                okf = pdef.startswith(D + "[") and isinstance(key, ast.Call) and au.call_tail(key) == "edge_id" and len(key.args) == 2
    ctx.check(okf, R, site, "the edges of the selected paths are not all flagged (every consecutive pair of every selected path, unconditionally)",
              "an unflagged edge of the spanning tree may be crossed by the dual tree: the singular vertices are then no longer joined by cuts",
              note="all edges of all selected paths flagged")


def k2_spanning_tree_with_features(ctx):
    fn = _fn(ctx, "_build_singularity_spanning_tree_with_features")
    site = ctx.site(CUT, fn)
    b = sym.Bindings(fn)
    R = "C16-K2"
    why = "with feature edges the singular vertices are joined to the feature graph, which is then spanned: every link must be cut"
    loops = [st for st in fn.body if isinstance(st, ast.For) and au.src(st.iter) in ("self.singularities", "self.singu_set")]
    ok = False
    closest = None
    if len(loops) == 1:
        lp = loops[0]
        calls = [c for c in au.calls(lp) if au.call_tail(c) == "shortest_path_to_vertex_set"]
        inner = [s for s in lp.body if isinstance(s, ast.For)]
        adds = [c for c in au.calls(lp) if au.call_tail(c) in ("add", "append") and isinstance(c.func.value, ast.Name)]
        if len(calls) == 1 and len(inner) == 1 and len(adds) == 1 and not _dom(adds[0], stop=lp):
            P = _consecutive_pairs(inner[0], b)
            stores = [s for s in au.stmts(inner[0].body) if isinstance(s, ast.Assign) and isinstance(s.targets[0], ast.Subscript)
                      and au.const(s.value) is True]
            tgt = au.src(calls[0].args[2]) if len(calls[0].args) >= 3 else ""
            ok = P is not None and len(stores) == 1 and not _dom(stores[0], stop=lp) and "feature_vertices" in tgt
            closest = adds[0].func.value.id
    ctx.check(ok, R, site, "not every singular vertex is linked to the feature graph by a fully flagged shortest path", why,
              note="singularity -> feature graph links flagged edge by edge")
    # BFS over the feature graph from every landing point
    wl = [st for st in fn.body if isinstance(st, ast.While)]
    okb = False
    if len(wl) == 1 and closest:
        w = wl[0]
        seeds = [st for st in fn.body if isinstance(st, ast.For) and st.lineno < w.lineno and closest in au.names(st.iter)
                 and any(au.call_tail(c) == "append" for c in au.calls(st)) and not any(isinstance(s, ast.If) for s in st.body)]
        pops = [c for c in au.calls(w) if au.call_tail(c) == "popleft"]
        flag = [s for s in au.stmts(w.body) if isinstance(s, ast.Assign) and isinstance(s.targets[0], ast.Subscript) and au.const(s.value) is True
                and isinstance(b.resolve(s.targets[0].slice, at=s), ast.Call) and au.call_tail(b.resolve(s.targets[0].slice, at=s)) == "edge_id"]
        okflag = False
        if len(flag) == 1:
            gs = _dom(flag[0], stop=w)
            # guards: prev is not None (and the visited early-continue)
            rest = [(t, p) for t, p in gs if not (isinstance(t, ast.Subscript) and p is False)]
            okflag = len(rest) == 1 and isinstance(rest[0][0], ast.Compare) and isinstance(rest[0][0].ops[0], (ast.IsNot, ast.Is)) \
                and au.const(rest[0][0].comparators[0], 0) is None
        feat_guard = any(isinstance(t, ast.Compare) and isinstance(t.ops[0], ast.In) and "feature_edges" in au.src(t.comparators[0])
                         for c in au.calls(w) if au.call_tail(c) == "append" for t, p in _dom(c, stop=w) if p)
        okb = len(seeds) == 1 and len(pops) == 1 and okflag and feat_guard
    ctx.check(okb, R, site, "the feature graph is not spanned breadth-first from every landing point with each tree edge flagged", why,
              note="BFS tree of the feature graph flagged")


# =============================================================================================== dual Dijkstra (C16-D*)
class _Renamed:
    """view of a Ctx that files the obligations of a sibling rule set (C09-D1..D4) under this property's rule names"""

    def __init__(self, ctx, mapping):
        self._ctx, self._map = ctx, mapping

    def __getattr__(self, k):
        return getattr(self._ctx, k)

    def ok(self, rule, site, note=""):
        return self._ctx.ok(self._map.get(rule, rule), site, note)

    def fail(self, rule, site, construct, what, **detail):
        return self._ctx.fail(self._map.get(rule, rule), site, construct, what, **detail)

    def check(self, cond, rule, site, construct, what, note="", **detail):
        return self._ctx.check(cond, self._map.get(rule, rule), site, construct, what, note=note, **detail)


DUAL = ("_build_dual_tree_no_features", "_build_dual_tree_with_features")


def d1_dual_trees(ctx):
    from . import c09
    sub = _Renamed(ctx, {"C09-D1": "C16-D1", "C09-D2": "C16-D1", "C09-D3": "C16-D1", "C09-D4": "C16-D1", "C09-Q1": "C16-D1"})
    item = c09.q1_priority_queue(_Renamed(ctx, {k: "C16-D1" for k in c09.RULES}))
    for name in DUAL:
        fn = _fn(ctx, name)
        site = ctx.site(CUT, fn)
        n = c09.dijkstra(sub, CUT, fn, item)
        ctx.check(n == 1, "C16-D1", site, f"{name}: the dual Dijkstra loop was not found", "")
        b = sym.Bindings(fn)
        loop = [st for st in fn.body if isinstance(st, ast.While)]
        if len(loop) != 1:
            continue
        loop = loop[0]
        forb = au.params(fn, skip_self=True)[0]
        # the tree never crosses an edge of the singularity spanning tree
        relax = [s for s in au.stmts(loop.body) if isinstance(s, ast.Assign) and isinstance(s.targets[0], ast.Subscript)
                 and isinstance(s.targets[0].value, ast.Name) and not (isinstance(s.value, ast.Constant))]
        pushes = [c for c in au.calls(loop) if au.call_tail(c) == "push"]
        okx = bool(relax) and bool(pushes)
        evar = None
        for node in relax + pushes:
            gs = _dom(node, stop=loop)
            hit = [t for t, pol in gs if isinstance(t, ast.Subscript) and au.src(t.value) == forb and pol is False]
            okx = okx and len(hit) == 1
            if hit:
                evar = au.src(hit[0].slice)
        ctx.check(okx, "C16-D2", ctx.site(CUT, fn, loop),
                  f"{name}: a dual edge is relaxed / queued without the test `not {forb}[edge]`",
                  "the dual tree must not cross the edges that join the singular vertices: those edges have to end up in the cut graph, "
                  "otherwise a singular vertex has no copy on the border", note="spanning-tree edges never crossed")
        # predecessor = the very edge that was tested and crossed
        okp = False
        for s in relax:
            if evar and au.src(s.value) == evar:
                okp = True
        ctx.check(okp, "C16-D2", ctx.site(CUT, fn, loop), f"{name}: the edge recorded for a reached face is not the edge `{evar}` that was crossed",
                  "the cut graph is the complement of the recorded dual edges", note="predecessor edge = crossed edge")
        # the neighbour face is the face on the other side of that same edge
        okn = False
        for c in au.calls(loop):
            if au.call_tail(c) == "opposite_face" and len(c.args) == 3:
                ends = {au.src(a) for a in c.args[:2]}
                e_def = [s for s in au.stmts(loop.body) if isinstance(s, ast.Assign) and isinstance(s.targets[0], ast.Tuple)
                         and {x.id for x in s.targets[0].elts if isinstance(x, ast.Name)} == ends and evar
                         and au.src(s.value) == f"self.input_mesh.edges[{evar}]"]
                cur = [p for p in au.calls(loop) if au.call_tail(p) == "face_to_edges"]
                okn = bool(e_def) and bool(cur) and au.src(c.args[2]) == au.src(cur[0].args[0])
        ctx.check(okn, "C16-D2", ctx.site(CUT, fn, loop), f"{name}: the face reached through edge `{evar}` is not opposite_face(ends of that edge, current face)",
                  "", note="neighbour across the tested edge")
        # result: every recorded edge, nothing else
        rets = [st for st in fn.body if isinstance(st, ast.Return)]
        okr = False
        if len(rets) == 1 and isinstance(rets[0].value, (ast.SetComp, ast.Call)):
            v = rets[0].value
            comp = v if isinstance(v, ast.SetComp) else (v.args[0] if v.args and isinstance(v.args[0], (ast.GeneratorExp, ast.ListComp, ast.SetComp)) else None)
            if comp is not None and len(comp.generators) == 1:
                g = comp.generators[0]
                pred = {au.src(s.targets[0].value) for s in relax if evar and au.src(s.value) == evar}
                okr = au.src(g.iter) in ("self.input_mesh.id_faces", "range(len(self.input_mesh.faces))") and isinstance(comp.elt, ast.Subscript) \
                    and au.src(comp.elt.value) in pred and au.src(comp.elt.slice) == au.src(g.target) and len(g.ifs) == 1 \
                    and au.norm(g.ifs[0]) == au.norm(ast.parse(f"{au.src(comp.elt)} is not None", mode="eval").body)
        ctx.check(okr, "C16-D2", site, f"{name}: the returned set is not {{edge recorded for f : every face f with a recorded edge}}",
                  "a dual edge missing from the result is reported as cut and opened", note="returns every dual tree edge")


# =============================================================================================== ownership of the cut data (C16-A1)
MUTATORS = {"add", "remove", "discard", "update", "clear", "pop", "append", "extend", "insert", "difference_update",
            "intersection_update", "symmetric_difference_update", "sort", "reverse", "setdefault", "popitem"}
TREE_MODULES = ("processing.trees.base", "processing.trees.edge_sp", "processing.trees.face_sp", "processing.trees.cell_sp")
_A1_FIXTURE = """
class T:
    def __init__(self, mesh, forbidden=None):
        if forbidden is None:
            self.forbidden = set()
        else:
            self.forbidden = forbidden
    def compute(self):
        for e in self.mesh.id_edges:
            self.forbidden.add(e)
"""


def _borrowed_fields(cls):
    """fields that `__init__` binds directly to one of its parameters (the object stays shared with the caller)"""
    out = {}
    for st in cls.body:
        if isinstance(st, ast.FunctionDef) and st.name == "__init__":
            ps = set(au.params(st, skip_self=True))
            for s in au.stmts(st.body):
                if isinstance(s, (ast.Assign, ast.AnnAssign)) and s.value is not None:
                    v = s.value
                    if isinstance(v, ast.Name) and v.id in ps:
                        for t in au.assign_targets(s):
                            if au.is_self_attr(t):
                                out[t.attr] = v.id
    return out


def _field_mutations(cls, fields):
    for st in cls.body:
        if not isinstance(st, ast.FunctionDef):
            continue
        for n in au.walk(st, into_funcs=True):
            if isinstance(n, ast.Call) and isinstance(n.func, ast.Attribute) and n.func.attr in MUTATORS:
                r = n.func.value
                while isinstance(r, ast.Subscript):
                    r = r.value
                if au.is_self_attr(r) and r.attr in fields:
                    yield st, n, r.attr, f"self.{r.attr}.{n.func.attr}(..)"
            elif isinstance(n, ast.AugAssign):
                r = n.target
                while isinstance(r, ast.Subscript):
                    r = r.value
                if au.is_self_attr(r) and r.attr in fields:
                    yield st, n, r.attr, f"augmented assignment on self.{r.attr}"
            elif isinstance(n, (ast.Assign, ast.Delete)):
                for t in (n.targets if isinstance(n, (ast.Assign, ast.Delete)) else []):
                    if isinstance(t, ast.Subscript):
                        r = t.value
                        while isinstance(r, ast.Subscript):
                            r = r.value
                        if au.is_self_attr(r) and r.attr in fields:
                            yield st, n, r.attr, f"item store / delete on self.{r.attr}"


def a1_ownership(ctx):
    R = "C16-A1"
    # positive fixture: the matcher must see a borrowed exclusion set being filled
    tree = ast.parse(_A1_FIXTURE)
    for x in ast.walk(tree):
        for c in ast.iter_child_nodes(x):
            c._parent = x
    fx = tree.body[0]
    bf = _borrowed_fields(fx)
    from ..core import AnalysisError
    if bf != {"forbidden": "forbidden"} or len(list(_field_mutations(fx, bf))) != 1:
        raise AnalysisError("C16-A1: built-in fixture (tree filling the exclusion set it borrowed) not recognised")
    n_cls = 0
    for modname in TREE_MODULES:
        m = ctx.repo.module(modname)
        for q, cls in m.classes.items():
            bf = _borrowed_fields(cls)
            if not bf:
                continue
            n_cls += 1
            hits = list(_field_mutations(cls, bf))
            for fn, node, f, how in hits:
                ctx.fail(R, ctx.site(modname, f"{q}.{fn.name}", node), f"{q}.{fn.name}: {how} changes the object the caller passed as `{bf[f]}`",
                         "the exclusion set handed to a tree (the cutter's cut_edges, in the parametrisation code) stays the caller's object: "
                         "filling it during a traversal changes the reported cut edges after the fact")
            if not hits:
                ctx.ok(R, ctx.site(modname, q), f"{q}: borrowed {sorted(bf)} never mutated")
    ctx.require_count("C16-A1 tree classes keeping a caller's exclusion set", n_cls, 3)
    # cutter results are written by the cutter only
    owners = {"_build_cut_edges_tree", "_prune_edge_tree", "__init__", "_build_mesh_with_cuts"}
    fields = {"cut_edges", "cut_adj", "ref_vertex"}
    for modname, m in sorted(ctx.repo.modules.items()):
        for n in ast.walk(m.tree):
            recv = None
            how = None
            if isinstance(n, ast.Call) and isinstance(n.func, ast.Attribute) and n.func.attr in MUTATORS:
                r = n.func.value
                while isinstance(r, ast.Subscript):
                    r = r.value
                if isinstance(r, ast.Attribute) and r.attr in fields:
                    recv, how = r, f".{n.func.attr}(..)"
            elif isinstance(n, (ast.Assign, ast.AugAssign, ast.Delete)):
                ts = n.targets if isinstance(n, (ast.Assign, ast.Delete)) else [n.target]
                for t in ts:
                    r = t
                    sub = False
                    while isinstance(r, ast.Subscript):
                        r, sub = r.value, True
                    if isinstance(r, ast.Attribute) and r.attr in fields and (sub or isinstance(n, ast.AugAssign) or not au.is_self_attr(r)):
                        recv, how = r, "store"
            if recv is None:
                continue
            fn = au.enclosing_func(n)
            inside = modname.endswith(CUT) and au.is_self_attr(recv) and fn is not None and fn.name in owners
            ctx.check(inside, R, ctx.site(modname, getattr(fn, "_qualname", None) or (fn.name if fn else "<module>"), n),
                      f"`{au.src(recv)}` {how} outside the cutter's own construction steps",
                      "cut_edges / cut_adj / ref_vertex describe the cuts that were made; changing them elsewhere makes the report disagree with the cut mesh",
                      note="cut data written by the cutter")
