"""C16 - cutting along singularities: faces in bijection, corners in place, only cut edges opened (structural clauses).

The topological outcome (one component, one border loop, Euler characteristic 1) is a global invariant of a graph computed
at run time and is NOT decided.  What is visible in the shape of `SingularityCutter._build_mesh_with_cuts` and of the cut
graph book-keeping, and is decided here for all inputs at once:
  * one output face per input face, in the same order, with the same number of corners, never added to or removed later;
  * the k-th corner of output face i is a vertex placed at the position of the k-th vertex of input face i;
  * vertex copies are merged only across interior edges that are not reported as cut, and a copy of `a` is only ever
    merged with another copy of `a`;
  * the cut-vertex -> original-vertex map is the inverse of the duplicate table filled corner by corner;
  * the cut graph is the complement of the dual spanning tree, symmetric, and pruning removes only non-singular leaves.
"""
from __future__ import annotations
import ast
from .. import au, sym
from ..rules import common

CUT = "processing.cutting"
CLS = "SingularityCutter"

EXPLANATION = (
    "Static conformance of SingularityCutter: the structural clauses of the property (faces in bijection and in order, corner "
    "positions copied, merges only across non-cut interior edges and only between copies of the same vertex, reference map "
    "inverse of the duplicate table, cut-graph book-keeping and pruning of non-singular leaves). The topological clauses "
    "(disk, one border loop, Euler characteristic 1, connectivity of the cut graph) are NOT decided.")

RULES = {
    "C16-F1": "exactly one output face is appended per input face, unconditionally and in input order; later the rows are only rewritten element-wise at the same index",
    "C16-V1": "output face i is [k, k+1, .., k+n-1]; vertex k+j is appended with the position of the j-th vertex of input face i; the offset k starts at 0 and advances by n after the row",
    "C16-U1": "vertex copies are merged only for interior edges not in cut_edges, pairing the copy of a (resp. b) in one face with the copy of a (resp. b) in the other",
    "C16-M1": "compaction renumbers merged copies in order of first appearance; ref_vertex is the inverse of the duplicate table mapped through the same renumbering",
    "C16-C1": "cut edges = all edges minus the dual-tree edges; the cut adjacency is symmetric; pruning removes only leaves that are not singular, symmetrically, together with their edge",
}


def run(ctx):
    f1_v1_faces_and_corners(ctx)
    u1_merges(ctx)
    m1_maps(ctx)
    c1_cut_graph(ctx)


def _fn(ctx, name):
    return ctx.repo.func(CUT, f"{CLS}.{name}")


def f1_v1_faces_and_corners(ctx):
    fn = _fn(ctx, "_build_mesh_with_cuts")
    site = ctx.site(CUT, fn)
    OUT = "self._output_mesh"
    apps = [c for c in au.calls(fn) if au.call_tail(c) == "append" and au.src(c.func.value) == f"{OUT}.faces"]
    ok = len(apps) == 1
    lp = None
    if ok:
        loops = [a for a in au.ancestors(apps[0]) if isinstance(a, ast.For)]
        ok = len(loops) == 1 and isinstance(loops[0].iter, ast.Call) and au.call_tail(loops[0].iter) == "enumerate" \
            and au.src(loops[0].iter.args[0]) == "self.input_mesh.faces" and not au.guards(apps[0], stop=loops[0]) \
            and any(au.enclosing_stmt(apps[0]) is s for s in loops[0].body)
        lp = loops[0] if loops else None
    ctx.check(ok, "C16-F1", site, "output faces are not appended exactly once per input face, unconditionally, in input order",
              "the cut mesh must have exactly the input faces in the same order", note="one append per input face")
    # no other structural edit of the face container
    bad = [c for c in au.calls(fn) if isinstance(c.func, ast.Attribute) and au.src(c.func.value) == f"{OUT}.faces"
           and c.func.attr in ("pop", "remove", "insert", "clear", "extend", "sort", "reverse")]
    bad += [st for st in au.stmts(fn.body) if isinstance(st, (ast.AugAssign, ast.Delete)) and f"{OUT}.faces" in au.src(st)]
    ctx.check(not bad, "C16-F1", site, "the output face container is structurally edited after the faces were created",
              "faces would no longer be in bijection with the input faces")
    # rewrites: faces[i] = [g(v) for v in ROW] with ROW the row at index i
    n_rw = 0
    for st in au.stmts(fn.body):
        if isinstance(st, ast.Assign) and isinstance(st.targets[0], ast.Subscript) and au.src(st.targets[0].value) == f"{OUT}.faces":
            n_rw += 1
            idx = au.src(st.targets[0].slice)
            loops = [a for a in au.ancestors(st) if isinstance(a, ast.For)]
            good = False
            if loops and isinstance(loops[0].iter, ast.Call) and au.call_tail(loops[0].iter) == "enumerate" \
                    and au.src(loops[0].iter.args[0]) == f"{OUT}.faces" and isinstance(loops[0].target, ast.Tuple):
                i, row = (x.id for x in loops[0].target.elts)
                v = st.value
                good = idx == i and isinstance(v, ast.ListComp) and len(v.generators) == 1 and not v.generators[0].ifs \
                    and au.src(v.generators[0].iter) == row and isinstance(v.generators[0].target, ast.Name) \
                    and v.generators[0].target.id in au.names(v.elt) and not au.guards(st, stop=loops[0])
            ctx.check(good, "C16-F1", ctx.site(CUT, fn, st),
                      f"`{au.src(st)[:80]}` does not rewrite row i element by element from its own old entries",
                      "corner k of output face i must stay the image of corner k of input face i", note="row rewritten element-wise in place")
    ctx.check(n_rw >= 2, "C16-F1", site, "the merge / renumbering passes over the output faces were not found", "")
    if lp is None or not isinstance(lp.target, ast.Tuple):
        return
    iF, F = (x.id for x in lp.target.elts)
    b = sym.Bindings(fn)
    # V1: row = [k + j for j in range(n)], n = len(F)
    row = apps[0].args[0]
    okrow = False
    kname = nname = None
    if isinstance(row, ast.ListComp) and len(row.generators) == 1 and isinstance(row.generators[0].target, ast.Name):
        j = row.generators[0].target.id
        p = sym.to_poly(row.elt)
        it = row.generators[0].iter
        if isinstance(it, ast.Call) and au.call_tail(it) == "range" and len(it.args) == 1 and p.coeff(j) == sym.Poly.const(1):
            rest = p.without(j)
            if len(rest.atoms()) == 1 and rest.coeff(next(iter(rest.atoms()))) == sym.Poly.const(1) and rest.without(next(iter(rest.atoms()))).is_zero():
                kname = next(iter(rest.atoms()))
                nname = au.src(it.args[0])
                okrow = au.src(b.resolve(it.args[0], at=apps[0], keep=(F,))) == f"len({F})"
    ctx.check(okrow, "C16-V1", ctx.site(CUT, fn, apps[0]), "output face i is not [k + j for j in range(len(F))]",
              "every corner of every face gets its own vertex copy before merging", note="fresh copy per corner")
    if not okrow:
        return
    # vertices appended once per corner with the corner's position
    inner = [s for s in lp.body if isinstance(s, ast.For) and isinstance(s.iter, ast.Call) and au.call_tail(s.iter) == "enumerate"
             and au.src(s.iter.args[0]) == F and isinstance(s.target, ast.Tuple)]
    okv = okd = False
    if len(inner) == 1:
        iv, v = (x.id for x in inner[0].target.elts)
        vapps = [c for c in au.calls(inner[0]) if au.call_tail(c) == "append" and au.src(c.func.value) == f"{OUT}.vertices"]
        if len(vapps) == 1 and not au.guards(vapps[0], stop=inner[0]):
            pos = b.resolve(vapps[0].args[0], at=au.enclosing_stmt(vapps[0]), keep=(v, iv, F))
            okv = au.src(pos) == f"self.input_mesh.vertices[{v}]"
        for c in au.calls(inner[0]):
            if au.call_tail(c) == "add" and isinstance(c.func.value, ast.Subscript) and au.src(c.func.value.slice) == v:
                p = sym.to_poly(c.args[0])
                okd = p == sym.Poly.atom(kname) + sym.Poly.atom(iv) and not au.guards(c, stop=inner[0])
    all_vapps = [c for c in au.calls(fn) if au.call_tail(c) == "append" and au.src(c.func.value) == f"{OUT}.vertices"]
    ctx.check(okv and len(all_vapps) == 1, "C16-V1", site, "the copy made for corner j of face i is not appended once with the position of F[j]",
              "each output face must have the same corner positions as the input face", note="vertex k+j at position of F[j]")
    ctx.check(okd, "C16-V1", site, "the duplicate table does not record copy k+j under the original vertex F[j]",
              "the map from cut vertices to original vertices must be consistent face by face", note="duplicates[v] gets k+j")
    # offset discipline
    incs = [s for s in lp.body if isinstance(s, ast.AugAssign) and isinstance(s.target, ast.Name) and s.target.id == kname]
    init = [s for s in fn.body if isinstance(s, ast.Assign) and isinstance(s.targets[0], ast.Name) and s.targets[0].id == kname]
    oko = len(incs) == 1 and isinstance(incs[0].op, ast.Add) and au.src(incs[0].value) == nname \
        and incs[0].lineno > apps[0].lineno and (not inner or incs[0].lineno > inner[0].lineno) \
        and len(init) == 1 and au.const(init[0].value) == 0 and init[0].lineno < lp.lineno \
        and len([s for s in au.stmts(fn.body) if isinstance(s, ast.AugAssign) and au.src(s.target) == kname]) == 1
    ctx.check(oko, "C16-V1", site, f"running offset `{kname}` does not start at 0 and advance by the face size after the face's copies were made",
              "copies of different faces must not overlap", note="offset advanced by len(F) after its uses")


def u1_merges(ctx):
    fn = _fn(ctx, "_build_mesh_with_cuts")
    site = ctx.site(CUT, fn)
    OUT = "self._output_mesh"
    unions = [c for c in au.calls(fn) if au.call_tail(c) == "union"]
    if not unions:
        ctx.fail("C16-U1", site, "vertex copies are never merged (no union call)", "")
        return
    lp = [a for a in au.ancestors(unions[0]) if isinstance(a, ast.For)]
    ok_loop = bool(lp) and au.src(lp[0].iter) == "self.input_mesh.interior_edges" and isinstance(lp[0].target, ast.Name)
    ctx.check(ok_loop, "C16-U1", site, "merging does not range over the interior edges of the input mesh",
              "border edges have a single face: there is nothing to merge across them")
    if not ok_loop:
        return
    e = lp[0].target.id
    # endpoints and roles
    ends = None
    role = {}
    for st in au.stmts(lp[0].body):
        if isinstance(st, ast.Assign) and isinstance(st.targets[0], ast.Tuple) and len(st.targets[0].elts) == 2 \
                and au.src(st.value) == f"self.input_mesh.edges[{e}]":
            ends = [x.id for x in st.targets[0].elts]
        if isinstance(st, ast.Assign) and isinstance(st.targets[0], ast.Tuple) and len(st.targets[0].elts) == 3 \
                and isinstance(st.value, ast.Call) and au.call_tail(st.value) == "direct_face" and len(st.value.args) == 3 \
                and au.const(st.value.args[2]) is True:
            a, b_ = au.src(st.value.args[0]), au.src(st.value.args[1])
            names = [x.id for x in st.targets[0].elts]
            role[names[0]] = ("face", (a, b_))
            role[names[1]] = ("idx", a, (a, b_))
            role[names[2]] = ("idx", b_, (a, b_))
    for c in unions:
        gs = []
        for t, pol in au.guards(c, stop=lp[0]):
            while isinstance(t, ast.UnaryOp) and isinstance(t.op, ast.Not):
                t, pol = t.operand, not pol
            gs.append((t, pol))
        guarded = any(isinstance(t, ast.Compare) and isinstance(t.ops[0], ast.NotIn) and pol and au.src(t.left) == e
                      and au.src(t.comparators[0]) == "self.cut_edges" for t, pol in gs) or \
            any(isinstance(t, ast.Compare) and isinstance(t.ops[0], ast.In) and not pol and au.src(t.left) == e
                and au.src(t.comparators[0]) == "self.cut_edges" for t, pol in gs)
        ctx.check(guarded and len(gs) == 1, "C16-U1", ctx.site(CUT, fn, c),
                  "copies are merged across an edge without (only) the test `edge not in self.cut_edges`",
                  "only the edges reported as cut may be opened, and every other interior edge must be closed", note="merge iff not a cut edge")
        good = False
        if len(c.args) == 2 and ends:
            verts = []
            for a in c.args:
                # OUT.faces[Fk][idx]
                if isinstance(a, ast.Subscript) and isinstance(a.value, ast.Subscript) and au.src(a.value.value) == f"{OUT}.faces":
                    fk, ik = au.src(a.value.slice), au.src(a.slice)
                    rf, ri = role.get(fk), role.get(ik)
                    if rf and ri and rf[0] == "face" and ri[0] == "idx" and ri[2] == rf[1]:
                        verts.append((ri[1], rf[1]))
            good = len(verts) == 2 and verts[0][0] == verts[1][0] and verts[0][1] == (verts[1][1][1], verts[1][1][0]) \
                and verts[0][0] in ends
        ctx.check(good, "C16-U1", ctx.site(CUT, fn, c),
                  f"`{au.src(c)[:90]}` does not merge the copy of one endpoint in the face on one side with the copy of the SAME endpoint on the other side",
                  "direct_face(a, b, True) returns (face, index of a, index of b): merging the copy of a with a copy of b collapses the edge",
                  note="copy of x in F1 merged with copy of x in F2")
    merged = set()
    for c in unions:
        for a in c.args[:1]:
            if isinstance(a, ast.Subscript):
                r = role.get(au.src(a.slice))
                if r:
                    merged.add(r[1])
    ctx.check(ends is not None and merged == set(ends), "C16-U1", site,
              f"both endpoints of a closed edge must be merged; merged: {sorted(merged)}", "", note="both endpoints merged")


def m1_maps(ctx):
    fn = _fn(ctx, "_build_mesh_with_cuts")
    site = ctx.site(CUT, fn)
    OUT = "self._output_mesh"
    # first-appearance renumbering: for F in faces: for v in F: if v in imap: continue; imap[v] = i; i += 1
    ok = False
    imap = None
    for st in au.stmts(fn.body):
        if isinstance(st, ast.Assign) and isinstance(st.targets[0], ast.Subscript) and isinstance(st.targets[0].value, ast.Name) \
                and isinstance(st.value, ast.Name):
            loops = [a for a in au.ancestors(st) if isinstance(a, ast.For)]
            if len(loops) == 2 and au.src(loops[1].iter) == f"{OUT}.faces" and isinstance(loops[0].target, ast.Name) \
                    and au.src(st.targets[0].slice) == loops[0].target.id and au.src(loops[0].iter) == au.src(loops[1].target):
                d, cnt, v = st.targets[0].value.id, st.value.id, loops[0].target.id
                blk, _ = au.enclosing_block(st)
                inc = [s for s in blk if isinstance(s, ast.AugAssign) and au.src(s.target) == cnt and au.const(s.value) == 1 and isinstance(s.op, ast.Add)]
                skip = [s for s in blk if isinstance(s, ast.If) and au.src(s.test) == f"{v} in {d}" and isinstance(s.body[0], ast.Continue)
                        and s.lineno < st.lineno]
                init = [s for s in fn.body if isinstance(s, ast.Assign) and au.src(s.targets[0]) == cnt and au.const(s.value) == 0]
                guarded = skip or any(au.src(t) == f"{v} not in {d}" and pol for t, pol in au.guards(st, stop=loops[0]))
                if len(inc) == 1 and guarded and init and inc[0].lineno > st.lineno:
                    ok, imap = True, d
    ctx.check(ok, "C16-M1", site, "merged copies are not renumbered 0,1,2,.. in order of first appearance (once each)",
              "the cut mesh must index its vertices contiguously and each merged class exactly once", note="first-appearance renumbering")
    if not imap:
        return
    # positions follow: order[imap[u]] = vertices[u] for u in imap
    okp = False
    for st in au.stmts(fn.body):
        if isinstance(st, ast.Assign) and isinstance(st.targets[0], ast.Subscript) and isinstance(st.targets[0].slice, ast.Subscript) \
                and au.src(st.targets[0].slice.value) == imap and isinstance(st.value, ast.Subscript) \
                and au.src(st.value.value) == f"{OUT}.vertices" and au.src(st.value.slice) == au.src(st.targets[0].slice.slice):
            okp = True
    ctx.check(okp, "C16-M1", site, "vertex positions are not moved to their new index with the same renumbering", "", note="positions follow the renumbering")
    # duplicates mapped through imap[uf.find(u)], ref_vertex inverse
    okd = okr = False
    for st in au.stmts(fn.body):
        if isinstance(st, ast.Assign) and isinstance(st.targets[0], ast.Subscript) and isinstance(st.value, ast.SetComp):
            g = st.value.generators[0]
            if au.src(st.targets[0].value) == au.src(g.iter.value if isinstance(g.iter, ast.Subscript) else g.iter) \
                    and isinstance(g.target, ast.Name):
                u = g.target.id
                okd = au.src(st.value.elt).replace(" ", "") == f"{imap}[uf.find({u})]" and au.src(g.iter.slice) == au.src(st.targets[0].slice)
        if isinstance(st, ast.Assign) and isinstance(st.targets[0], ast.Subscript) and au.is_self_attr(st.targets[0].value, "ref_vertex"):
            loops = [a for a in au.ancestors(st) if isinstance(a, ast.For)]
            if len(loops) == 2 and isinstance(loops[0].target, ast.Name) and isinstance(loops[1].target, ast.Name):
                u, v = loops[0].target.id, loops[1].target.id
                okr = au.src(st.targets[0].slice) == u and au.src(st.value) == v and au.src(loops[0].iter).endswith(f"[{v}]") \
                    and au.src(loops[0].iter).startswith(au.src(loops[1].iter))
    ctx.check(okd, "C16-M1", site, "the duplicate table is not mapped through the same merge + renumbering as the faces", "",
              note="duplicates -> imap[find(u)]")
    ctx.check(okr, "C16-M1", site, "ref_vertex is not the inverse of the duplicate table (ref[u] = v for every copy u of v)",
              "every cut vertex must map to the original vertex it is a copy of, and every original vertex must be hit", note="ref_vertex inverse")


def c1_cut_graph(ctx):
    fn = _fn(ctx, "_build_cut_edges_tree")
    site = ctx.site(CUT, fn)
    ev = au.params(fn, skip_self=True)[0]
    ok = any(isinstance(st, ast.Assign) and au.is_self_attr(st.targets[0], "cut_edges")
             and au.src(st.value).replace(" ", "") == f"set(self.input_mesh.id_edges)-{ev}" for st in fn.body)
    ctx.check(ok, "C16-C1", site, "cut edges are not `all edges minus the edges crossed by the dual tree`", "", note="complement of the dual tree")
    adds = []
    for c in au.calls(fn):
        if au.call_tail(c) == "add" and isinstance(c.func.value, ast.Subscript) and au.is_self_attr(c.func.value.value, "cut_adj"):
            adds.append((au.src(c.func.value.slice), au.src(c.args[0])))
    ctx.check(len(adds) == 2 and adds[0] == adds[1][::-1] and adds[0][0] != adds[0][1], "C16-C1", site,
              f"cut adjacency inserts {adds} are not the symmetric pair", "", note="cut_adj symmetric")
    fn = _fn(ctx, "_prune_edge_tree")
    site = ctx.site(CUT, fn)
    # every enqueue is guarded by degree == 1 and not singular
    apps = [c for c in au.calls(fn) if au.call_tail(c) == "append" and isinstance(c.func.value, ast.Name)]
    okq = len(apps) >= 2
    for c in apps:
        x = au.src(c.args[0])
        gs = [au.src(t) for t, pol in au.guards(c, stop=fn) if pol]
        conj = " and ".join(gs)
        okq = okq and (f"{x} not in self.singularities" in conj or f"{x} not in self.singu_set" in conj) and "== 1" in conj.replace("==1", "== 1")
    ctx.check(okq, "C16-C1", site, "a vertex is queued for pruning without the tests `cut degree == 1 and not singular`",
              "pruning must stop at singular vertices: every singularity keeps a copy on the border of the cut mesh", note="only non-singular leaves pruned")
    loops = [st for st in au.stmts(fn.body) if isinstance(st, ast.For) and isinstance(st.iter, ast.Subscript)
             and au.is_self_attr(st.iter.value, "cut_adj")]
    okr = False
    if loops:
        A = au.src(loops[0].iter.slice)
        B = loops[0].target.id
        rm_adj = any(au.call_tail(c) in ("remove", "discard") and au.src(c.func.value) == f"self.cut_adj[{B}]" and au.src(c.args[0]) == A
                     for c in au.calls(loops[0]))
        rm_edge = any(au.call_tail(c) in ("remove", "discard") and au.is_self_attr(c.func.value, "cut_edges") and isinstance(c.args[0], ast.Call)
                      and au.call_tail(c.args[0]) == "edge_id" and {au.src(a) for a in c.args[0].args} == {A, B} for c in au.calls(loops[0]))
        blk, _ = au.enclosing_block(loops[0])
        clr = any(isinstance(s, ast.Assign) and au.src(s.targets[0]) == f"self.cut_adj[{A}]" and au.src(s.value) in ("set()",) for s in blk)
        okr = rm_adj and rm_edge and clr
    ctx.check(okr, "C16-C1", site, "removing a leaf does not update both adjacency sides, the cut-edge set and the leaf itself",
              "the reported cut edges must be exactly the edges of the pruned cut graph", note="leaf removal keeps the three tables consistent")
